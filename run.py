#!/venv/bin/python
"""Entry point.   run.py check <Cxx> [--tier quick|thorough]    |    run.py replay <artefact.json>"""
import sys, os, argparse, importlib, time
VERIF = os.path.dirname(os.path.abspath(__file__))
sys.path.insert(0, VERIF)
os.environ.setdefault("PYTHONHASHSEED", "0")


def main():
    ap = argparse.ArgumentParser()
    sub = ap.add_subparsers(dest="cmd", required=True)
    c = sub.add_parser("check"); c.add_argument("prop"); c.add_argument("--tier", default=os.environ.get("VERIF_TIER", "quick"), choices=["quick", "thorough"])
    c.add_argument("--only", default=None, help="substring filter on configuration names (debugging; evidence then covers only those)")
    r = sub.add_parser("replay"); r.add_argument("path")
    a = ap.parse_args()
    from engine import runner
    if a.cmd == "replay":
        sys.exit(runner.replay_artifact(a.path))
    seed = int(os.environ.get("VERIF_SEED", "0"))
    runner.setup_path()
    mod = importlib.import_module("checks.%s" % a.prop.lower())
    try:
        rc = mod.run(a.tier, seed, only=a.only)
    except Exception as e:
        import traceback; traceback.print_exc()
        print("ENGINE-ERROR: %s: %s" % (type(e).__name__, e)); rc = 2
    sys.exit(rc)


if __name__ == "__main__":
    main()
