#!/venv/bin/python
"""Files and runs one property-PRESERVING change (a legitimate refactoring/optimisation produced by an independent sub-agent): the checks
must stay silent on it.
usage: preserving.py <Pxx> <N> <src_dir> <checks: C01,C02,...> [--tier quick]
Steps: patch applies to /repo HEAD in a scratch worktree; the author's demonstration passes without and with the patch; the pinned suite still
passes (tools/baseline.py); then every listed check runs against the patched worktree (VERIF_REPO).  Result in preserving/<Pxx>-<N>/meta.json."""
import sys, os, subprocess, shutil, json, time
V = os.path.dirname(os.path.dirname(os.path.abspath(__file__)))
area, n, src, checks = sys.argv[1], sys.argv[2], sys.argv[3], sys.argv[4].split(",")
tier = sys.argv[sys.argv.index("--tier") + 1] if "--tier" in sys.argv else "quick"
sid = "%s-%s" % (area, n)
wt = "/tmp/presrun_%s" % sid
subprocess.call(["git", "-C", "/repo", "worktree", "remove", "--force", wt], stderr=subprocess.DEVNULL)
subprocess.check_call(["git", "-C", "/repo", "worktree", "add", "-q", "--detach", wt, "HEAD"])
res = {}
d = os.path.join(V, "preserving", sid)
try:
    demo = os.path.join(src, "demo%s.py" % n); patch = os.path.join(src, "patch%s.diff" % n)
    txt = open(demo).read().replace("/tmp/pres_%s" % area, wt)
    os.makedirs(os.path.join(wt, "_out"), exist_ok=True)
    open(os.path.join(wt, "_out", "_demo.py"), "w").write("import sys; sys.path.insert(0, %r)\n" % wt + txt)
    env = dict(os.environ, PYTHONPATH=wt)
    def run_demo():
        p = subprocess.run(["/venv/bin/python", "_out/_demo.py"], cwd=wt, env=env, stdout=subprocess.PIPE, stderr=subprocess.STDOUT, text=True, timeout=1200)
        return p.returncode, p.stdout[-300:]
    res["demo_clean_exit"], _ = run_demo()
    subprocess.check_call(["git", "-C", wt, "apply", patch])
    res["demo_patched_exit"], res["demo_patched_tail"] = run_demo()
    p = subprocess.run(["/venv/bin/python", os.path.join(V, "tools", "baseline.py"), wt], stdout=subprocess.PIPE, stderr=subprocess.STDOUT, text=True)
    res["baseline_exit"] = p.returncode
    res["admitted"] = res["demo_clean_exit"] == 0 and res["demo_patched_exit"] == 0 and p.returncode == 0
    print(sid, "ADMITTED" if res["admitted"] else "NOT ADMITTED", res)
    os.makedirs(d, exist_ok=True)
    shutil.copy(patch, os.path.join(d, "patch.diff"))
    open(os.path.join(d, "demo.py"), "w").write(open(demo).read().replace("/tmp/pres_%s" % area, "/repo"))
    notes = os.path.join(src, "notes%s.md" % n)
    if os.path.exists(notes): shutil.copy(notes, os.path.join(d, "notes.md"))
    runs = {}
    if res["admitted"]:
        for c in checks:
            ev = os.path.join(V, "evidence", "%s.json" % c); bak = ev + ".bak"
            if os.path.exists(ev): shutil.copy(ev, bak)
            t = time.time()
            q = subprocess.run(["/venv/bin/python", os.path.join(V, "run.py"), "check", c, "--tier", tier], cwd=V, env=dict(os.environ, VERIF_REPO=wt), stdout=subprocess.PIPE, stderr=subprocess.STDOUT, text=True)
            lines = [l for l in q.stdout.splitlines() if l.startswith("VIOLATION") or l.strip().startswith("violation in") or "engine error" in l.lower() and " 0 engine errors" not in l]
            runs[c] = dict(exit=q.returncode, silent=q.returncode == 0, wall_s=round(time.time() - t, 1), lines=lines[:6])
            if os.path.exists(bak): shutil.move(bak, ev)
            print("   ", c, "exit", q.returncode, "silent" if q.returncode == 0 else "ALARM", "%.0fs" % (time.time() - t))
            for l in lines[:4]: print("        ", l[:230])
            if q.returncode not in (0, 1): print(q.stdout[-1200:])
    meta = dict(id=sid, kind="property-preserving change", checks=checks, tier=tier, admitted=res, runs=runs, when=time.strftime("%Y-%m-%d %H:%M"),
                origin="independent sub-agent given only the property texts and a scratch worktree, asked for legitimate changes that keep the properties true")
    json.dump(meta, open(os.path.join(d, "meta.json"), "w"), indent=1)
finally:
    subprocess.call(["git", "-C", "/repo", "worktree", "remove", "--force", wt])
