#!/venv/bin/python
"""Runs the registered quick (or thorough) check(s) against one seeded property-breaking change.

usage: seeded.py <seeded-id> [--tier quick|thorough] [--checks C01,C02] [--in-repo]
Default: the patch is applied to a scratch git worktree of /repo's HEAD (outside /repo and /verif) selected through VERIF_REPO, so that
background runs using /repo are not disturbed; --in-repo applies it to /repo itself (git apply ... run ... git checkout -- .).
The evidence files of the checks are saved and restored (evidence must describe the unchanged tree)."""
import sys, os, json, subprocess, shutil, time, argparse
V = os.path.dirname(os.path.dirname(os.path.abspath(__file__)))
ap = argparse.ArgumentParser(); ap.add_argument("sid"); ap.add_argument("--tier", default="quick"); ap.add_argument("--checks", default=None); ap.add_argument("--in-repo", action="store_true")
a = ap.parse_args()
d = os.path.join(V, "seeded", a.sid)
meta = json.load(open(os.path.join(d, "meta.json")))
checks = a.checks.split(",") if a.checks else meta.get("checks", [meta["property"]])
patch = os.path.join(d, "patch.diff")
if a.in_repo:
    subprocess.check_call(["git", "-C", "/repo", "apply", patch]); repo = "/repo"
else:
    repo = "/tmp/seedrun_%s_%d" % (a.sid, os.getpid())
    subprocess.check_call(["git", "-C", "/repo", "worktree", "add", "-q", "--detach", repo, "HEAD"])
    subprocess.check_call(["git", "-C", repo, "apply", patch])
res = {}
try:
    for c in checks:
        ev = os.path.join(V, "evidence", "%s.json" % c); bak = ev + ".bak"
        if os.path.exists(ev): shutil.copy(ev, bak)
        t = time.time()
        env = dict(os.environ, VERIF_REPO=repo)
        p = subprocess.run(["/venv/bin/python", os.path.join(V, "run.py"), "check", c, "--tier", a.tier], cwd=V, env=env, stdout=subprocess.PIPE, stderr=subprocess.STDOUT, text=True)
        viol = [l for l in p.stdout.splitlines() if l.startswith("VIOLATION") or l.strip().startswith("violation in")]
        res[c] = dict(exit=p.returncode, detected=p.returncode == 1 and any(l.startswith("VIOLATION") for l in viol), wall_s=round(time.time() - t, 1), lines=viol[:6])
        if os.path.exists(bak): shutil.move(bak, ev)
        print(c, "exit", p.returncode, "DETECTED" if res[c]["detected"] else "not detected", "%.0fs" % (time.time() - t))
        for l in viol[:4]: print("    ", l[:220])
        if p.returncode not in (0, 1): print(p.stdout[-1500:])
finally:
    if a.in_repo: subprocess.check_call(["git", "-C", "/repo", "checkout", "--", "."])
    else: subprocess.call(["git", "-C", "/repo", "worktree", "remove", "--force", repo])
meta.setdefault("runs", []).append(dict(tier=a.tier, in_repo=a.in_repo, when=time.strftime("%Y-%m-%d %H:%M"), results=res))
json.dump(meta, open(os.path.join(d, "meta.json"), "w"), indent=1)
