#!/venv/bin/python
"""Regenerates the generated tables of DESIGN.md (between the SUMMARY and SEEDED markers) from evidence/ and seeded/*/meta.json."""
import subprocess, os, re
V = os.path.dirname(os.path.dirname(os.path.abspath(__file__)))
p = os.path.join(V, "DESIGN.md"); s = open(p).read()
def put(s, tag, text):
    a = "<!-- %s-BEGIN -->" % tag; b = "<!-- %s-END -->" % tag
    i = s.index(a) + len(a); j = s.index(b)
    return s[:i] + "\n" + text.rstrip("\n") + "\n" + s[j:]
s = put(s, "SUMMARY", subprocess.check_output([os.path.join(V, "tools", "summary_table.py")], text=True))
if "<!-- PRESERVING-BEGIN -->" in s:
    s = put(s, "PRESERVING", subprocess.check_output([os.path.join(V, "tools", "preserving_table.py")], text=True))
s = put(s, "SEEDED", subprocess.check_output([os.path.join(V, "tools", "seeded_table.py")], text=True))
open(p, "w").write(s)
