#!/venv/bin/python
"""Confirms one candidate seeded change in a scratch worktree and, if it holds, files it under /verif/seeded/<id>/.
usage: confirm_seed.py <Cxx> <N> <src_dir>       (src_dir holds patch<N>.diff, demo<N>.py, notes<N>.md)
Checks: patch applies to /repo HEAD; demo exits 0 on clean HEAD and non-zero with the patch; the pinned suite still passes (tools/baseline.py)."""
import sys, os, subprocess, shutil, json, time
V = os.path.dirname(os.path.dirname(os.path.abspath(__file__)))
prop, n, src = sys.argv[1], sys.argv[2], sys.argv[3]
sid = "%s-%s" % (prop, sys.argv[4] if len(sys.argv) > 4 else n)
wt = "/tmp/confirm_%s" % sid
subprocess.call(["git", "-C", "/repo", "worktree", "remove", "--force", wt], stderr=subprocess.DEVNULL)
subprocess.check_call(["git", "-C", "/repo", "worktree", "add", "-q", "--detach", wt, "HEAD"])
res = {}
try:
    demo = os.path.join(src, "demo%s.py" % n); patch = os.path.join(src, "patch%s.diff" % n)
    # candidates were written in the author's own worktree (/tmp/mut_<prop>); point every such path at this confirmation worktree
    txt = open(demo).read().replace("/tmp/mut3_%s" % prop, wt).replace("/tmp/mut2_%s" % prop, wt).replace("/tmp/mut_%s" % prop, wt)
    os.makedirs(os.path.join(wt, "_out"), exist_ok=True)      # same relative position as where the author ran it
    open(os.path.join(wt, "_out", "_demo.py"), "w").write("import sys; sys.path.insert(0, %r)\n" % wt + txt + "\nimport litedram as _l; assert _l.__file__.startswith(%r), _l.__file__\n" % wt)
    env = dict(os.environ, PYTHONPATH=wt)
    def run_demo():
        p = subprocess.run(["/venv/bin/python", "_out/_demo.py"], cwd=wt, env=env, stdout=subprocess.PIPE, stderr=subprocess.STDOUT, text=True, timeout=1200)
        return p.returncode, p.stdout[-600:]
    rc0, out0 = run_demo(); res["demo_clean_exit"] = rc0
    subprocess.check_call(["git", "-C", wt, "apply", patch])
    rc1, out1 = run_demo(); res["demo_mutated_exit"] = rc1; res["demo_mutated_tail"] = out1[-300:]
    p = subprocess.run(["/venv/bin/python", os.path.join(V, "tools", "baseline.py"), wt], stdout=subprocess.PIPE, stderr=subprocess.STDOUT, text=True)
    res["baseline_exit"] = p.returncode; res["baseline_line"] = p.stdout.strip().splitlines()[0] if p.stdout.strip() else ""
    ok = rc0 == 0 and rc1 != 0 and p.returncode == 0
    res["confirmed"] = ok
    print(sid, "CONFIRMED" if ok else "REJECTED", res)
    if ok:
        d = os.path.join(V, "seeded", sid); os.makedirs(d, exist_ok=True)
        shutil.copy(patch, os.path.join(d, "patch.diff"))
        open(os.path.join(d, "demo.py"), "w").write(open(demo).read().replace("/tmp/mut3_%s" % prop, "/repo").replace("/tmp/mut2_%s" % prop, "/repo").replace("/tmp/mut_%s" % prop, "/repo"))
        notes = os.path.join(src, "notes%s.md" % n)
        if os.path.exists(notes): shutil.copy(notes, os.path.join(d, "notes.md"))
        meta = dict(id=sid, property=prop, checks=[prop], origin="independent sub-agent given only the property text and a scratch worktree",
                    confirmed=dict(res, when=time.strftime("%Y-%m-%d %H:%M"), how="tools/confirm_seed.py: demo on clean HEAD / with patch in a scratch worktree; pinned suite via tools/baseline.py on the patched worktree"))
        json.dump(meta, open(os.path.join(d, "meta.json"), "w"), indent=1)
finally:
    subprocess.call(["git", "-C", "/repo", "worktree", "remove", "--force", wt])
