#!/venv/bin/python
"""Markdown table of the property-preserving changes and the verdict of the checks (from preserving/*/meta.json)."""
import json, glob, os
V = os.path.dirname(os.path.dirname(os.path.abspath(__file__)))
print("| change | what it does (property-preserving) | checks run (quick tier) | verdict |")
print("|---|---|---|---|")
for f in sorted(glob.glob(os.path.join(V, "preserving", "*", "meta.json"))):
    m = json.load(open(f))
    ok = m["admitted"].get("admitted") and all(r["silent"] for r in m["runs"].values())
    print("| %s | %s | %s | %s |" % (m["id"], m.get("what", ""), ", ".join(m["runs"]), "silent" if ok else "ALARM: " + "; ".join(c for c, r in m["runs"].items() if not r["silent"])))
