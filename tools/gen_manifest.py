#!/venv/bin/python
"""Regenerates /verif/MANIFEST.json from the table below (the single place where claims are recorded)."""
import json, os, subprocess
V = os.path.dirname(os.path.dirname(os.path.abspath(__file__)))
MC = "model_checking"; EX = "exploration"
BFS = "explicit-state BFS of the elaborated netlist with reference-model oracle; traces replayed on migen.sim evaluator"
CLAIMS = {
 "C01": (MC, "complete reachable graph of crossbar+controller+DRAM reference+scoreboard for every command sequence of K commands per port over a colliding address alphabet, all timings, port interleavings and refresh phases in a window; every transition judged by the acceptance-order scoreboard",
         "bounded: K commands/port, 2 banks x 2 rows, 1-2 ports; data independence (one watched byte per run); compiled step validated against migen's evaluator on every run", BFS),
 "C02": (MC, "complete reachable graphs of crossbar+controller under K-command masters (SDR 1:1, DDR2 1:2, DDR3 1:4; 1-2 ports, 1-2 ranks, 2-4 banks, refresh phases, ZQCS); every DFI phase of every transition judged by an independent bank-state/request-queue legality reference",
         "bounded: K commands per port, small colliding address alphabet, refresh explored in a window of timer phases (thorough widens)", BFS),
 "C03": (MC, "complete reachable graphs of the core with timings produced by LiteDRAM's own SDRAMModule from synthetic-tight and library module descriptions; every command pair's spacing in DRAM clocks (phase included) compared with independently computed datasheet minimums",
         "bounded: K commands per port; rules listed by the property only; least-demanding reading of auto-precharge; min slack per rule reported in evidence", BFS),
 "C04": (MC, "closed (infinite-time) graphs of the core under unbounded adversarial ports with an owed-refresh monitor: safety (owed <= postponing, PREA before REF, ZQCS period) on every transition and bad-cycle search for refresh/traffic liveness with exact worst-case latencies",
         "adversary classes are explicit tiny alphabets (so the graph closes); tREFI=100 cycles; postponing 1-2 quick, 1-8 thorough", "explicit-state BFS to closure + bad-cycle (lasso) search on the complete graph"),
 "C05": (MC, "closed graphs of the 2-port core (victim + adversary classes); bad-cycle search per obligation (offered->accepted, accepted->served, both ports, global progress) with exact worst-case waits; known crossbar re-arbitration finding fingerprinted, any other lasso is a violation",
         "adversary classes explicit; liveness only on complete graphs; anti-starvation timers set to 4", "explicit-state BFS to closure + bad-cycle (lasso) search on the complete graph"),
 "C06": (EX, "exhaustive enumeration of every port address (two passes, second in bit-reversed order) through the real crossbar+controller netlist for a grid of geometries (SDR/DDR2/DDR3/LPDDR4 burst alignments, 1-4 bank bits, 8-12 column bits, 1-2 ranks, bank byte alignments), and structured address sets (all column x bank values with walking/extreme rows, all rows) on real-size row spaces with auto-precharge; (rank, bank, ACT row, READ column, A10) observed on the DFI compared with an independent bit-permutation reference; injectivity, surjectivity, walking order",
         "complete per small geometry; structured (bit-permutation argument) for >= 11 row bits and for > 10 column bits; compiled step validated against migen's evaluator on the first 300 cycles of each run", "exhaustive input enumeration through the elaborated netlist against an independent reference mapping"),
 "C07": (MC, "complete reachable graphs of the real port converter (up 1:2..1:32, down 2:1..8:1, modes both/read/write) between a K-command native master (all address orders, last/flush hints) and a real-core-limited memory responder with unrestricted timing; byte-exact reference, quiescence comparison and drain liveness",
         "bounded: K commands over two wide words; responder latencies >= real-core minima (3/6 cycles)", BFS),
 "C10": (MC, "complete reachable graphs of the real Wishbone bridge (equal width, narrow bus with merge buffer/read cache, wide bus with down-converter, base addresses) and of the native-to-Wishbone bridge: K accesses from a colliding alphabet, classic and incrementing-burst cycles, aborts possible in every cycle, all memory timings; ack-once rule, byte-exact reference with value sets after aborted writes, quiescent memory comparison, liveness",
         "K = 3-4 accesses (5 in thorough); sequential master (one access at a time)", BFS),
 "C11": (MC, "complete reachable graphs of the real Avalon-MM bridge per access scenario (single and burst writes with per-beat byte enables, burst reads; widths 32/32, 32/16, 16/32, 8/32; max burst 2-4; base addresses; don't-care values on idle lines) under every legal master timing incl. idle cycles inside write bursts, waitrequest, cmd.ready stalls and memory latencies; beat-exact reference, readdatavalid count/order, final memory, liveness",
         "scenario list fixed; sequential (thorough: pipelined) master", BFS),
 "C12": (MC, "closed graphs of the DMA reader and writer between unbounded stream producers/consumers (free stalls) and the memory responder; exactly-once in-order scoreboard, reservation invariant, drain liveness",
         "FIFO depths 2-4 quick (2-8 thorough); 3-address alphabet", "explicit-state BFS to closure with stream scoreboard"),
 "C13": (MC, "closed graph of the DRAM-FIFO core (2-entry DMA FIFOs, every timing free) and deviation-bounded exploration (mode changes of producer/consumer, non-default memory answers) of the full LiteDRAMFIFO incl. bypass FSM and width ratio 2-4; stream equality, level bound, no overwrite of unread words, drain liveness",
         "full FIFO: D deviations from the default environment (closure not reachable in Python with the shipped 16-entry DMA FIFOs); known bypass padding finding fingerprinted", "explicit-state BFS (closed / deviation-bounded) with stream scoreboard"),
 "C08": (MC, "complete reachable graphs of the real two-domain CDC port for each stream (command, write data, read data; FIFO depths 4-16) with the tick set {user},{sys},{both} a free choice in every state (all frequency ratios, phases and drift) and free back-pressure; exactly-once in-order scoreboard; three streams together explored breadth-first up to a stated state cap",
         "MultiReg = two flip-flops as in migen.sim (no metastability model); the combined three-stream run is capped (reported as capped, not exhaustive)", "explicit-state BFS over all clock interleavings of the elaborated multi-clock netlist"),
 "C09": (MC, "complete reachable graphs of the real AXI bridge per burst scenario (FIXED/INCR/WRAP, narrow/unaligned, 1-3 writes + 1-3 reads in flight, two IDs, partial strobes, base address, with and without read-modify-write) under every 5-channel timing, cmd.ready stall and memory latency; AXI-level reference memory, B/R protocol rules, final-memory comparison, drain liveness",
         "scenario list is fixed (bursts are not enumerated exhaustively); two read-modify-write findings fingerprinted by history flags", BFS),
 "C14": (MC, "BFS through the real BIST generator then checker on one responder memory: configure choice (base x power-of-two range x length x sequential/random data/address) -> generator run under free or deviation-bounded memory timing -> every subset of corrupted sequence positions (length <= 8) -> checker run; independent PRBS31/counter sequence model (self-checked against the real generator module), in-range writes/reads, exact error count over the final memory image, termination",
         "ranges <= 8 words, lengths <= 16 words, widths 8/32/64 + AXI variant; known byte-mask finding fingerprinted", "explicit-state BFS of the elaborated netlist + exhaustive fault-set enumeration"),
 "C15": (MC, "exhaustive fault enumeration through the real ECC port netlist: every (data word, flip set) of the grid (8-bit lanes: 256 words quick-subsampled/thorough-all x 1+13+78 flip sets; wider lanes: all flip sets x spanning data set) written, corrupted in memory and read back; plus BFS over all handshake timings for a small case list incl. partial byte enables; SECDED oracle written from the definition",
         "wider lanes rely on the GF(2)-affinity argument for data; CSR shims process-local", "exhaustive fault enumeration through the elaborated netlist + explicit-state BFS over handshake timing"),
 "C16": (EX, "exhaustive enumeration of every library module class x speedgrade x legal rate x controller-clock grid (and SPD images) through the real SDRAMModule constructor against an exact-rational oracle of the safety inequalities",
         "datasheet = the library class's numbers; clock grid 10-400 MHz (5 MHz quick, 1 MHz + boundary frequencies thorough)", "exhaustive input/configuration enumeration against an independent exact-rational oracle"),
 "C18": (MC, "DFI rate converter: complete reachable graphs over two phase-aligned clock domains (ratios 2/4/8, 1-2 PHY phases, all write/read delays in thorough) for all sequences of slow-cycle command patterns and fast-side read-data patterns, every output of every step compared with the documented slot mapping and latencies; DFI injector: exhaustive enumeration of every field value against several backgrounds plus the full product of 1-bit fields through the real netlist (transparency in hardware mode, no controller influence in software mode)",
         "injector widths shrunk, per-bit independence argued from structure; CSR field signals treated as free inputs; slow-cycle alphabet = NOP / one tagged command per slot / all slots", "explicit-state BFS of the elaborated two-clock netlist + exhaustive input enumeration of the injector netlist"),
 "C19": (MC, "complete reachable graphs of the real SDRAMPHYModel (SDR/DDR/LPDDR/DDR2/DDR3/DDR4 settings) in lock-step with an independent DRAM reference over all legal command sequences of K commands (ACT/PRE/PREA/RD/WR+masks, 2 banks x 2 rows x 2 columns) and their timing; read data and latency every cycle, final memory; plus exhaustive comparison of initial-content images for both address mappings",
         "bank arrays (Memory primitives) are played by the environment with Migen semantics and sparse contents (cut out of the netlist), K = 4 (5-6 thorough); rddata_valid required on at least one phase", BFS),
 "C20": (MC, "closed graphs of the real LPDDR4 adapters + CommandsPipeline (8 phases) and of the LPDDR5 sim PHY command path: every command type on every phase with all-0/all-1/walking operand sets, and every placement of up to 2 (thorough 3) commands per cycle over all pairs of consecutive cycles; serialized CS/CA stream decoded by an independent JEDEC truth-table decoder and compared slot by slot with the reference (suppression only for overlap with a sent command)",
         "LPDDR5: the sim PHY's command path (adapter + command buffer); two pipeline findings fingerprinted by history flags", BFS),
 "C17": (EX, "exhaustive enumeration of memtype x CL/CWL x nphases x module-derived timings x clock grid x electrical/RDIMM/clam-shell options through the real init generators, judged by independent JEDEC mode-register decoders (BL/CL/CWL equality, write-recovery bounds, field overlap/overflow, C vs Python rendering)",
         "decoders transcribed from the JEDEC standards; termination/drive options are outside the property's field list (noted, not judged); operating points below the JEDEC minimum clock are not judged for the WR upper bound", "exhaustive input/configuration enumeration against independent decoders"),
}
NA_REASON = "check not built yet (in progress, see DESIGN.md section 9)"

def main():
    ids = [json.loads(l)["id"] for l in open(os.path.join(V, "properties.jsonl"))]
    checks = []
    for pid in ids:
        if pid not in CLAIMS: continue
        cat, text, note, tech = CLAIMS[pid]
        checks.append({"property_id": pid, "quick_cmd": "/venv/bin/python run.py check %s --tier quick" % pid,
                       "thorough_cmd": "/venv/bin/python run.py check %s --tier thorough" % pid, "evidence_file": "evidence/%s.json" % pid,
                       "replay_cmd_template": "/venv/bin/python run.py replay {path}", "engine": "fhdl-mc",
                       "level_claimed": {"category": cat, "text": text, "design_ref": "DESIGN.md section 4 %s" % pid}, "level_note": note, "technique": tech})
    fixes = subprocess.check_output(["git", "-C", "/repo", "log", "--format=%h %s", "4ec40cd..HEAD"]).decode().strip().splitlines()
    m = {"version": 1, "setup_cmd": "true",
         "hooks": {"guard": "LITEDRAM_VERIF", "enable": "no source hooks are needed: checks elaborate the real classes from /repo's working tree and read internal signals by object reference", 
                   "baseline_off_cmd": "/venv/bin/python /verif/tools/baseline.py", "source_commits": [], "add_only": True},
         "engines": [{"name": "fhdl-mc", "path": "engine/", "serves_properties": sorted(CLAIMS), 
                      "kind_free_text": "explicit-state model checker over the elaborated Migen netlist: step compiler (engine/fhdl.py), BFS/liveness/replay (engine/explore.py), runner+evidence (engine/runner.py); enumeration checks share the runner"}],
         "checks": checks,
         "notes": "fix: commits in /repo (see known_findings.json): " + "; ".join(fixes),
         "not_applicable": [{"property_id": i, "reason": NA_REASON} for i in ids if i not in CLAIMS]}
    json.dump(m, open(os.path.join(V, "MANIFEST.json"), "w"), indent=1)
    print("claimed:", sorted(CLAIMS), "not claimed:", [i for i in ids if i not in CLAIMS])

main()
