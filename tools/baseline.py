#!/venv/bin/python
"""Runs the repository's pinned test suite (guard off) and compares with /root/.vp/BASELINE.json stable_pass.
usage: baseline.py [repo_dir]"""
import json, os, subprocess, sys, tempfile, xml.etree.ElementTree as ET
repo = sys.argv[1] if len(sys.argv) > 1 else "/repo"
b = json.load(open("/root/.vp/BASELINE.json"))
fd, xmlp = tempfile.mkstemp(suffix=".xml"); os.close(fd)
env = dict(os.environ); env.pop("LITEDRAM_VERIF", None)
cmd = b["cmd"].replace("cd /repo", "cd %s" % repo).replace("<file>", xmlp)
p = subprocess.run(cmd, shell=True, env=env, stdout=subprocess.PIPE, stderr=subprocess.STDOUT, text=True)
passed = set()
for tc in ET.parse(xmlp).getroot().iter("testcase"):
    if not any(ch.tag in ("failure", "error", "skipped") for ch in tc):
        passed.add("%s::%s" % (tc.get("classname"), tc.get("name")))
os.unlink(xmlp)
want = set(b["stable_pass"])
missing = sorted(want - passed)
print("baseline: %d/%d stable tests pass; %d other tests pass" % (len(want & passed), len(want), len(passed - want)))
for m in missing[:40]: print("  NOT PASSING:", m)
sys.exit(1 if missing else 0)
