#!/venv/bin/python
"""Prints a markdown summary of the evidence files (one row per property): what the last run of each check covered."""
import json, glob, os
V = os.path.dirname(os.path.dirname(os.path.abspath(__file__)))
print("| property | tier | configurations (complete / capped) | states | transitions or evaluations | traces replayed on Migen's evaluator | known findings met | wall s |")
print("|---|---|---|---|---|---|---|---|")
for f in sorted(glob.glob(os.path.join(V, "evidence", "C*.json"))):
    e = json.load(open(f)); c = e["coverage"]
    cfgs = c.get("configurations", [])
    comp = sum(1 for x in cfgs if x.get("complete")); cap = len(cfgs) - comp
    kf = ", ".join(sorted(c.get("known_finding_hits", {}))) or "-"
    print("| %s | %s | %d (%d / %d) | %d | %d | %s | %s | %.0f |" % (e["property_id"], e["tier"], len(cfgs), comp, cap, c.get("states", 0), max(c.get("transitions", 0), c.get("evaluations", 0)),
          c.get("traces_validated_against_impl", "-"), kf, e.get("wall_s", 0)))
