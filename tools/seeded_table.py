#!/venv/bin/python
"""Prints the markdown table of seeded changes and what catches them (from seeded/*/meta.json)."""
import json, glob, os
V = os.path.dirname(os.path.dirname(os.path.abspath(__file__)))
print("| seeded change | what it does | needs to manifest | caught by (quick tier unless noted) |")
print("|---|---|---|---|")
for f in sorted(glob.glob(os.path.join(V, "seeded", "*", "meta.json"))):
    m = json.load(open(f))
    runs = m.get("runs", [])
    det = {}
    for r in runs:
        for c, x in r["results"].items():
            if x["detected"]:
                import re; cfgs = sorted({re.search(r"violation in (.*?): [a-z0-9_]+\.", l).group(1) for l in x["lines"] if re.search(r"violation in (.*?): [a-z0-9_]+\.", l)})
                det.setdefault(c + ("" if r["tier"] == "quick" else " (thorough)"), set()).update(cfgs)
    caught = "; ".join("%s: %s" % (c, ", ".join("`%s`" % x for x in sorted(v)[:3])) for c, v in sorted(det.items())) or "NOT CAUGHT"
    print("| %s | %s | %s | %s |" % (m["id"], m.get("what", "").replace("|", "/"), m.get("needs", "").replace("|", "/"), caught))
