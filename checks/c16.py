"""C16 - cycle counts derived from datasheets are never on the unsafe side (litedram/modules.py).

Exhaustive enumeration: every concrete module class of litedram.modules x speedgrade x rate x controller clock
(x DDR4 fine refresh mode) is built with the REAL SDRAMModule constructor; the TimingSettings it hands to the
controller are compared, in exact rational arithmetic, with an oracle that reads the datasheet numbers straight from
the class attributes (never through SDRAMModule.get / ns_to_cycles / ck_to_cycles / margin).  SPD images are decoded
by this file from the JEDEC byte layout (never through DDR3SPDData / DDR4SPDData) and the module returned by
SDRAMModule.from_spd_data is judged against that decode.
"""
import os, csv, time, inspect
from fractions import Fraction as F
from engine import runner

PROP = "C16"
MODULE = "checks.c16"
ASSUME = [
    "the datasheet is what the library class states: technology_timings / speedgrade_timings entries (or legacy tXX / tXX_<speedgrade> attributes) read as "
    "scalar = nanoseconds, (ck, ns) tuple with None = not specified, dict = per fine-refresh mode; floats are read as their shortest decimal (13.75 = 55/4); "
    "whether the library transcribed the vendor datasheet correctly is not judged",
    "tRC = tRAS + tRP, component-wise (ns sum and ck sum), as the property states; no obligation when the module gives no tRAS",
    "least favourable phases: the first command on the last phase of its controller cycle, the second on the first phase of its cycle, i.e. a distance of "
    "N controller cycles only guarantees (N - 1 + 1/r) * T on the DRAM bus (T = controller period, rate 1:r)",
    "a relative tolerance of 1e-9 on the nanosecond comparisons absorbs the float representation of the clock period (1 Hz at 400 MHz is 2.5e-9, so Hz-level neighbours are still told apart)",
    "rates per memory type are those used by the PHYs/sim/tests of the repository: SDR 1:1 and 1:2 (HalfRateGENSDRPHY), DDR/LPDDR/DDR2 1:2, DDR3 1:2 and 1:4, DDR4 1:4, RPC 1:4, LPDDR4 1:8; "
    "fine refresh mode None on DDR4 means the normal mode 1x",
    "SPD: timing bytes per JEDEC SPD annex K (DDR3: 4,5,9-12,16-29,34-38) and annex L (DDR4: 4,5,12,17-45,117-125); clock-count minimums and tZQCS/tREFI are not SPD contents and are taken "
    "from the JEDEC device standards (DDR3: tWTR/tRRD/tCCD 4 nCK, tZQCS max(64 nCK, 80 ns); DDR4: tWTR_L/tRRD_L/tCCD 4 nCK, tZQCS 128 nCK / 80 ns, tFAW 16/20/28 nCK by page size; tREFI 64 ms/8192 divided by the fine refresh factor); "
    "the controller has one tRRD/tWTR/tCCD so the _L (same bank group) SPD values are the obligation; SPD tRCmin is checked as an additional nanosecond obligation on tRC",
    "controller clocks 10..400 MHz (quick: 5 MHz steps; thorough: 1 MHz steps plus every frequency at which a datasheet time is a whole number of DRAM clocks, with its integer-Hz neighbours)",
]
RULE = ("grid = module class x speedgrade key (and None) x rate x clock x fine refresh mode, all enumerated; per grid point the real constructor is called and each inequality "
        "cycles*T - (1-1/r)*T >= ns, cycles*r >= ck (tRP,tRCD,tWR,tWTR,tRFC,tFAW,tCCD,tRRD,tRAS,tRC,tZQCS) and tREFI_cycles*T <= tREFI_ns is one evaluation; "
        "distinct_nontrivial counts grid points that are distinct after resolving aliases (speedgrade None/'default'/the key it points to, DDR4 mode None/'1x') and that evaluated at least one inequality with a non-zero datasheet value")

MIN_TIMINGS = ("tRP", "tRCD", "tWR", "tWTR", "tRFC", "tFAW", "tCCD", "tRRD", "tRAS", "tRC", "tZQCS")
TECH = ("tREFI", "tWTR", "tCCD", "tRRD", "tZQCS")
SPEED = ("tRP", "tRCD", "tWR", "tRFC", "tFAW", "tRAS")
TOL = F(1, 10**9)
F_MIN, F_MAX = 10_000_000, 400_000_000

RATES = {"SDR": ("1:1", "1:2"), "DDR": ("1:2",), "LPDDR": ("1:2",), "DDR2": ("1:2",), "DDR3": ("1:2", "1:4"), "DDR4": ("1:4",),
         "RPC": ("1:4",), "LPDDR4": ("1:8",)}
RATES_UNKNOWN = ("1:1", "1:2", "1:4", "1:8")


# ------------------------------------------------------------------ reading the datasheet (independent of SDRAMModule.get)

def fr(x):
    if x is None: return None
    if isinstance(x, bool): raise TypeError("bool in datasheet")
    if isinstance(x, int): return F(x)
    if isinstance(x, F): return x
    return F(repr(float(x)))


def entry(raw, mode):
    """raw datasheet entry -> (ck, ns) of Fractions/None, or None when the module does not define the timing"""
    if raw is None: return None
    if isinstance(raw, dict):
        raw = raw["1x" if mode is None else mode]
        if raw is None: return None
    if isinstance(raw, (tuple, list)):
        ck, ns = raw
        return (fr(ck), fr(ns))
    return (None, fr(raw))


def lib_classes():
    import litedram.modules as M
    out = []
    for name, cls in vars(M).items():
        if not inspect.isclass(cls) or not issubclass(cls, M.SDRAMModule): continue
        if not all(hasattr(cls, a) for a in ("memtype", "nbanks", "nrows", "ncols")): continue
        new_style = hasattr(cls, "technology_timings") and hasattr(cls, "speedgrade_timings")
        legacy = all(hasattr(cls, a) for a in ("tREFI", "tRP", "tRCD", "tWR", "tRFC")) or any(a.startswith("tRP_") for a in dir(cls))
        if not (new_style or legacy): continue
        out.append((name, cls))
    return out


def speedgrades(cls):
    """every speedgrade key the class knows, plus None"""
    if hasattr(cls, "speedgrade_timings"):
        return [None] + list(cls.speedgrade_timings.keys())
    keys = set()
    for a in dir(cls):
        for x in SPEED:
            if a.startswith(x + "_"): keys.add(a[len(x) + 1:])
    return [None] + sorted(keys)


def raw_timing(cls, x, sg):
    if x in SPEED:
        if hasattr(cls, "speedgrade_timings"):
            return getattr(cls.speedgrade_timings["default" if sg is None else sg], x)
        return getattr(cls, x if sg is None else x + "_" + sg, None)
    if hasattr(cls, "technology_timings"):
        return getattr(cls.technology_timings, x)
    return getattr(cls, x, None)


def sg_identity(cls, sg):
    if hasattr(cls, "speedgrade_timings"):
        return id(cls.speedgrade_timings["default" if sg is None else sg])
    return sg


def add_opt(a, b):
    if a is None and b is None: return None
    return (a or 0) + (b or 0)


def datasheet(cls, sg, mode):
    """{X: (ck, ns)} for the minimum-type timings the class defines, 'tREFI': ns"""
    d = {}
    for x in TECH + SPEED:
        e = entry(raw_timing(cls, x, sg), mode)
        if e is not None: d[x] = e
    return finish_datasheet(d)


def finish_datasheet(d):
    if "tRP" in d and "tRAS" in d:
        d["tRC"] = (add_opt(d["tRP"][0], d["tRAS"][0]), add_opt(d["tRP"][1], d["tRAS"][1]))
    if "tREFI" in d:
        d["tREFI"] = d["tREFI"][1]
    return d


# ------------------------------------------------------------------ the oracle

def fstr(x):
    if x is None: return None
    if x.denominator == 1: return str(x.numerator)
    return "%s (=%.6f)" % (x, float(x))


def judge(ds, ts, r, f_hz, extra_ns=()):
    """ds: datasheet dict; ts: dict timing name -> cycles handed to the controller.  Returns (violations, evaluations, nontrivial).
    violation = (rule, detail dict, msg)"""
    T = F(10**9, f_hz)
    slack_cycles = 1 - F(1, r)
    out = []; ev = 0; nontrivial = False
    for x in MIN_TIMINGS:
        e = ds.get(x)
        if e is None: continue
        ck, ns = e
        cyc = ts.get(x)
        if cyc is None:
            if ck or ns:
                ev += 1
                out.append(("timing.missing.%s" % x, dict(timing=x, kind="missing"), "datasheet defines %s = (ck %s, ns %s) but the controller is handed None" % (x, fstr(ck), fstr(ns))))
            continue
        if ns is not None:
            ev += 1; nontrivial |= ns > 0
            covered = (cyc - slack_cycles) * T
            if covered < ns * (1 - TOL):
                out.append(("timing.unsafe.%s.ns" % x, dict(timing=x, kind="ns", cycles=cyc, datasheet_ns=fstr(ns), covered_ns=fstr(covered)),
                            "%s = %d controller cycles of %s ns at 1:%d guarantee only %s ns between least favourable phases < datasheet %s ns" % (x, cyc, fstr(T), r, fstr(covered), fstr(ns))))
        if ck is not None:
            ev += 1; nontrivial |= ck > 0
            if cyc * r < ck:
                out.append(("timing.unsafe.%s.ck" % x, dict(timing=x, kind="ck", cycles=cyc, datasheet_ck=fstr(ck), spanned_ck=cyc * r),
                            "%s = %d controller cycles span %d DRAM clocks at 1:%d < datasheet %s clocks" % (x, cyc, cyc * r, r, fstr(ck))))
    for (x, label, ns) in extra_ns:
        cyc = ts.get(x)
        if cyc is None or ns is None: continue
        ev += 1; nontrivial |= ns > 0
        covered = (cyc - slack_cycles) * T
        if covered < ns * (1 - TOL):
            out.append(("timing.unsafe.%s.ns" % x, dict(timing=x, kind="ns", against=label, cycles=cyc, datasheet_ns=fstr(ns), covered_ns=fstr(covered)),
                        "%s = %d controller cycles of %s ns at 1:%d guarantee only %s ns < %s %s ns" % (x, cyc, fstr(T), r, fstr(covered), label, fstr(ns))))
    if ds.get("tREFI") is not None:
        ns = ds["tREFI"]; cyc = ts.get("tREFI")
        ev += 1; nontrivial = True
        if cyc is None:
            out.append(("refresh.interval_missing", dict(timing="tREFI", kind="missing"), "no refresh interval handed to the controller"))
        elif cyc * T > ns * (1 + TOL):
            out.append(("refresh.interval_too_long", dict(timing="tREFI", kind="interval_too_long", cycles=cyc, datasheet_ns=fstr(ns), interval_ns=fstr(cyc * T)),
                        "tREFI = %d controller cycles of %s ns = %s ns > datasheet refresh interval %s ns" % (cyc, fstr(T), fstr(cyc * T), fstr(ns))))
    return out, ev, nontrivial


def settings_of(m):
    ts = m.timing_settings
    d = {x: getattr(ts, x, None) for x in MIN_TIMINGS + ("tREFI",)}
    for x, v in d.items():
        if v is not None and (isinstance(v, bool) or not isinstance(v, int)):
            if isinstance(v, float) and v == int(v): d[x] = int(v)
            else: raise TypeError("%s handed to the controller is not an integer: %r" % (x, v))
    return d


def ratio_of(rate):
    a, b = rate.split(":")
    if int(a) != 1: raise ValueError(rate)
    return int(b)


# ------------------------------------------------------------------ clocks

def quick_clocks():
    return list(range(F_MIN, F_MAX + 1, 5_000_000))


def boundary_clocks(ds, r):
    """integer-Hz frequencies around every f at which a datasheet time is a whole number of DRAM clocks (k*tCK = t, tCK = 1e9/(f*r) ns) -
    a superset of the points where ceil((t + margin)/T) steps - and at which the refresh interval is a whole number of controller cycles"""
    fs = set()
    def around(f):
        lo = f.numerator // f.denominator
        for x in ((lo - 1, lo, lo + 1) if f.denominator == 1 else (lo - 1, lo, lo + 1, lo + 2)):
            if F_MIN <= x <= F_MAX: fs.add(x)
    times = set()
    for x in MIN_TIMINGS:
        e = ds.get(x)
        if e is not None and e[1]: times.add((e[1], r))
    if ds.get("tREFI"): times.add((ds["tREFI"], 1))
    for (t, rr) in times:
        step = F(10**9) / (t * rr)            # Hz per DRAM clock
        k = max(1, (F(F_MIN) / step).__floor__())
        while True:
            f = k * step
            if f > F_MAX + 2: break
            around(f); k += 1
    return fs


def clocks_for(tier, ds, r):
    if tier == "quick": return quick_clocks()
    fs = set(range(F_MIN, F_MAX + 1, 1_000_000))
    fs |= boundary_clocks(ds, r)
    return sorted(fs)


# ------------------------------------------------------------------ known findings (file is read once per distinct fingerprint input)

class Known:
    def __init__(self, name):
        self.name = name; self.cache = {}; self.hits = {}; self.titles = {}

    def match(self, rule, ident, detail):
        key = (rule,) + ident
        if key not in self.cache:
            self.cache[key] = runner.known_filter(PROP, self.name, rule, detail)
        e = self.cache[key]
        if e is not None:
            self.hits[e["id"]] = self.hits.get(e["id"], 0) + 1
            self.titles[e["id"]] = e["title"]
        return e


class Tally:
    """per-job bookkeeping shared by the library and the SPD jobs"""
    def __init__(self, name):
        self.name = name; self.known = Known(name)
        self.ev = 0; self.configs = 0; self.distinct = set(); self.nontrivial = 0
        self.total = 0; self.by_rule = {}; self.first = {}; self.reported = []; self.samples = []
        self.configs_violating = 0; self.first_by_rule = {}

    def account(self, case, ident, stable, viols):
        """viols: list of (rule, detail, msg) of one grid point"""
        bad = False
        for rule, detail, msg in viols:
            det = dict(stable); det.update(detail)
            stable_det = dict(stable, timing=detail.get("timing"), kind=detail.get("kind"))
            if self.known.match(rule, ident, stable_det) is not None: continue
            bad = True
            self.total += 1
            self.by_rule[rule] = self.by_rule.get(rule, 0) + 1
            if rule not in self.first_by_rule:
                self.first_by_rule[rule] = dict(case=case, msg=msg)
                if len(self.reported) < 3:
                    self.reported.append(runner.enum_violation(PROP, self.name, MODULE, case, rule, msg, **det))
        if bad: self.configs_violating += 1

    def result(self, t0, **more):
        r = {"config": self.name, "evaluations": self.ev, "distinct_nontrivial": self.nontrivial, "grid_points": self.configs,
             "states": 0, "transitions": 0, "complete": True, "samples": self.samples[:3],
             "violations": self.reported, "violations_total": self.total, "violations_by_rule": self.by_rule,
             "grid_points_violating": self.configs_violating,
             "first_violation_by_rule": self.first_by_rule,
             "known_hits": self.known.hits, "known_entries": self.known.titles, "wall_s": round(time.time() - t0, 2)}
        r.update(more)
        return r


def sample_of(case, ds, ts, r, f_hz):
    T = F(10**9, f_hz)
    rows = {}
    for x in MIN_TIMINGS:
        if x in ds and ts.get(x) is not None:
            ck, ns = ds[x]
            rows[x] = {"datasheet_ck": fstr(ck), "datasheet_ns": fstr(ns), "cycles": ts[x], "guaranteed_ns": fstr((ts[x] - 1 + F(1, r)) * T), "spanned_ck": ts[x] * r}
    if ds.get("tREFI") is not None and ts.get("tREFI") is not None:
        rows["tREFI"] = {"datasheet_ns": fstr(ds["tREFI"]), "cycles": ts["tREFI"], "interval_ns": fstr(ts["tREFI"] * T)}
    return {"input": case, "period_ns": fstr(T), "timings": rows}


# ------------------------------------------------------------------ library job

def modes_of(cls):
    return (None, "1x", "2x", "4x") if cls.memtype == "DDR4" else (None,)


def build_lib(case):
    import litedram.modules as M
    cls = getattr(M, case["module"])
    kw = {}
    if case.get("fine_refresh_mode") is not None: kw["fine_refresh_mode"] = case["fine_refresh_mode"]
    m = cls(float(case["clk_hz"]), case["rate"], speedgrade=case["speedgrade"], **kw)
    return cls, m


def eval_lib(case, ds=None):
    r = ratio_of(case["rate"])
    try:
        cls, m = build_lib(case)
        ts = settings_of(m)
    except Exception as ex:           # the real constructor refuses a legal grid point: nothing is handed to the controller
        return ([("module.construct_error", dict(timing=None, kind="construct_error", error=type(ex).__name__),
                  "constructor raised %s: %s" % (type(ex).__name__, ex))], 1, False, ds or {}, {}, r)
    if ds is None: ds = datasheet(cls, case["speedgrade"], case.get("fine_refresh_mode"))
    v, ev, nt = judge(ds, ts, r, case["clk_hz"])
    return v, ev, nt, ds, ts, r


def lib_job(class_names, name, tier, seed):
    import litedram.modules as M
    t0 = time.time()
    tl = Tally(name)
    nsample = 0
    for cname in class_names:
        cls = getattr(M, cname)
        for sg in speedgrades(cls):
            for mode in modes_of(cls):
                ds = datasheet(cls, sg, mode)
                for rate in RATES.get(cls.memtype, RATES_UNKNOWN):
                    r = ratio_of(rate)
                    for f_hz in clocks_for(tier, ds, r):
                        case = {"kind": "library", "module": cname, "speedgrade": sg, "rate": rate, "clk_hz": f_hz, "fine_refresh_mode": mode}
                        v, ev, nt, _, ts, _ = eval_lib(case, ds)
                        tl.ev += ev; tl.configs += 1
                        key = (cname, sg_identity(cls, sg), rate, f_hz, "1x" if (mode is None and cls.memtype == "DDR4") else mode)
                        if nt and key not in tl.distinct:
                            tl.distinct.add(key); tl.nontrivial += 1
                        if v:
                            tl.account(case, (cname, sg, rate, mode), dict(source="library", part=cname, memtype=cls.memtype, speedgrade=sg, rate=rate, fine_refresh_mode=mode, clk_hz=f_hz), v)
                        if len(tl.samples) < 3 and (tl.configs % 997 == 1):
                            tl.samples.append(sample_of(case, ds, ts, r, f_hz))
    return tl.result(t0, classes=list(class_names))


# ------------------------------------------------------------------ SPD: independent decode

def spd_dir():
    return os.path.join(runner.REPO, "test", "spd_data")


def load_spd_csv(path):
    """Micron reference SPD csv (Byte Number, Byte Value); ranges are skipped (the timing bytes are listed one per row)"""
    data = [0] * 512
    with open(path) as f:
        for row in csv.DictReader(f):
            a = row["Byte Number"].strip()
            if "-" in a: continue
            data[int(a)] = int(row["Byte Value"].strip(), 16)
    return data


def load_spd(path):
    if path.endswith(".csv"): return load_spd_csv(path)
    data = []
    with open(path) as f:             # `spdread` hexdump of the LiteX BIOS
        for line in f:
            if line.startswith("0x"):
                data.extend(int(t, 16) for t in line.split()[1:17])
    return data


def s8(b):
    return b - 256 if b & 0x80 else b


DDR3_BINS = {800: F(5, 2), 1066: F(15, 8), 1333: F(3, 2), 1600: F(5, 4), 1866: F(15, 14), 2133: F(15, 16)}
DDR4_BINS = {1600: F(5, 4), 1866: F(15, 14), 2133: F(15, 16), 2400: F(5, 6), 2666: F(3, 4), 2933: F(15, 22), 3200: F(5, 8)}


def nearest_bin(bins, tck):
    return min(bins, key=lambda k: abs(bins[k] - tck))


def decode_spd(b):
    """-> dict(memtype, nbanks, nrows, ncols, speedgrade, timings{mode -> datasheet dict}, tRCmin, raw fields) from the JEDEC SPD layout"""
    o = {}
    if b[2] == 0x0B:
        o["memtype"] = "DDR3"
        o["nbanks"] = 1 << (3 + ((b[4] >> 4) & 7))
        o["nrows"] = 1 << (12 + ((b[5] >> 3) & 7))
        o["ncols"] = 1 << (9 + (b[5] & 7))
        ftb = F((b[9] >> 4) & 15, b[9] & 15) / 1000          # ps -> ns
        mtb = F(b[10], b[11])
        def t(m, f=0): return m * mtb + s8(f) * ftb
        tck = t(b[12], b[34])
        fields = {
            "tWR": t(b[17]), "tRCD": t(b[18], b[36]), "tRRD": t(b[19]), "tRP": t(b[20], b[37]),
            "tRAS": t(((b[21] & 15) << 8) | b[22]), "tRCmin": t(((b[21] >> 4) << 8) | b[23], b[38]),
            "tRFC": t((b[25] << 8) | b[24]), "tWTR": t(b[26]), "tFAW": t(((b[28] & 15) << 8) | b[29]),
        }
        o["speedgrade"] = str(nearest_bin(DDR3_BINS, tck)); o["tCKmin"] = tck
        d = {"tREFI": (None, F(64 * 10**6, 8192)), "tWTR": (F(4), fields["tWTR"]), "tCCD": (F(4), None), "tRRD": (F(4), fields["tRRD"]), "tZQCS": (F(64), F(80)),
             "tRP": (None, fields["tRP"]), "tRCD": (None, fields["tRCD"]), "tWR": (None, fields["tWR"]), "tRFC": (None, fields["tRFC"]),
             "tFAW": (None, fields["tFAW"]), "tRAS": (None, fields["tRAS"])}
        o["by_mode"] = {None: finish_datasheet(dict(d))}
        o["fields"] = {None: fields}
    elif b[2] == 0x0C:
        o["memtype"] = "DDR4"
        groups = 1 << ((b[4] >> 6) & 3); gbanks = 1 << (2 + ((b[4] >> 4) & 3))
        o["nbanks"] = groups * gbanks
        o["nrows"] = 1 << (12 + ((b[5] >> 3) & 7))
        o["ncols"] = 1 << (9 + (b[5] & 7))
        if (b[17] >> 2) & 3 != 0 or b[17] & 3 != 0: raise ValueError("reserved DDR4 timebase %#x" % b[17])
        mtb = F(125, 1000); ftb = F(1, 1000)
        def t(m, f=0): return m * mtb + s8(f) * ftb
        tck = t(b[18], b[125])
        width = 4 << (b[12] & 7)
        page_bytes = o["ncols"] * width // 8
        tfaw_ck = {512: 16, 1024: 20, 2048: 28}[page_bytes]
        common = {
            "tRCD": t(b[25], b[122]), "tRP": t(b[26], b[121]), "tRAS": t(((b[27] & 15) << 8) | b[28]),
            "tRCmin": t(((b[27] >> 4) << 8) | b[29], b[120]), "tFAW": t(((b[36] & 15) << 8) | b[37]),
            "tRRD": t(b[39], b[118]), "tRRD_S": t(b[38], b[119]), "tCCD": t(b[40], b[117]),
            "tWR": t(((b[41] & 15) << 8) | b[42]), "tWTR_S": t(((b[43] & 15) << 8) | b[44]), "tWTR": t(((b[43] >> 4) << 8) | b[45]),
        }
        trfc = {"1x": t((b[31] << 8) | b[30]), "2x": t((b[33] << 8) | b[32]), "4x": t((b[35] << 8) | b[34])}
        o["speedgrade"] = str(nearest_bin(DDR4_BINS, tck)); o["tCKmin"] = tck
        o["by_mode"] = {}; o["fields"] = {}
        for mode in (None, "1x", "2x", "4x"):
            k = "1x" if mode is None else mode
            fields = dict(common, tRFC=trfc[k])
            d = {"tREFI": (None, F(64 * 10**6, 8192) / int(k[0])), "tWTR": (F(4), fields["tWTR"]), "tCCD": (F(4), fields["tCCD"]), "tRRD": (F(4), fields["tRRD"]),
                 "tZQCS": (F(128), F(80)), "tRP": (None, fields["tRP"]), "tRCD": (None, fields["tRCD"]), "tWR": (None, fields["tWR"]),
                 "tRFC": (None, fields["tRFC"]), "tFAW": (F(tfaw_ck), fields["tFAW"]), "tRAS": (None, fields["tRAS"])}
            o["by_mode"][mode] = finish_datasheet(d)
            o["fields"][mode] = fields
    else:
        raise ValueError("SPD byte 2 = %#x: neither DDR3 nor DDR4" % b[2])
    return o


def close(impl, mine):
    """impl: float/int/None from litedram's decode; mine: Fraction/None"""
    if mine is None or impl is None:
        return (impl or 0) == 0 and (mine or 0) == 0
    return abs(fr(impl) - mine) <= TOL * max(1, abs(mine))


def spd_compare(m, dec, mode):
    """litedram's decode (class attributes of the module from from_spd_data) against ours -> list of (rule, detail, msg), evaluations"""
    out = []; ev = 0
    def mism(field, got, want):
        out.append(("spd.mismatch.%s" % field, dict(timing=field, kind="spd_mismatch", litedram=repr(got), expected=str(want)),
                    "SPD field %s: litedram decodes %r, the SPD bytes say %s" % (field, got, want)))
    for field in ("memtype", "nbanks", "nrows", "ncols"):
        ev += 1
        if getattr(m, field) != dec[field]: mism(field, getattr(m, field), dec[field])
    ev += 1
    if str(m.speedgrade) != dec["speedgrade"]: mism("speedgrade", m.speedgrade, dec["speedgrade"])
    ev += 1
    want_rate = "1:4"
    if m.rate != want_rate: mism("rate", m.rate, want_rate)
    ds = dec["by_mode"][mode]
    cls = type(m)
    for x in TECH + SPEED:
        for sg in (None, m.speedgrade):
            try:
                e = entry(raw_timing(cls, x, sg), mode)
            except Exception as ex:
                mism(x, "%s: %s" % (type(ex).__name__, ex), ds.get(x)); ev += 1; continue
            want = ds.get(x)
            if x == "tREFI": want = (None, want)
            got = e if e is not None else (None, None)
            ev += 2
            if not close(got[0], want[0]): mism(x + ".ck", got[0], fstr(want[0]))
            if not close(got[1], want[1]): mism(x + ".ns", got[1], fstr(want[1]))
    return out, ev


def eval_spd(case, cache=None):
    import litedram.modules as M
    path = os.path.join(spd_dir(), case["file"])
    if cache is not None and "data" in cache:
        data, dec = cache["data"], cache["dec"]
    else:
        data = load_spd(path); dec = decode_spd(data)
        if cache is not None: cache["data"] = data; cache["dec"] = dec
    mode = case.get("fine_refresh_mode")
    kw = {} if mode is None else {"fine_refresh_mode": mode}
    ds = dec["by_mode"][mode if dec["memtype"] == "DDR4" else None]
    try:
        m = M.SDRAMModule.from_spd_data(list(data), float(case["clk_hz"]), **kw)
        r = ratio_of(m.rate)
        ts = settings_of(m)
    except Exception as ex:           # litedram cannot turn a well-formed SPD image into a module
        return ([("spd.mismatch.decode_error", dict(timing=None, kind="spd_decode_error", error=type(ex).__name__),
                  "from_spd_data raised %s: %s (the SPD bytes decode to %s-%s)" % (type(ex).__name__, ex, dec["memtype"], dec["speedgrade"]))], 1, False, ds, {}, 4, dec)
    v1, ev1 = spd_compare(m, dec, mode if dec["memtype"] == "DDR4" else None)
    trc = dec["fields"][mode if dec["memtype"] == "DDR4" else None]["tRCmin"]
    v2, ev2, nt = judge(ds, ts, r, case["clk_hz"], extra_ns=(("tRC", "SPD tRCmin", trc),))
    return v1 + v2, ev1 + ev2, nt, ds, ts, r, dec


def spd_job(fname, name, tier, seed):
    t0 = time.time()
    tl = Tally(name)
    cache = {}
    data = load_spd(os.path.join(spd_dir(), fname)); dec = decode_spd(data)
    cache["data"] = data; cache["dec"] = dec
    modes = (None, "1x", "2x", "4x") if dec["memtype"] == "DDR4" else (None,)
    for mode in modes:
        ds = dec["by_mode"][mode]
        for f_hz in clocks_for(tier, ds, 4):
            case = {"kind": "spd", "file": fname, "clk_hz": f_hz, "fine_refresh_mode": mode}
            v, ev, nt, _, ts, r, _ = eval_spd(case, cache)
            tl.ev += ev; tl.configs += 1
            key = (fname, f_hz, "1x" if (mode is None and dec["memtype"] == "DDR4") else mode)
            if nt and key not in tl.distinct:
                tl.distinct.add(key); tl.nontrivial += 1
            if v:
                tl.account(case, (fname, mode), dict(source="spd", part=fname, memtype=dec["memtype"], speedgrade=dec["speedgrade"], rate="1:%d" % r, fine_refresh_mode=mode, clk_hz=f_hz), v)
            if len(tl.samples) < 3 and (tl.configs % 97 == 1):
                s = sample_of(case, ds, ts, r, f_hz)
                s["spd_decode"] = {k: fstr(x) for k, x in dec["fields"][mode].items()}
                tl.samples.append(s)
    return tl.result(t0, spd_file=fname, memtype=dec["memtype"], speedgrade=dec["speedgrade"])


# ------------------------------------------------------------------ entry points

def replay_case(case):
    """re-evaluates one stored grid point on the current tree -> [(rule, msg)] still violated"""
    case = dict(case)
    case["clk_hz"] = int(case["clk_hz"])
    if case.get("kind") == "spd":
        v = eval_spd(case)[0]
    else:
        v = eval_lib(case)[0]
    return [(rule, msg) for rule, _, msg in v]


def weight(cls):
    return len(speedgrades(cls)) * len(RATES.get(cls.memtype, RATES_UNKNOWN)) * len(modes_of(cls))


def chunks(classes, n):
    """greedy balance of the classes over n jobs by number of (speedgrade, rate, mode) combinations"""
    bins = [[0, []] for _ in range(n)]
    for name, cls in sorted(classes, key=lambda nc: (-weight(nc[1]), nc[0])):
        b = min(bins, key=lambda b: b[0])
        b[0] += weight(cls); b[1].append(name)
    return [sorted(b[1]) for b in bins if b[1]]


def run(tier, seed, only=None):
    t0 = time.time()
    runner.setup_path()
    classes = lib_classes()
    jobs = []
    for i, names in enumerate(chunks(classes, 24)):
        name = "lib%02d-%s" % (i, "+".join(names))
        if len(name) > 60: name = name[:57] + "..."
        if only and only not in name: continue
        jobs.append((lib_job, (tuple(names),), dict(name=name, tier=tier, seed=seed)))
    files = sorted(f for f in os.listdir(spd_dir()) if not f.startswith(".")) if os.path.isdir(spd_dir()) else []
    for f in files:
        name = "spd-%s" % os.path.splitext(f)[0]
        if only and only not in name: continue
        jobs.append((spd_job, (f,), dict(name=name, tier=tier, seed=seed)))
    res = runner.run_jobs(jobs)
    by_rule = {}; total = 0; points = 0; bad_points = 0; examples = {}
    for status, r in res:
        if status != "ok": continue
        total += r["violations_total"]; points += r["grid_points"]; bad_points += r["grid_points_violating"]
        for k, n in r["violations_by_rule"].items(): by_rule[k] = by_rule.get(k, 0) + n
        for k, ex in r["first_violation_by_rule"].items():
            examples.setdefault(k, []).append(ex)
    extra = {"module_classes": len(classes), "memtypes": sorted({c.memtype for _, c in classes}), "spd_images": len(files),
             "grid_points": points, "grid_points_violating": bad_points, "violated_inequalities_total": total,
             "violated_inequalities_by_rule": dict(sorted(by_rule.items())),
             "example_inputs_by_rule": {k: v[:3] for k, v in sorted(examples.items())}}
    rc = runner.finish(PROP, tier, seed, "exploration", res, t0, ASSUME, RULE, extra=extra,
                       technique="exhaustive enumeration of module x speedgrade x rate x clock grid against exact-rational oracle")
    print("C16 grid: %d classes, %d SPD images, %d grid points (%d with a violated inequality), violated inequalities by rule: %s" % (
        len(classes), len(files), points, bad_points, dict(sorted(by_rule.items())) or "none"))
    return rc
