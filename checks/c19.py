"""C19 - bundled DRAM simulation model (litedram/phy/model.py) agrees with an independent DRAM reference.

DUT: the real SDRAMPHYModel; its bank arrays (Memory primitives of 4096+ words) are cut out of the netlist and played by the
environment with Migen's Memory semantics and sparse contents (engine.fhdl.cut_memories) - every address, data, mask and enable the
model computes is still explored.  Driver: the reference's own legal-command generator (state-legal + conservative timing), so only
traces inside the property's 'legal' quantifier are produced (under-coverage possible, false alarms not)."""
import time, struct
from engine import runner, fhdl
from engine.explore import Harness, Violation

PROP = "C19"
ASSUME = [
    "legal traces only: ACT to a precharged bank >= tRP after its precharge, RD/WR to the open row >= tRCD after ACT, PRE >= tRAS after ACT and after write recovery, RD after a WR only once its data has been transferred; one command per controller cycle "
    "(RD on the PHY read phase, WR on the write phase, ACT/PRE on another phase); write data is presented write_latency cycles after the WR command (PhySettings contract)",
    "alphabet: ACT/PRE/PREA/RD/WR(+byte masks) x 2 banks x 2 rows x 2 burst-aligned columns, K commands; data words carry per-lane distinct tags",
    "the Memory primitive (bank array) is played by the environment with Migen's semantics (asynchronous read, byte-granular synchronous write), sparse contents; this replaces the primitive only",
    "initial-contents layout: every 32-bit word index of an image covering the first rows of every bank, both address mappings, judged against an independently written address decomposition",
]
RULE = ("BFS over all legal command sequences of K commands and their timing; every cycle: rddata_valid/rddata of every phase == reference pipeline (data read_latency cycles after RD, contents in command order); "
        "at quiescence: model memory == reference memory; init images: every word of the image found at the (bank,row,column,lane) the mapping prescribes")

EV_OUT = 1; EV_PROG = 2


def make_module(memtype, rowbits=11, colbits=4, bankbits=1, clk=100e6):
    import litedram.modules as lm
    rate = {"SDR": "1:1", "DDR": "1:2", "LPDDR": "1:2", "DDR2": "1:2", "DDR3": "1:4", "DDR4": "1:4"}[memtype]
    tech = dict(tREFI=64e6 / 8192, tWTR=(2, None), tCCD=(1, None), tRRD=(None, 10), tZQCS=None)
    speed = dict(tRP=15, tRCD=15, tWR=15, tRFC=(None, 60), tFAW=(None, 40), tRAS=35)
    if memtype == "DDR4":       # DDR4 entries are keyed by the fine refresh mode
        tech["tREFI"] = {"1x": 64e6 / 8192, "2x": 64e6 / 8192 / 2, "4x": 64e6 / 8192 / 4}
        speed["tRFC"] = {"1x": (None, 60), "2x": (None, 40), "4x": (None, 30)}
    cls = type("VerifModelModule", (lm.SDRAMModule,), dict(memtype=memtype, nbanks=1 << bankbits, nrows=1 << rowbits, ncols=1 << colbits,
               technology_timings=lm._TechnologyTimings(**tech), speedgrade_timings={"default": lm._SpeedgradeTimings(**speed)}))
    return cls(clk, rate)


class ModelHarness(Harness):
    TRP, TRCD, TRAS = 2, 2, 3

    def __init__(self, memtype="SDR", K=4, databits=8, rows=(0, 5), masks=True, we_granularity=8, dual=False, autopre=False):
        from litedram.phy.model import SDRAMPHYModel
        self.memtype = memtype; self.K = K
        module = make_module(memtype)
        self.colbits = 4; self.ncols = 16; self.nb = 2
        dut = SDRAMPHYModel(module, data_width=databits, clk_freq=100e6, we_granularity=we_granularity)
        self.dut = dut
        st = dut.settings
        self.nph = st.nphases; self.RL = st.read_latency; self.WL = st.write_latency
        self.rdphase = st.rdphase if isinstance(st.rdphase, int) else 0; self.wrphase = st.wrphase if isinstance(st.wrphase, int) else 0
        self.cmdphase = [p for p in range(self.nph) if p not in (self.rdphase, self.wrphase)][:1] or [0]
        self.cmdphase = self.cmdphase[0]
        frag, mems = fhdl.cut_memories(dut)
        assert len(mems) == self.nb
        self.mems = mems
        phases = dut.dfi.phases
        self.dbw = len(phases[0].wrdata); self.W = self.dbw * self.nph; self.nbytes = self.W // 8
        reads = []
        for ph in phases: reads += [ph.rddata, ph.rddata_valid]
        for m in mems:
            for p in m["ports"]: reads += [x for x in (p["adr"], p["dat_w"], p["we"]) if x is not None]
        self.c = c = fhdl.compile_harness(frag, reads)
        ii = c.ii
        self.i_ph = [{f: ii[getattr(ph, f)] for f in ("address", "bank", "cs_n", "ras_n", "cas_n", "we_n", "wrdata", "wrdata_mask", "wrdata_en", "rddata_en") if getattr(ph, f) in ii} for ph in phases]
        self.r_rd = [(c.rd(ph.rddata), c.rd(ph.rddata_valid)) for ph in phases]
        # memory ports: which bank is which memory?  BankModel order == creation order == duid order of the memories
        self.mp = []
        for m in mems:
            wp = [p for p in m["ports"] if p["we"] is not None][0]; rp = [p for p in m["ports"] if p["we"] is None][0]
            assert rp["async_read"]
            self.mp.append(dict(i_dat_r=ii.get(rp["dat_r"]), r_radr=c.rd(rp["adr"]), r_wadr=c.rd(wp["adr"]), r_wdat=c.rd(wp["dat_w"]), r_we=c.rd(wp["we"]),
                                gran=wp["granularity"], init=m["init"], depth=m["depth"]))
        self.base = list(c.base_inputs)
        for d in self.i_ph:
            self.base[d["cs_n"]] = 1; self.base[d["ras_n"]] = 1; self.base[d["cas_n"]] = 1; self.base[d["we_n"]] = 1
        # burst geometry (written independently of model.py): a DFI word covers `cpw` consecutive columns
        self.cpw = {"SDR": 1, "DDR": 2, "LPDDR": 2, "DDR2": 2, "DDR3": 2, "DDR4": 2}[memtype] * self.nph
        self.rows = tuple(rows); self.cols = (0, self.cpw)
        full = (1 << self.nbytes) - 1
        self.maskset = (0, 1, full & ~1) if masks else (0,)
        self.cov = {}
        self.no_selfcheck = False
        # dual: a row command (ACT/PRE on the command phase) and a column command (RD/WR on its own phase, other bank) in the same controller
        # cycle, as LiteDRAM's multiplexer issues them on multi-phase PHYs; autopre: RD/WR with A10 set (auto-precharge), the controller default
        self.dual = dual and self.nph >= 2 and self.cmdphase not in (self.rdphase, self.wrphase)
        self.autopre = autopre

    def word(self, tag):
        w = 0
        for l in range(self.nbytes): w |= (((tag & 3) << 6) | ((l + 1) & 0x3f)) << (8 * l)
        return w

    # env: (budget, banks: tuple of (row or -1, age_act, age_pre, age_wr), wpipe: tuple of (due, bank, row, col, tag), rpipe: tuple of (due, data),
    #       refmem: sorted tuple ((bank,row,colword), word), dutmem: tuple per bank of sorted tuple (addr, word))
    def env0(self):
        return (self.K, tuple((-1, 9, 9, 9) for _ in range(self.nb)), (), (), (), tuple(() for _ in range(self.nb)))

    def menu(self, S, E):
        bud, banks, wpipe, rpipe, refmem, dutmem = E
        out = [("nop",)]
        if bud <= 0: return out
        rowops = []; colops = []
        for b, (row, a_act, a_pre, a_wr) in enumerate(banks):
            if row == -1:
                if a_pre >= self.TRP:
                    for r in self.rows: rowops.append(("act", b, r))
            else:
                if a_act >= self.TRCD:
                    for col in self.cols:
                        if not wpipe:
                            colops.append(("rd", b, col))       # reads wait until write data in flight has been transferred
                            if self.autopre and a_act >= self.TRAS and a_wr >= self.WL + 2: colops.append(("rda", b, col))
                        for tag in (1, 2):
                            for m in (self.maskset if tag == 1 else self.maskset[:1]):
                                colops.append(("wr", b, col, tag, m))
                        if self.autopre: colops.append(("wra", b, col, 2, 0))
                if a_act >= self.TRAS and a_wr >= self.WL + 2 and not any(x[1] == b for x in wpipe):
                    rowops.append(("pre", b))
        out += rowops + colops
        if all(row == -1 or (a_act >= self.TRAS and a_wr >= self.WL + 2) for (row, a_act, a_pre, a_wr) in banks) and not wpipe and any(r[0] != -1 for r in banks):
            out.append(("prea",))
        if self.dual and bud >= 2:
            for ro in rowops:
                for co in colops:
                    if ro[1] != co[1]: out.append(("dual", ro, co))
            # two row commands of different kinds in one controller cycle on different phases (PRE of one bank, ACT of another): a legal DFI trace
            # (two ACTs in one cycle would violate tRRD on these devices and are not driven)
            if self.nph >= 2:
                for ro in rowops:
                    for r2 in rowops:
                        if ro[0] == "pre" and r2[0] == "act" and ro[1] != r2[1]: out.append(("dual2", ro, r2))
                        if ro[0] == "pre" and r2[0] == "pre" and ro[1] < r2[1]: out.append(("dual2", ro, r2))      # two banks precharged in one cycle
        return out

    def describe(self, ch):
        return list(ch)

    def _mem_get(self, mem, a, init):
        for k, v in mem:
            if k == a: return v
        return init[a] if a < len(init) else 0

    def drive(self, S, E, ch):
        bud, banks, wpipe, rpipe, refmem, dutmem = E
        I = list(self.base)
        op = ch[0]
        cmds = [] if op == "nop" else ([ch[1], ch[2]] if op in ("dual", "dual2") else [ch])
        wrc = None
        for n_cm, cm in enumerate(cmds):
            o = cm[0]
            if o == "act": ph, b, a, ras, cas, we = self.cmdphase, cm[1], cm[2], 0, 1, 1
            elif o == "pre": ph, b, a, ras, cas, we = self.cmdphase, cm[1], 0, 0, 1, 0
            elif o == "prea": ph, b, a, ras, cas, we = self.cmdphase, 0, 1 << 10, 0, 1, 0
            elif o in ("rd", "rda"): ph, b, a, ras, cas, we = self.rdphase, cm[1], cm[2] | ((1 << 10) if o == "rda" else 0), 1, 0, 1
            else: ph, b, a, ras, cas, we = self.wrphase, cm[1], cm[2] | ((1 << 10) if o == "wra" else 0), 1, 0, 0; wrc = cm
            if op == "dual2" and n_cm == 1: ph = (self.cmdphase + 1) % self.nph      # second row command on the next phase
            d = self.i_ph[ph]
            I[d["cs_n"]] = 0; I[d["ras_n"]] = ras; I[d["cas_n"]] = cas; I[d["we_n"]] = we; I[d["bank"]] = b; I[d["address"]] = a
            if o in ("rd", "rda") and "rddata_en" in d: I[d["rddata_en"]] = 1
            if o in ("wr", "wra") and "wrdata_en" in d: I[d["wrdata_en"]] = 1
        # write data due this cycle (write_latency cycles after its command)
        due = [x for x in wpipe if x[0] == 0]
        if wrc is not None and self.WL == 0: due = due + [(0, wrc[1], None, wrc[2], wrc[3], wrc[4])]
        if due:
            tag, mask = due[0][4], due[0][5]
            w = self.word(tag)
            for p in range(self.nph):
                I[self.i_ph[p]["wrdata"]] = (w >> (p * self.dbw)) & ((1 << self.dbw) - 1)
                I[self.i_ph[p]["wrdata_mask"]] = (mask >> (p * self.dbw // 8)) & ((1 << (self.dbw // 8)) - 1)
        # asynchronous read ports: address is a function of this cycle's inputs; close the loop through the environment
        I0 = tuple(I)
        O0 = self.c.peek(S, I0)
        for b, mp in enumerate(self.mp):
            if mp["i_dat_r"] is not None:
                adr = mp["r_radr"](S, I0, O0)
                I[mp["i_dat_r"]] = self._mem_get(dutmem[b], adr, mp["init"])
        return tuple(I)

    def observe(self, S, E, ch, I, O, S2):
        bud, banks, wpipe, rpipe, refmem, dutmem = E
        op = ch[0]
        banks = [list(x) for x in banks]
        ref = dict(refmem)
        # ---- the environment plays the bank arrays: synchronous byte-granular write
        dm = [dict(m) for m in dutmem]
        for b, mp in enumerate(self.mp):
            we = mp["r_we"](S, I, O)
            if we:
                adr = mp["r_wadr"](S, I, O); dat = mp["r_wdat"](S, I, O)
                if adr >= mp["depth"]: raise Violation("model.memory_address_out_of_range", "bank %d array written at %d (depth %d)" % (b, adr, mp["depth"]))
                old = self._mem_get(dutmem[b], adr, mp["init"])
                if mp["gran"]:
                    g = mp["gran"]; new = old
                    for k in range(self.W // g):
                        if (we >> k) & 1:
                            m = ((1 << g) - 1) << (k * g); new = (new & ~m) | (dat & m)
                else: new = dat
                dm[b][adr] = new
        # ---- read data pipeline of the reference
        if rpipe and rpipe[0][0] == 0:
            exp = rpipe[0][1]; rpipe = rpipe[1:]
            # the data of all phases form the burst; the valid flag is required on at least one phase (the model raises it on
            # phase 0 only - the statement speaks of the data and its latency, so the least demanding reading is used)
            got = 0; valid = 0
            for p, (rd, rv) in enumerate(self.r_rd):
                got |= rd(S, I, O) << (p * self.dbw)
                if rv(S, I, O): valid = 1
            if not valid: self.report("model.read_data_missing", "no rddata_valid %d cycles after the RD command" % self.RL, kind="valid")
            elif got != exp: self.report("model.read_data_mismatch", "model returned %x, reference %x" % (got, exp), kind="data")
            self.cov["reads_compared"] = self.cov.get("reads_compared", 0) + 1
        else:
            for p, (rd, rv) in enumerate(self.r_rd):
                if rv(S, I, O):
                    self.report("model.unexpected_read_data", "rddata_valid on phase %d without a read %d cycles earlier" % (p, self.RL), kind="valid"); break
        rpipe = tuple((d - 1, x) for d, x in rpipe)
        # ---- write data landing in the reference (sampled from what the environment itself put on the bus this cycle)
        nw = []
        for (due, b, row, col, tag, mask) in wpipe:
            if due == 0:
                key = (b, row, col // self.cpw)
                old = ref.get(key, self._init_word(key)); w = self.word(tag)
                for l in range(self.nbytes):
                    if not (mask >> l) & 1: old = (old & ~(0xff << (8 * l))) | (w & (0xff << (8 * l)))
                ref[key] = old
            else: nw.append((due - 1, b, row, col, tag, mask))
        wpipe = tuple(nw)
        # ---- command effects
        for bk in banks:
            for k in (1, 2, 3):
                if bk[k] < 9: bk[k] += 1
        cmds = [] if op == "nop" else ([ch[2], ch[1]] if op in ("dual", "dual2") else [ch])     # column command first: it refers to the state before the row command
        bud -= len(cmds)
        for cm in cmds:
            o = cm[0]
            if o == "act":
                banks[cm[1]][0] = cm[2]; banks[cm[1]][1] = 0
            elif o == "pre":
                banks[cm[1]][0] = -1; banks[cm[1]][2] = 0
            elif o == "prea":
                for bk in banks:
                    if bk[0] != -1: bk[0] = -1; bk[2] = 0
            elif o in ("rd", "rda"):
                b, col = cm[1], cm[2]
                key = (b, banks[b][0], col // self.cpw)
                rpipe = rpipe + ((self.RL - 1, ref.get(key, self._init_word(key))),) if self.RL > 0 else rpipe
                self.cov["RD"] = self.cov.get("RD", 0) + 1
                if o == "rda":
                    banks[b][0] = -1; banks[b][2] = -2          # internal precharge: the bank may be activated again tRP + 2 cycles later (conservative)
                    self.cov["RDA"] = self.cov.get("RDA", 0) + 1
            else:
                b, col, tag, mask = cm[1], cm[2], cm[3], cm[4]
                banks[b][3] = 0
                if self.WL == 0:
                    key = (b, banks[b][0], col // self.cpw)
                    old = ref.get(key, self._init_word(key)); w = self.word(tag)
                    for l in range(self.nbytes):
                        if not (mask >> l) & 1: old = (old & ~(0xff << (8 * l))) | (w & (0xff << (8 * l)))
                    ref[key] = old
                else:
                    wpipe = wpipe + ((self.WL - 1, b, banks[b][0], col, tag, mask),)
                self.cov["WR"] = self.cov.get("WR", 0) + 1
                if o == "wra":
                    banks[b][0] = -1; banks[b][2] = -(self.WL + 3)   # internal precharge after write recovery (conservative)
                    self.cov["WRA"] = self.cov.get("WRA", 0) + 1
            if op in ("dual", "dual2"): self.cov[op] = self.cov.get(op, 0) + 1
        # ---- final memory comparison at quiescence
        if bud <= 0 and not wpipe and not rpipe:
            want = {}
            for (b, row, cw), w in ref.items():
                want[(b, (row * self.ncols + cw * self.cpw) // self.cpw)] = w
            have = {}
            for b in range(self.nb):
                for a, w in dm[b].items(): have[(b, a)] = w
            for k in set(want) | set(have):
                wv = want.get(k); hv = have.get(k)
                if wv is None: wv = self.mp[k[0]]["init"][k[1]] if k[1] < len(self.mp[k[0]]["init"]) else 0
                if hv is None: hv = self.mp[k[0]]["init"][k[1]] if k[1] < len(self.mp[k[0]]["init"]) else 0
                if wv != hv:
                    self.report("model.final_memory_mismatch", "bank %d word %d: model holds %x, reference %x" % (k[0], k[1], hv, wv), kind="memory"); break
            self.cov["final_compared"] = self.cov.get("final_compared", 0) + 1
        E2 = (bud, tuple(tuple(x) for x in banks), wpipe, rpipe, tuple(sorted(ref.items())), tuple(tuple(sorted(m.items())) for m in dm))
        return E2, 0

    def _init_word(self, key):
        return 0

    def coverage(self): return dict(self.cov)


def build(**kw):
    kw["rows"] = tuple(kw.get("rows", (0, 5)))
    return ModelHarness(**kw)


# ------------------------------------------------------------------------------------------------ init image layout (enumeration)

def init_job(name="", memtype="SDR", mapping="ROW_BANK_COL", databits=8, nwords=None, seed=0, stride=1):
    import time as _t
    t0 = _t.time()
    from litedram.phy.model import SDRAMPHYModel
    module = make_module(memtype)
    nbanks, nrows, ncols = 2, 2048, 16
    st = None
    bytes_per_col = databits // 8
    # image: covers the first two rows of every bank (ROW_BANK_COL) resp. the first rows of bank 0 and -- by its length -- nothing of bank 1 unless long
    row_bytes = ncols * bytes_per_col
    nw = nwords or (2 * nbanks * row_bytes) // 4 + 3
    init = [(0x01000193 * (i + 1) + 0x811C9DC5) & 0xffffffff for i in range(nw)]
    dut = SDRAMPHYModel(module, data_width=databits, clk_freq=100e6, init=list(init), address_mapping=mapping)
    nph = dut.settings.nphases
    W = dut.settings.dfi_databits * nph; wbytes = W // 8
    frag, mems = fhdl.cut_memories(dut)
    cpw = {"SDR": 1, "DDR": 2, "LPDDR": 2, "DDR2": 2, "DDR3": 2, "DDR4": 2}[memtype] * nph
    assert cpw * bytes_per_col == wbytes, (cpw, bytes_per_col, wbytes)
    image = b"".join(struct.pack("<I", w) for w in init)
    evals = 0; viols = []; samples = []
    for i in range(0, len(image), stride):
        ci = i // bytes_per_col; lane_in_col = i % bytes_per_col
        col = ci % ncols
        if mapping == "ROW_BANK_COL":
            bank = (ci // ncols) % nbanks; row = ci // (ncols * nbanks)
        else:
            row = (ci // ncols) % nrows; bank = ci // (ncols * nrows)
        if bank >= nbanks or row >= nrows: continue
        word = (row * ncols + col) // cpw; lane = ((row * ncols + col) % cpw) * bytes_per_col + lane_in_col
        mi = mems[bank]["init"]
        got = (mi[word] >> (8 * lane)) & 0xff if word < len(mi) else None
        evals += 1
        if len(samples) < 3: samples.append(dict(byte=i, bank=bank, row=row, col=col, model_word=word, lane=lane, value=image[i]))
        if got != image[i]:
            viols.append(("model.init_layout", "image byte %d (value %02x) belongs to bank %d row %d column %d = bank array word %d lane %d, model holds %s there" % (
                i, image[i], bank, row, col, word, lane, "nothing" if got is None else "%02x" % got), dict(mapping=mapping, memtype=memtype)))
            break
    out = dict(config=name, evaluations=evals, distinct_nontrivial=evals, states=0, transitions=0, complete=True, samples=samples, violations=[], known_hits={}, known_entries={},
               wall_s=round(_t.time() - t0, 2))
    for rule, msg, det in viols[:1]:
        e = runner.known_filter(PROP, name, rule, det)
        if e is not None:
            out["known_hits"][e["id"]] = out["known_hits"].get(e["id"], 0) + 1; out["known_entries"][e["id"]] = e["title"]
        else:
            out["violations"].append(runner.enum_violation(PROP, name, "checks.c19", dict(memtype=memtype, mapping=mapping, databits=databits, nwords=nwords, stride=stride), rule, msg, **det))
    return out


def replay_case(case):
    r = init_job(name="replay", memtype=case["memtype"], mapping=case["mapping"], databits=case["databits"], nwords=case.get("nwords"), stride=case.get("stride", 1))
    return [(v["rule"], v["msg"]) for v in r["violations"]]


def configs(tier):
    mc = []; en = []
    if tier == "quick":
        for mt, K in (("SDR", 4), ("DDR2", 4), ("DDR3", 4)):
            mc.append(("trace-%s-K%d" % (mt, K), dict(memtype=mt, K=K)))
        mc.append(("trace-DDR4-K4-nomask", dict(memtype="DDR4", K=4, masks=False)))          # write latency 2: two writes to one bank in flight
        mc.append(("trace-DDR3-K4-nogran", dict(memtype="DDR3", K=4, we_granularity=0, masks=False)))
        # the controller's real issue pattern on multi-phase PHYs: row + column command in one cycle, auto-precharge, a row with A10 set
        mc.append(("trace-DDR3-K4-dual-autopre", dict(memtype="DDR3", K=4, dual=True, autopre=True, masks=False, rows=(0, 1029))))
        mc.append(("trace-DDR2-K4-dual-autopre", dict(memtype="DDR2", K=4, dual=True, autopre=True, masks=False, rows=(0, 1029))))
        mc.append(("trace-SDR-K4-autopre", dict(memtype="SDR", K=4, autopre=True, masks=False, rows=(0, 1029))))
    else:
        for mt in ("SDR", "DDR", "LPDDR", "DDR2", "DDR3", "DDR4"):
            mc.append(("trace-%s-K5" % mt, dict(memtype=mt, K=5)))
        for mt in ("DDR", "LPDDR", "DDR2", "DDR3", "DDR4"):
            mc.append(("trace-%s-K5-dual-autopre" % mt, dict(memtype=mt, K=5, dual=True, autopre=True, masks=False, rows=(0, 1029))))
        mc.append(("trace-SDR-K5-autopre", dict(memtype="SDR", K=5, autopre=True, masks=False, rows=(0, 1029))))
        mc.append(("trace-SDR-K6-nomask", dict(memtype="SDR", K=6, masks=False)))
        mc.append(("trace-DDR3-K5-x16", dict(memtype="DDR3", K=5, databits=16, masks=False)))
    for mt in (("SDR", "DDR3") if tier == "quick" else ("SDR", "DDR", "DDR2", "DDR3", "DDR4")):
        for mp in ("ROW_BANK_COL", "BANK_ROW_COL"):
            for db in ((8, 16) if tier == "quick" else (8, 16, 32)):
                en.append(("init-%s-%s-x%d" % (mt, mp, db), dict(memtype=mt, mapping=mp, databits=db)))
    # an image long enough to reach past the first `ncols` rows of bank 0 and into bank 1 in the BANK_ROW_COL mapping (sampled every 7th byte)
    for mt in (("SDR", "DDR3") if tier == "quick" else ("SDR", "DDR2", "DDR3", "DDR4")):
        en.append(("init-%s-BANK_ROW_COL-x8-long" % mt, dict(memtype=mt, mapping="BANK_ROW_COL", databits=8, nwords=(2048 * 16 + 40 * 16) // 4, stride=7)))
        en.append(("init-%s-ROW_BANK_COL-x16-long" % mt, dict(memtype=mt, mapping="ROW_BANK_COL", databits=16, nwords=(40 * 2 * 16 * 2) // 4, stride=3)))
    return mc, en


def run(tier, seed, only=None):
    t0 = time.time()
    mc, en = configs(tier)
    jobs = []
    for name, kw in mc:
        if only and only not in name: continue
        jobs.append((runner.mc_run, (PROP, "checks.c19", "build", kw), dict(name=name, tier=tier, seed=seed, max_states=3_000_000)))
    for name, kw in en:
        if only and only not in name: continue
        jobs.append((init_job, (), dict(name=name, seed=seed, **kw)))
    res = runner.run_jobs(jobs)
    return runner.finish(PROP, tier, seed, "model_checking", res, t0, ASSUME, RULE, technique="explicit-state BFS of the elaborated model netlist in lock-step with an independent DRAM reference over legal traces; enumeration of init images")
