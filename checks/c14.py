"""C14 - BIST reports exactly the words that differ.

DUT: one top-level module holding the REAL `_LiteDRAMBISTGenerator` (native write port) and the REAL `_LiteDRAMBISTChecker`
(native read port); both ports sit on ONE native-port responder memory (checks.responder).  One BFS covers

    configure -> generator start -> generator run (phase 1) -> fault set injected in the memory + checker start
              -> checker run (phase 2) -> verdict

The parameter tuple (base, range, length, random_data, random_addr) is the FIRST choice of every trace (the DUT idles during
that cycle), the fault set is the choice taken at the phase boundary, responder timing is a choice every cycle (deviation budget
D per phase, or free).  Everything the oracle knows about the sequences comes from the independent model below (SeqModel); the
model itself is unit-checked against the real `Generator` module at harness construction.

Units (read off bist.py): `base`, `end`, `length` are BYTE quantities (`awidth = address_width + ashift`), the port is addressed
in words: first word = base[ashift:], number of words = length[ashift:].  The property's range [base, end) is therefore
[base/bpw, end/bpw) in port words.

Which address belongs to a position: the generator's write #p is compared with the model (range check first, then the exact model
address); the address it actually used is recorded and is "the word stored for position p" in the checker's oracle, so that one
address defect on the generator side is reported once and does not cascade into every error count.  Reports carry stable `detail`
fields: kind = write_outside_range | read_outside_range | write_address_sequence | write_data | write_byte_enables | extra_write |
done_before_written | write_after_done | checker_before_start | error_count (+ direction, faithful_memory, repeated_addresses) |
generator_never_done | checker_never_done, plus data_width / random_addr / random_data / wraps.  For the two *_outside_range kinds
`explained_by_byte_mask` says whether the observed address is exactly what a mask of (end - base - 1) in BYTES applied to the WORD
index gives (the one deviation bist.py shows on ports wider than a byte).

Not covered: run_cascade_in low, restarting the generator (the checker is reset and run a second time in the *-rerun-* configurations), base/length that are not word multiples, length 0, ranges that are not
powers of two (outside the stated contract).
"""
import time
from engine import runner, fhdl
from engine.explore import Harness, Violation
from checks.responder import Responder

PROP = "C14"
ASSUME = [
    "parameters (base, end, length in bytes; random flags) are held constant from before `start` on, as the CSR wrapper does; base/end/length are multiples of the port word, "
    "end-base is a power of two (1,2,4,8 words), length is 1..2x the range; `start` is a one-cycle pulse; the checker is started only after the generator reported done and the memory is idle",
    "memory below = native-port responder restricted to real-core behaviour (write strobe >= 3 / read data >= 6 cycles after acceptance, per-port in order, strobes ignore valid/ready); "
    "it stores faithfully except for the injected fault set",
    "fault set = set of sequence positions; the word at the address each chosen position was written to gets one bit flipped (once per address) between generator done and checker start",
    "responder timing: per phase at most D departures from the default answer (cmd.ready=1, data at the earliest legal cycle) where D is given per configuration, or completely free (D=None)",
    "sequence positions <= 16, address range <= 8 words, 7-bit port address; data widths 8, 32, 64 (narrower / wider than the 31-bit generators)",
    "AXI variant (configurations axi-*): both cores on one LiteDRAMAXIPort, the project's LiteDRAMAXI2Native bridge (no read-modify-write) between it and the responder; AXI writes are posted, "
    "so there the harness waits until all words reached the memory before it injects faults and starts the checker instead of requiring it of `done`",
]
RULE = ("BFS from a neutral state; first choice = parameter tuple (base in {0, aligned, unaligned}, range, length, random_data, random_addr), then responder timing choices, at the phase boundary "
        "one branch per fault set (every subset of positions for length <= 8 words), then timing choices again; oracle = independent counter/PRBS31 model: "
        "generator: exactly length/bytes_per_word writes, write #p to the model address of position p inside [base,end), model data of p replicated/truncated to the port width, all byte enables, then done; "
        "checker: reads inside [base,end), done, errors == #positions p with memory[address written for p] != model word of p over the final memory image "
        "(=> 0 for faithful memory and non-repeating addresses, k for k corrupted distinct words); both phases terminate under a cooperative memory. "
        "evaluations = transitions; non-trivial case = a distinct (configuration, parameter tuple, fault set) triple carried to the checker's verdict (counted as a set, per configuration)")

EV_OUT = 1; EV_PROG = 2
AW = 7                      # port address width (words): base 8 + byte-masked offset 63 still fits, no aliasing
M31 = (1 << 31) - 1


# ---------------------------------------------------------------------------------------------------------- independent model

def prbs31_words(n):
    """PRBS31 (x^31 + x^28 + 1) Fibonacci shift register, feedback inverted (XNOR: the all-zero reset state is not a lock-up
    state), newest bit enters at bit 0, 31 shifts per output word; word #p = register contents after 31*(p+1) shifts from 0."""
    s = 0; out = []
    for _ in range(n):
        for _ in range(31):
            fb = 1 ^ ((s >> 27) & 1) ^ ((s >> 30) & 1)
            s = ((s << 1) | fb) & M31
        out.append(s)
    return out


def widen(v31, dw):
    """31-bit generator word -> port word: repeated end to end from bit 0 upwards, cut at the port width"""
    w = 0; sh = 0
    while sh < dw:
        w |= v31 << sh; sh += 31
    return w & ((1 << dw) - 1)


class SeqModel:
    """address / data per sequence position for one parameter tuple (all addresses in port words)"""

    def __init__(self, dw, base_w, range_w, length_w, rd, ra):
        bpw = dw // 8
        g_lfsr = prbs31_words(length_w)
        g_cnt = list(range(length_w))
        self.data = [widen(v, dw) for v in (g_lfsr if rd else g_cnt)]
        idx = g_lfsr if ra else g_cnt
        assert range_w & (range_w - 1) == 0
        self.addr = [base_w + (i & (range_w - 1)) for i in idx]                 # the property: wrapped to the range, in words
        self.addr_bytemask = [base_w + (i & (range_w * bpw - 1)) for i in idx]  # diagnostic only: byte-sized mask on a word index
        self.lo = base_w; self.hi = base_w + range_w
        self.repeats = len(set(self.addr)) != len(self.addr)


def model_selftest(cycles=400):
    """unit check of the model against the REAL Generator module (counter and LFSR modes, with clock-enable gaps), run on the
    compiled step of the engine"""
    from litedram.frontend.bist import Generator
    dut = Generator(31, n_state=31, taps=[27, 30])
    c = fhdl.compile_harness(dut, [dut.o])
    i_ce = c.ii[dut.ce]; i_re = c.ii[dut.random_enable]; r_o = c.rd(dut.o)
    lf = prbs31_words(cycles)
    S = c.reset_state; n = 0
    for k in range(cycles):
        ce = 0 if (k % 7 in (2, 5)) else 1
        for re in (0, 1):
            I = list(c.base_inputs); I[i_ce] = ce; I[i_re] = re; I = tuple(I)
            S2, O = c.cycle(S, I)
            got = r_o(S, I, O); exp = lf[n] if re else n
            if got != exp:
                raise fhdl.EngineError("C14 model self-test: real Generator gives %x at position %d (random=%d), model %x" % (got, n, re, exp))
        S = S2; n += ce
    return n


# ---------------------------------------------------------------------------------------------------------------------- harness

class BistHarness(Harness):
    def __init__(self, dw=8, cfgs=None, D=0, faults="all", wmin=3, rmin=6, qmax=3, flipmode="spread", port="native",
                 ranges=(1, 2), region="all", bases=None, modes=None, lmax=None, rerun=False):
        """parameter tuples offered as first choice: `cfgs` (explicit list of (base, range, length in words, random_data, random_addr)) or
        param_tuples(ranges, region, bases, modes, lmax)"""
        from migen import Module
        from litedram.common import LiteDRAMNativePort
        from litedram.frontend.bist import _LiteDRAMBISTGenerator, _LiteDRAMBISTChecker
        self.positions_checked = model_selftest()
        self.dw = dw; self.bpw = dw // 8; self.D = D; self.faults = faults; self.flipmode = flipmode; self.port_kind = port
        top = Module()
        if port == "native":
            self.wp = wp = LiteDRAMNativePort("write", AW, dw)
            self.rp = rp = LiteDRAMNativePort("read", AW, dw)
            self.gen = gen = _LiteDRAMBISTGenerator(wp)
            self.chk = chk = _LiteDRAMBISTChecker(rp)
            top.submodules += gen, chk
            ports = [wp, rp]
            self.bits = (1, 2)              # cmd.ready bit of the responder port used in phase 1 / phase 2
            self.posted = False
        else:
            # AXI variant: both cores on one AXI port (they use disjoint channels), the project's own AXI->native bridge, one native
            # port on the responder.  AXI writes are posted: the DMA acknowledges B unconditionally and `done` only says that every
            # beat was handed to the bus, so the harness waits for the memory instead of reporting "done before written".
            from litedram.frontend.axi import LiteDRAMAXIPort, LiteDRAMAXI2Native
            ashift = (dw // 8).bit_length() - 1
            self.axi = axi = LiteDRAMAXIPort(dw, AW + ashift, id_width=1)
            self.np = np_ = LiteDRAMNativePort("both", AW, dw)
            self.gen = gen = _LiteDRAMBISTGenerator(axi)
            self.chk = chk = _LiteDRAMBISTChecker(axi)
            top.submodules += gen, chk, LiteDRAMAXI2Native(axi, np_)
            ports = [np_]
            self.bits = (1, 1)
            self.posted = True
        self.dut = top
        reads = Responder.reads(ports) + [gen.done, chk.done, chk.errors]
        self.c = c = fhdl.compile_harness(top, reads)
        self.resp = Responder(c, ports, wmin=wmin, rmin=rmin, qmax=qmax, mem_init=self.mem_init)
        ii = c.ii
        self.i_par = []
        for core in (gen, chk):
            self.i_par.append((ii[core.base], ii[core.end], ii[core.length], ii[core.random_data], ii[core.random_addr]))
        self.i_gstart = ii[gen.start]; self.i_cstart = ii[chk.start]
        # rerun: after its verdict the checker is reset (its `reset` input, as the CSR wrapper's reset register does) and started again over the
        # same memory: the second verdict must again be the number of differing positions (sequences restart with every run)
        self.rerun = rerun; self.i_creset = ii.get(chk.reset)
        self.r_gdone = c.rd(gen.done); self.r_cdone = c.rd(chk.done); self.r_errors = c.rd(chk.errors)
        self.base = list(c.base_inputs)
        if cfgs is None:
            cfgs = param_tuples(ranges, region, BASES if bases is None else bases, MODES if modes is None else [tuple(x) for x in modes], lmax)
        self.cfgs = [tuple(x) for x in cfgs]
        self.models = {}
        self.cov_cfg = set(); self.cov_faults = set(); self.cov_verdicts = set(); self.cov_gen = set(); self.cov_zero = set(); self.cov_rep = set(); self.cov_k = set()
        self.allwe = (1 << self.bpw) - 1

    def mem_init(self, a):
        return (0xA5A5A5A5A5A5A5A5 ^ (a * 0x0101010101010101)) & ((1 << self.dw) - 1)

    def model(self, cfg):
        m = self.models.get(cfg)
        if m is None:
            m = self.models[cfg] = SeqModel(self.dw, *cfg)
        return m

    # env: (phase, cfg, deviations left, responder, commands accepted, data strobes, addresses written, fault mask)
    # phase: 0 neutral, 1 generator start pulse, 2 generator runs, 3 fault injection + checker start pulse, 4 checker runs, 5 verdict given
    def env0(self):
        return (0, None, 0, self.resp.init(), 0, 0, (), 0)

    def default_resp(self, rs, bit):
        el = self.resp.eligible(rs[0])
        return (bit if len(rs[0]) < self.resp.qmax else 0, (el[0],) if el else ())

    def fault_menu(self, L):
        full = (1 << L) - 1
        if self.faults == "all" and L <= 8:
            return list(range(1 << L))
        out = [0, full] + [1 << p for p in range(L)]
        if self.faults == "all":
            out += [full ^ (1 << p) for p in range(L)]
        else:
            out = [0, full, 0x5555 & full, 1, 1 << (L - 1)]
        return list(dict.fromkeys(out))

    def menu(self, S, E):
        ph, cfg, dev, rs, na, nd, A, F = E
        if ph == 0: return [("cfg",) + x for x in self.cfgs]
        if ph == 1: return [("start",)]
        if ph == 3: return [("inject", m) for m in self.fault_menu(cfg[2])]
        if ph == 5: return []
        if ph == 6: return [("reset",)]
        if ph == 7: return [("restart",)]
        bit = self.bits[0] if ph == 2 else self.bits[1]
        dflt = ("t",) + self.default_resp(rs, bit)
        if dev == 0: return [dflt]
        out = [dflt]
        for r in self.resp.menu(rs, readies=[bit, 0]):
            ch = ("t",) + r
            if ch != dflt: out.append(ch)
        return out

    def describe(self, ch):
        if ch[0] == "cfg":
            return "configure base=%d words range=%d words length=%d words random_data=%d random_addr=%d (x%d bytes)" % (ch[1:] + (self.bpw,))
        if ch[0] == "start": return "generator start"
        if ch[0] == "reset": return "checker reset"
        if ch[0] == "restart": return "checker start (second run, same memory)"
        if ch[0] == "inject": return "corrupt words of positions %s, checker start" % [p for p in range(16) if (ch[1] >> p) & 1]
        if self.port_kind != "native": return "cmd.ready=%d serve=%s" % (ch[1], list(ch[2]))
        return "cmd.ready(gen,chk)=%d%d serve=%s" % (ch[1] & 1, ch[1] >> 1, list(ch[2]))

    def drive(self, S, E, ch):
        ph, cfg, dev, rs, na, nd, A, F = E
        I = list(self.base)
        if cfg is not None:
            b, r, l, rd, ra = cfg
            for (ib, ie, il, ird, ira) in self.i_par:
                I[ib] = b * self.bpw; I[ie] = (b + r) * self.bpw; I[il] = l * self.bpw; I[ird] = rd; I[ira] = ra
        if ph == 1: I[self.i_gstart] = 1
        if ph == 3 or ph == 7: I[self.i_cstart] = 1
        if ph == 6: I[self.i_creset] = 1
        if ch[0] == "t":
            self.resp.drive(rs, (ch[1], ch[2]), I)
        return tuple(I)

    def flipbit(self, a):
        if self.flipmode == "low": return 0
        return (7 * a + self.dw - 1) % self.dw

    def expected_errors(self, cfg, A, mem):
        m = self.model(cfg)
        return sum(1 for p in range(cfg[2]) if self.resp.mem_get(mem, A[p] if p < len(A) else m.addr[p]) != m.data[p])

    def observe(self, S, E, ch, I, O, S2):
        ph, cfg, dev, rs, na, nd, A, F = E
        self._ctx = dict(data_width=self.dw)
        if ph == 0:
            cfg = tuple(ch[1:]); self.cov_cfg.add(cfg)
            return (1, cfg, 0, rs, 0, 0, (), 0), EV_PROG
        if ph == 5:
            # never explored (menu is empty after the verdict); only reached when a stored trace is replayed on a tree where the run
            # terminates: keep the state changing so that such a replay cannot be mistaken for a reproduced non-termination lasso
            return (5, cfg, dev + 1, rs, na, nd, A, F), EV_PROG
        L = cfg[2]; m = self.model(cfg)
        self._ctx.update(random_addr=cfg[4], random_data=cfg[3], wraps=bool(L > cfg[1]))
        if ch[0] == "t":
            rch = (ch[1], ch[2])
            bit = self.bits[0] if ph == 2 else self.bits[1]
            coop = rch == self.default_resp(rs, bit)
            if dev > 0 and not coop: dev -= 1
        else:
            rch = (0, ()); coop = True
        rs2, evs = self.resp.observe(rs, rch, S, I, O)
        prog = bool(evs) or ch[0] != "t"
        gdone = self.r_gdone(S, I, O); cdone = self.r_cdone(S, I, O)
        for e in evs:
            is_write = (e[0] == "w") or (e[0] == "acc" and e[2])
            if ph <= 2 and not is_write:
                raise Violation("bist.checker_active_before_start", "read traffic although the checker was never started", kind="checker_before_start")
            if ph >= 3 and is_write:
                self.report("bist.generator_active_after_done", "write traffic after the generator reported done and the memory was idle", kind="write_after_done")
                continue
            if e[0] == "acc":
                a = e[3]
                if is_write:
                    if na >= L:
                        raise Violation("bist.generator_extra_write", "generator issued write command #%d, length is %d words" % (na + 1, L), kind="extra_write")
                    if not (m.lo <= a < m.hi):
                        self.report("bist.write_outside_range", "write #%d goes to word %d, outside [base, end) = [%d, %d) words" % (na, a, m.lo, m.hi),
                                    kind="write_outside_range", explained_by_byte_mask=bool(a == m.addr_bytemask[na]))
                    elif a != m.addr[na]:
                        self.report("bist.write_address_sequence", "write #%d goes to word %d, the address sequence gives word %d" % (na, a, m.addr[na]), kind="write_address_sequence")
                    A = A + (a,); na += 1
                else:
                    if not (m.lo <= a < m.hi):
                        self.report("bist.read_outside_range", "checker read #%d goes to word %d, outside [base, end) = [%d, %d) words" % (na, a, m.lo, m.hi),
                                    kind="read_outside_range", explained_by_byte_mask=bool(na < L and a == m.addr_bytemask[na]))
                    na += 1
            elif e[0] == "w":
                if nd >= len(A): raise Violation("bist.write_data_without_command", "write data strobe without command", kind="data_without_command")
                d, we = e[3], e[4]
                if d != m.data[nd]:
                    self.report("bist.write_data", "position %d written with %x, the data sequence gives %x" % (nd, d, m.data[nd]), kind="write_data")
                if we != self.allwe:
                    self.report("bist.write_byte_enables", "position %d written with byte enables %x" % (nd, we), kind="write_byte_enables")
                nd += 1
            elif e[0] == "r":
                nd += 1
        ev = 0
        if ph == 1:
            ph = 2; dev = self.D if self.D is not None else -1
        elif ph == 2:
            if gdone:
                if (nd < L or not self.resp.idle(rs2)) and not self.posted:
                    self.report("bist.done_before_written", "generator reports done after %d of %d words reached the memory" % (nd, L), kind="done_before_written")
                if self.resp.idle(rs2) and (nd >= L or not self.posted):
                    ph = 3; dev = 0; prog = True
                    self.cov_gen.add(cfg)
        elif ph == 3:
            F = ch[1]
            mem = rs2[1]
            before = self.expected_errors(cfg, A, mem)
            for a in sorted({A[p] for p in range(min(L, len(A))) if (F >> p) & 1}):
                mem = self.resp.mem_set(mem, a, self.resp.mem_get(mem, a) ^ (1 << self.flipbit(a)))
            rs2 = (rs2[0], mem)
            if len(set(A)) == len(A) and before == 0 and self.expected_errors(cfg, A, mem) != bin(F).count("1"):
                raise fhdl.EngineError("C14 oracle inconsistent: k distinct corrupted words must give k differing positions")
            self.cov_faults.add((cfg, F))
            ph = 4; na = 0; nd = 0; dev = self.D if self.D is not None else -1
        elif ph == 6:
            ph = 7
        elif ph == 7:
            ph = 8; na = 0; nd = 0; dev = self.D if self.D is not None else -1
        elif ph == 4 or ph == 8:
            if cdone:
                exp = self.expected_errors(cfg, A, rs2[1]); got = self.r_errors(S, I, O)
                distinct = len(set(A)) == len(A)
                if got != exp:
                    self.report("bist.error_count", "checker reports %d errors; %d of the %d positions hold a word different from the generated one (fault set %s, addresses %s)"
                                % (got, exp, L, [p for p in range(L) if (F >> p) & 1], list(A)), kind="error_count", faithful_memory=bool(F == 0), repeated_addresses=not distinct,
                                direction="too_many" if got > exp else "too_few", second_run=bool(ph == 8))
                self.cov_verdicts.add((cfg, F))
                if F == 0 and distinct and exp == 0: self.cov_zero.add(cfg)
                if F and distinct and exp == bin(F).count("1"): self.cov_k.add((cfg, F))
                if not distinct: self.cov_rep.add((cfg, F))
                if ph == 8: self.cov_rerun = getattr(self, "cov_rerun", 0) + 1
                ph = 6 if (self.rerun and ph == 4) else 5; prog = True
        if coop and ph != 5: ev |= EV_OUT
        if prog: ev |= EV_PROG
        return (ph, cfg, dev, rs2, na, nd, A, F), ev

    def report(self, rule, msg, **detail):
        detail.update(self._ctx)
        Harness.report(self, rule, msg, **detail)

    def coverage(self):
        return dict(parameter_tuples=len(self.cov_cfg), generator_runs_completed=len(self.cov_gen), fault_sets_injected=len(self.cov_faults), verdicts=len(self.cov_verdicts),
                    verdicts_faithful_nonrepeating_zero=len(self.cov_zero), verdicts_k_distinct_corrupted_words_k_errors=len(self.cov_k), verdicts_with_repeated_addresses=len(self.cov_rep),
                    model_selftest_positions=self.positions_checked, second_run_verdicts=getattr(self, "cov_rerun", 0))

    def lasso_detail(self, label, cycle_states, loop_choices):
        ph = cycle_states[0][1][0]
        return dict(kind="generator_never_done" if ph <= 2 else "checker_never_done", data_width=self.dw, second_run=bool(ph >= 6))


def build(**kw): return BistHarness(**kw)

LIVE = [("generator and checker reach done (cooperative memory)", EV_OUT, EV_PROG)]

BASES = (0, 8, 5)          # 0, aligned to every range <= 8, aligned to none (> 1)
MODES = ((0, 0), (1, 0), (0, 1), (1, 1))


def param_tuples(ranges, region="all", bases=BASES, modes=MODES, lmax=None):
    out = []
    for r in ranges:
        for b in bases:
            for L in range(1, 2 * r + 1):
                if lmax is not None and L > lmax: continue
                for rd, ra in modes:
                    plain = (ra == 0 and L <= r)
                    if region == "plain" and not plain: continue
                    if region == "wrap" and plain: continue
                    out.append((b, r, L, rd, ra))
    return out


def configs(tier):
    """jobs = (name, kwargs, max_states); heaviest first (the pool hands them out in order).
    Families:  faults-Dn   every subset of corrupted positions (length <= 8 words; longer: none / all / singles / all-but-one), n timing departures per phase
               timing-*    five fault sets (none, all, alternating, first, last) under D departures per phase or completely free timing"""
    cs = []
    def add(name, dw, pt, D, faults, cost, max_states=4_000_000, **kw):
        if param_tuples(**pt): cs.append((cost, name, dict(dw=dw, D=D, faults=faults, **pt, **kw), max_states))
    def param(ranges, region, bases=BASES, modes=MODES):
        return dict(ranges=list(ranges), region=region, bases=list(bases), modes=[list(x) for x in modes])
    for dw in (8, 32, 64):
        # dw 8: byte == word, one region.  wider ports: 'plain' = sequential addresses that do not wrap, 'wrap' = the rest (kept apart
        # so that a finding in one region does not stop the exploration of the other)
        for reg in (("all",) if dw == 8 else ("plain", "wrap")):
            tag = "dw%d%s" % (dw, "" if reg == "all" else "-" + reg)
            split = [(tag + "-b%d" % b, (b,)) for b in BASES] if reg != "plain" else [(tag, BASES)]      # 'plain' is small: one job for all bases
            w = 3 if reg == "plain" else 10
            for bt, bs in split:
                if tier == "quick":
                    add(bt + "-faults-D1-r1-4", dw, param((1, 2, 4), reg, bases=bs), 1, "all", 2.0 * w)
                    add(bt + "-timing-free-r1-4", dw, param((1, 2, 4), reg, bases=bs), None, "few", 0.6 * w)
                    add(bt + "-timing-D2-r8", dw, param((8,), reg, bases=bs), 2, "few", 1.2 * w)
                else:
                    add(bt + "-faults-D2-r1-4", dw, param((1, 2, 4), reg, bases=bs), 2, "all", 5.0 * w)
                    for ra in (0, 1):
                        add(bt + "-faults-D2-r8-ra%d" % ra, dw, param((8,), reg, bases=bs, modes=((0, ra), (1, ra))), 2, "all", 4.5 * w)
                    add(bt + "-timing-free-r1-4", dw, param((1, 2, 4), reg, bases=bs), None, "few", 0.6 * w)
                    add(bt + "-timing-free-r8", dw, param((8,), reg, bases=bs), None, "few", 2.0 * w)
                    add(bt + "-timing-D4", dw, param((1, 2, 4, 8), reg, bases=bs), 4, "few", 4.0 * w)
            if tier == "quick":
                add(tag + "-faults-D0-r8", dw, param((8,), reg), 0, "all", 0.25 * w * 3)
                if dw != 64:
                    add("axi-" + tag + "-faults-D0-r1-4", dw, param((1, 2, 4), reg), 0, "all", 0.5 * w * 3, port="axi")
                    add("axi-" + tag + "-timing-free-r1-2", dw, param((1, 2), reg), None, "few", 0.2 * w * 3, port="axi")
            else:
                add(tag + "-timing-free-q6-r1-4", dw, param((1, 2, 4), reg), None, "few", 3.0 * w, qmax=6)
                for bt, bs in split:
                    add("axi-" + bt + "-faults-D1-r1-4", dw, param((1, 2, 4), reg, bases=bs), 1, "all", 4.0 * w, port="axi")
                    add("axi-" + bt + "-timing-free-r1-4", dw, param((1, 2, 4), reg, bases=bs), None, "few", 1.5 * w, port="axi")
                add("axi-" + tag + "-faults-D0-r8", dw, param((8,), reg), 0, "all", 0.6 * w * 3, port="axi")
    # deep command queue: the memory accepts more write commands than the DMA writer's 16-entry data FIFO holds before it takes the first
    # data word (many banks queueing behind a refresh), so the writer's FIFO fills up; explicit tuples, default timing
    # checker run twice (reset + start) over the same memory, all four data/address modes, default timing
    cs.append((1.0, "dw32-rerun-r4", dict(dw=32, D=0, faults="few", rerun=True, ranges=[4], region="all", bases=[0, 8], modes=[list(x) for x in MODES]), 2_000_000))
    cs.append((1.0, "dw8-rerun-r2-D1", dict(dw=8, D=1, faults="few", rerun=True, ranges=[2], region="all", bases=[5], modes=[list(x) for x in MODES]), 2_000_000))
    cs.append((1.0, "dw32-deepqueue-len20-24", dict(dw=32, D=0, faults="few", cfgs=[[0, 32, 20, 0, 0], [0, 32, 24, 1, 0]], wmin=22, rmin=6, qmax=26), 2_000_000))
    cs.sort(key=lambda x: -x[0])
    return [(n, k, m) for (_, n, k, m) in cs]


def run(tier, seed, only=None):
    t0 = time.time()
    jobs = []
    for name, kw, ms in configs(tier):
        if only and only not in name: continue
        jobs.append((runner.mc_run, (PROP, "checks.c14", "build", kw), dict(name=name, tier=tier, seed=seed, max_states=ms, liveness=LIVE, n_conf=3 if tier == "quick" else 6, selfcheck_cycles=40)))
    res = runner.run_jobs(jobs)
    extra = {}
    tot = {}
    for st, r in res:
        if st == "ok":
            for k, v in r.get("coverage_tags", {}).items():
                if isinstance(v, int) and k != "model_selftest_positions": tot[k] = tot.get(k, 0) + v
    extra["totals"] = tot
    if tot.get("verdicts"): extra["distinct_nontrivial"] = tot["verdicts"]
    return runner.finish(PROP, tier, seed, "model_checking", res, t0, ASSUME, RULE, extra=extra,
                         technique="explicit-state BFS of the elaborated generator+checker netlist over one responder memory; parameter tuples and fault sets as BFS branches; independent sequence model as oracle")
