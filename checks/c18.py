"""C18 - DFI plumbing is transparent: injector mux (exhaustive input enumeration through the real netlist) and DFI rate converter
(explicit-state exploration over two phase-aligned clock domains)."""
import time, itertools
from engine import runner, fhdl
from engine.explore import Harness, Violation

PROP = "C18"
ASSUME = [
    "injector: widths shrunk (address 2-3 bits, bank 1, data 8, 1-2 phases, 1-2 ranks, clam-shell on/off); CSR storages are free inputs of the netlist (a CSR write can land in any cycle), harness-side CSR name/alias shims (DESIGN 2.12); "
    "per-bit independence of wider buses follows from the structure (Record.connect), stated as the scaling argument",
    "injector enumeration: for every field of every phase, every value of that field against several backgrounds of all other inputs (all-zero, all-one, two mixed patterns), and the complete product of all 1-bit fields; both values of sel and ext_dfi_sel",
    "rate converter: clk and clkdiv phase aligned (slow edge coincides with every ratio-th fast edge, as in migen.sim with periods ratio:1); slow-side values change only after a slow edge, fast-side values only after a fast edge",
    "rate converter oracle = the documented mapping: slow phase p + P*j -> fast phase p, fast cycle j of the next slow period (Serializer.LATENCY = 1); write data of slow phases q*r..q*r+r-1 -> fast phase q in fast cycle write_delay; "
    "read data of fast phase q in fast cycle read_delay -> slow phases q*r.. two slow cycles later (Deserializer.LATENCY = 2), rddata_valid replicated",
]
RULE = ("injector: every enumerated input vector is one evaluation; sel=1: master == slave field by field in the same cycle and slave.rddata/valid == master's; sel=0: master outputs identical for all slave input vectors (nothing leaks); "
        "rate converter: complete reachable graph over all sequences of slow-cycle command patterns (NOP / uniquely tagged command per slot / all slots) and fast-side read-data patterns; every fast-side and slow-side output of every step compared with the mapping")


# ------------------------------------------------------------------------------------------------ injector (enumeration)

def injector_job(name="", nphases=1, nranks=1, clam=False, addressbits=2, seed=0, tier="quick"):
    import time as _t
    t0 = _t.time()
    from litedram.dfii import DFIInjector
    dut = DFIInjector(addressbits, 1, nranks, 8, nphases=nphases, is_clam_shell=clam)
    ctrl = dut._control
    # signals
    m2s = ["address", "bank", "cas_n", "cs_n", "ras_n", "we_n", "cke", "odt", "reset_n", "act_n", "wrdata", "wrdata_en", "wrdata_mask", "rddata_en"]
    s2m = ["rddata", "rddata_valid"]
    reads = []
    for ph in dut.master.phases: reads += [getattr(ph, f) for f in m2s]
    for ph in dut.slave.phases: reads += [getattr(ph, f) for f in s2m]
    c = fhdl.compile_harness(dut, reads)
    fhdl.selfcheck(c, 60, seed)
    ii = c.ii
    sel_sig = ctrl.fields.sel      # CSR field signals are free inputs of the bare netlist (a CSR write can land in any cycle)
    assert sel_sig in ii, "control field must be a free input"
    # input groups
    slave_in = [(p, f, getattr(ph, f)) for p, ph in enumerate(dut.slave.phases) for f in m2s]
    master_in = [(p, f, getattr(ph, f)) for p, ph in enumerate(dut.master.phases) for f in s2m]
    ext_in = [(p, f, getattr(ph, f)) for p, ph in enumerate(dut.ext_dfi.phases) for f in m2s]
    _known = set(x[2] for x in slave_in + master_in + ext_in)
    csr_in = [s for s in c.inputs if s not in _known and s is not dut.ext_dfi_sel and s is not sel_sig]
    rd = {s: c.rd(s) for s in reads}
    evals = 0; viols = []; samples = []
    S = c.reset_state

    def backgrounds(sigs):
        outs = []
        for pat in (0, -1, 0x5A5A5A5A5A, 0x3C96A5C3):
            outs.append({s: (pat >> (k % 7)) & ((1 << len(s)) - 1) for k, s in enumerate(sigs)})
        return outs

    allsig = [x[2] for x in slave_in + master_in + ext_in] + csr_in

    def evaluate(vals, selv, extsel):
        nonlocal evals
        I = list(c.base_inputs)
        for s, v in vals.items():
            if s in ii: I[ii[s]] = v
        I[ii[sel_sig]] = selv
        if dut.ext_dfi_sel in ii: I[ii[dut.ext_dfi_sel]] = extsel
        I = tuple(I)
        S2, O = c.cycle(S, I)
        evals += 1
        return I, O

    def check_transparent(vals, I, O, what):
        for p, (ms, sl) in enumerate(zip(dut.master.phases, dut.slave.phases)):
            for f in m2s:
                want = vals.get(getattr(sl, f), 0); got = rd[getattr(ms, f)](S, I, O)
                if f == "cs_n" and clam:
                    want = want | (want << nranks)
                if got != want:
                    viols.append(("injector.not_transparent", "hardware mode: master p%d.%s = %x, controller drives %x (%s)" % (p, f, got, want, what), dict(field=f, mode="hw")))
                    return
            for f in s2m:
                want = vals.get(getattr(ms, f), 0); got = rd[getattr(sl, f)](S, I, O)
                if got != want:
                    viols.append(("injector.not_transparent", "hardware mode: controller sees p%d.%s = %x, PHY returns %x (%s)" % (p, f, got, want, what), dict(field=f, mode="hw")))
                    return

    def master_outputs(I, O):
        return tuple(rd[getattr(ph, f)](S, I, O) for ph in dut.master.phases for f in m2s)

    # 1. hardware mode: each field x every value x backgrounds
    for bg in backgrounds(allsig):
        for grp in (slave_in, master_in):
            for (p, f, sig) in grp:
                nb = len(sig)
                for v in range(1 << nb):
                    vals = dict(bg); vals[sig] = v
                    I, O = evaluate(vals, 1, 0)
                    check_transparent(vals, I, O, "field p%d.%s swept" % (p, f))
                    if len(samples) < 3: samples.append({"mode": "hw", "swept": "p%d.%s=%x" % (p, f, v)})
                    if viols: break
                if viols: break
            if viols: break
        if viols: break
    # complete product of all 1-bit controller fields (phase 0) in hardware mode
    if not viols:
        ones = [sig for (p, f, sig) in slave_in if len(sig) == 1 and p == 0]
        for bits in itertools.product((0, 1), repeat=len(ones)):
            vals = {s: 0 for s in allsig}
            vals.update(dict(zip(ones, bits)))
            I, O = evaluate(vals, 1, 0)
            check_transparent(vals, I, O, "1-bit field product")
            if viols: break
    # 2. software mode: master outputs must not depend on any controller-side value
    if not viols:
        for cbg in backgrounds(csr_in):
            ref = None
            for bg in backgrounds([x[2] for x in slave_in]):
                for (p, f, sig) in [(None, None, None)] + slave_in:
                    for v in ([0] if sig is None else range(1 << len(sig))):
                        vals = dict(cbg); vals.update(bg)
                        if sig is not None: vals[sig] = v
                        I, O = evaluate(vals, 0, 0)
                        out = master_outputs(I, O)
                        if ref is None: ref = out
                        elif out != ref:
                            viols.append(("injector.controller_leaks_in_software_mode", "software mode: master outputs change with controller input p%s.%s=%x" % (p, f, v), dict(field=f, mode="sw")))
                            break
                    if viols: break
                if viols: break
            if viols: break
    out = dict(config=name, evaluations=evals, distinct_nontrivial=evals, states=0, transitions=0, complete=True, samples=samples, violations=[], known_hits={}, known_entries={},
               wall_s=round(_t.time() - t0, 2), state_bits=c.nbits)
    for rule, msg, det in viols[:1]:
        case = dict(kind="injector", nphases=nphases, nranks=nranks, clam=clam, addressbits=addressbits)
        out["violations"].append(runner.enum_violation(PROP, name, "checks.c18", case, rule, msg, **det))
    return out


def replay_case(case):
    r = injector_job(name="replay", nphases=case["nphases"], nranks=case["nranks"], clam=case["clam"], addressbits=case["addressbits"])
    return [(v["rule"], v["msg"]) for v in r["violations"]]


# ------------------------------------------------------------------------------------------------ rate converter (BFS)

class RateHarness(Harness):
    multiclock = True

    def __init__(self, ratio=2, P=1, write_delay=0, read_delay=0, mode="cmd", databits=None):
        from litedram.phy.dfi import Interface as DFI, DFIRateConverter
        self.r, self.P, self.wd, self.rdl, self.mode = ratio, P, write_delay, read_delay, mode
        fast_db = databits or 8 * ratio
        self.phy_dfi = phy = DFI(3, 1, 1, fast_db, nphases=P)
        self.dut = dut = DFIRateConverter(phy, clkdiv="sys", clk="sysfast", ratio=ratio, write_delay=write_delay, read_delay=read_delay)
        slow = self.slow = dut.dfi
        self.NS = ratio * P
        self.cmd_fields = ["address", "bank", "cas_n", "cs_n", "ras_n", "we_n", "cke", "odt", "reset_n", "act_n", "wrdata_en", "rddata_en"]
        reads = []
        for ph in phy.phases: reads += [getattr(ph, f) for f in self.cmd_fields + ["wrdata", "wrdata_mask"]]
        for ph in slow.phases: reads += [ph.rddata, ph.rddata_valid]
        self.c = c = fhdl.compile_harness(dut, reads, clocks={"sys": 10 * ratio, "sysfast": 10}, ticksets=[("sysfast",), ("sys", "sysfast")])
        ii = c.ii
        self.i_slow = [{f: ii[getattr(ph, f)] for f in self.cmd_fields + ["wrdata", "wrdata_mask"]} for ph in slow.phases]
        self.i_fast = [{f: ii[getattr(ph, f)] for f in ["rddata", "rddata_valid"]} for ph in phy.phases]
        self.r_fast = [{f: c.rd(getattr(ph, f)) for f in self.cmd_fields + ["wrdata", "wrdata_mask"]} for ph in phy.phases]
        self.r_slow = [{f: c.rd(getattr(ph, f)) for f in ["rddata", "rddata_valid"]} for ph in slow.phases]
        self.sw = len(slow.p0.wrdata); self.fw = len(phy.p0.wrdata)
        self.base = list(c.base_inputs)
        # slow-cycle alphabet: index 0 = all NOP; 1..NS = one tagged command in slot s; NS+1 = tagged commands in every slot
        self.AW = list(range(self.NS + 2)) if mode == "cmd" else [0]
        self.AR = ([0, 1, 2] if ratio <= 2 else [0, 1]) if mode == "read" else [0]
        self.cov = {}

    def slot_values(self, widx, tog, s):
        """field values the environment drives on slow slot s for alphabet entry widx (tog distinguishes consecutive slow cycles)"""
        active = widx == s + 1 or widx == self.NS + 1
        if not active:
            return dict(address=0, bank=0, cas_n=1, cs_n=1, ras_n=1, we_n=1, cke=0, odt=0, reset_n=0, act_n=1, wrdata_en=0, rddata_en=0, wrdata=0, wrdata_mask=0)
        t = (s * 2 + tog + 1)
        return dict(address=t & 7, bank=(t >> 1) & 1, cas_n=(t >> 0) & 1, cs_n=0, ras_n=(t >> 1) & 1, we_n=(t >> 2) & 1, cke=1, odt=tog, reset_n=1, act_n=tog ^ 1,
                    wrdata_en=1, rddata_en=(s + tog) & 1, wrdata=(0x11 * (s + 1) + tog * 0x80) & ((1 << self.sw) - 1), wrdata_mask=(s + tog) & ((1 << max(1, self.sw // 8)) - 1))

    def fast_rd(self, ridx, q, step_tag):
        if ridx == 0: return 0, 0
        v = 0
        for i in range(self.r):
            v |= ((0x21 * (q + 1) + 0x10 * ridx + i * 3 + step_tag) & ((1 << self.sw) - 1)) << (i * self.sw)
        return v, 1

    # env: (k mod r [position of the NEXT step in the slow period, 0 = step at which the slow edge happens], tog, W_driven, W_sampled (or -1), W_sampled_tog,
    #       rd history: tuple of (ridx) for the fast steps of the current and the two previous slow periods)
    def env0(self):
        return (0, 0, 0, -1, 0, (), ((), ()))

    def menu(self, S, E):
        pos, tog, wdrv, wsam, wsamtog, cur, prev = E
        # a new slow value is chosen right after a slow edge (pos == 1, or the very first step)
        wopts = self.AW if (pos == 1 % self.r or (pos == 0 and wsam == -1 and not cur)) else [wdrv]
        if self.r == 1: wopts = self.AW
        return [(w, rr) for w in wopts for rr in self.AR]

    def describe(self, ch):
        return "slow pattern %d | fast read pattern %d" % ch

    def drive(self, S, E, ch):
        pos, tog, wdrv, wsam, wsamtog, cur, prev = E
        w, rr = ch
        I = list(self.base)
        ntog = tog
        for s in range(self.NS):
            vals = self.slot_values(w, tog, s)
            for f, v in vals.items(): I[self.i_slow[s][f]] = v
        for q in range(self.P):
            d, v = self.fast_rd(rr, q, len(cur) & 1)
            I[self.i_fast[q]["rddata"]] = d; I[self.i_fast[q]["rddata_valid"]] = v
        tick = ("sys", "sysfast") if pos == 0 else ("sysfast",)
        return tuple(I), tick

    def observe(self, S, E, ch, I, O, S2):
        pos, tog, wdrv, wsam, wsamtog, cur, prev = E
        w, rr = ch
        r, P = self.r, self.P
        # ---- fast-side outputs in this step: slice j of the slow sample taken at the last slow edge (documented latency 1)
        if wsam != -1:
            j = (pos - 1) % r          # fast cycle index inside the slow period that started at the last slow edge
            for q in range(P):
                slot = q + P * j
                want = self.slot_values(wsam, wsamtog, slot)
                for f in self.cmd_fields:
                    got = self.r_fast[q][f](S, I, O)
                    if got != want[f]:
                        self.report("rate.command_mismatch", "fast phase %d, fast cycle %d: %s = %x, slow slot %d carried %x" % (q, j, f, got, slot, want[f]), field=f, kind="cmd")
                        break
                # write data: slow phases q*r .. q*r+r-1 concatenated, only in fast cycle write_delay
                wd = 0; wm = 0
                if j == self.wd:
                    for i in range(r):
                        sv = self.slot_values(wsam, wsamtog, q * r + i)
                        wd |= sv["wrdata"] << (i * self.sw); wm |= sv["wrdata_mask"] << (i * max(1, self.sw // 8))
                got = self.r_fast[q]["wrdata"](S, I, O); gm = self.r_fast[q]["wrdata_mask"](S, I, O)
                if got != wd or gm != wm:
                    self.report("rate.wrdata_mismatch", "fast phase %d, fast cycle %d: wrdata %x mask %x, expected %x mask %x" % (q, j, got, gm, wd, wm), kind="wrdata")
                if wsam: self.cov["cmd_checked"] = self.cov.get("cmd_checked", 0) + 1
        # ---- slow-side read data: fast cycle read_delay of the slow period two periods back
        two_back = prev[0]
        if len(two_back) == r:
            ridx, tag = two_back[self.rdl]
            for q in range(P):
                d, v = self.fast_rd(ridx, q, tag)
                for i in range(r):
                    sp = q * r + i
                    gv = self.r_slow[sp]["rddata_valid"](S, I, O); gd = self.r_slow[sp]["rddata"](S, I, O)
                    wv = v; wdv = (d >> (i * self.sw)) & ((1 << self.sw) - 1)
                    if gv != wv or (wv and gd != wdv):
                        self.report("rate.rddata_mismatch", "slow phase %d: rddata %x valid %d, expected %x valid %d" % (sp, gd, gv, wdv, wv), kind="rddata")
                        break
            if ridx: self.cov["rd_checked"] = self.cov.get("rd_checked", 0) + 1
        # ---- advance the reference
        if pos == 0:
            # slow edge in this step: the slow inputs driven now are sampled; fast input of this step is the last chunk of the finishing period
            ncur = cur + ((rr, len(cur) & 1),)
            if wsam == -1 and len(ncur) < r:
                # very first edge: the partial first period has no defined chunks; pad
                ncur = tuple([(0, 0)] * (r - len(ncur))) + ncur
            nprev = (prev[1], ncur)
            return (1 % r, tog ^ 1, w, w, tog, (), nprev), 0
        ncur = cur + ((rr, len(cur) & 1),)
        return ((pos + 1) % r, tog, w, wsam, wsamtog, ncur, prev), 0

    def coverage(self): return dict(self.cov)


def build(**kw): return RateHarness(**kw)


def configs(tier):
    inj = [dict(nphases=1, nranks=1), dict(nphases=2, nranks=1), dict(nphases=1, nranks=2), dict(nphases=1, nranks=1, clam=True)]
    if tier == "thorough": inj += [dict(nphases=2, nranks=2, addressbits=3), dict(nphases=2, nranks=1, clam=True), dict(nphases=4, nranks=1)]
    rc = []
    for (r, P) in ([(2, 1), (2, 2), (4, 1)] if tier == "quick" else [(2, 1), (2, 2), (4, 1), (4, 2), (8, 1)]):
        delays = [(0, 0), (r - 1, 1 % r)] if tier == "quick" else [(a, b) for a in range(r) for b in range(r)]
        for (wd, rdl) in delays:
            rc.append(("rate-r%d-P%d-wd%d-rd%d-cmd" % (r, P, wd, rdl), dict(ratio=r, P=P, write_delay=wd, read_delay=rdl, mode="cmd")))
            if r <= 4: rc.append(("rate-r%d-P%d-wd%d-rd%d-read" % (r, P, wd, rdl), dict(ratio=r, P=P, write_delay=wd, read_delay=rdl, mode="read")))
    return inj, rc


def run(tier, seed, only=None):
    t0 = time.time()
    inj, rc = configs(tier)
    jobs = []
    for kw in inj:
        name = "injector-p%d-r%d%s" % (kw["nphases"], kw["nranks"], "-clam" if kw.get("clam") else "")
        if only and only not in name: continue
        jobs.append((injector_job, (), dict(name=name, seed=seed, tier=tier, **kw)))
    for name, kw in rc:
        if only and only not in name: continue
        jobs.append((runner.mc_run, (PROP, "checks.c18", "build", kw), dict(name=name, tier=tier, seed=seed, max_states=3_000_000)))
    res = runner.run_jobs(jobs)
    return runner.finish(PROP, tier, seed, "model_checking", res, t0, ASSUME, RULE, technique="explicit-state BFS of the elaborated two-clock rate converter + exhaustive input enumeration of the injector netlist")
