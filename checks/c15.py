"""C15 - ECC port corrects any single and flags any double bit error; granularity errors reported for partial writes only."""
import time, itertools
from engine import runner, fhdl
from engine.explore import Harness, Violation
from checks.responder import Responder

PROP = "C15"
ASSUME = [
    "harness-side shims give the anonymous CSRs names and alias CSR.wr_stb/rd_stb to this LiteX's CSR.re/we (process-local, DESIGN 2.12)",
    "memory below the ECC port = native-port responder (real-core-limited timing); the stored ECC word is XOR-ed with the enumerated flip mask when it is read back",
    "8-bit lanes: all 256 data words x (no flip, all 13 single flips, all 78 double flips); wider lanes: all flip positions x a spanning data set (0, ~0, walking 1, walking 0): the code is affine over GF(2), so detection/correction "
    "depends on the flip pattern only and the spanning set exposes any data-dependent wiring error",
    "oracle written from the SECDED definition (not from litex.soc.cores.ecc): no flip -> data intact, no counter moves; single flip -> data intact, never ded, sec counted except for at most one codeword position (the overall parity bit); "
    "double flip -> ded counted, never clean, never sec-only; partial byte enables -> granularity error counted, full writes -> not",
    "master accepts read data at once (rdata.ready = 1), so each erroneous read word is one counting event",
]
RULE = ("fault enumeration through the real port netlist (write, corrupt stored bits, read back) for every (data, flip set) of the stated grid, deterministic handshake timing; plus BFS over all handshake timings "
        "(cmd.ready stalls, memory latencies, master gaps) for a small case list incl. partial writes; distinct_nontrivial = cases with at least one flipped bit or a partial write")

EV_OUT = 1; EV_PROG = 2


def cases_for(k, tier, lanes):
    """(data, flipmask) pairs for one ECC word of k data bits"""
    from litex.soc.cores.ecc import compute_m_n
    m, n = compute_m_n(k)
    nb = n + 1
    singles = [1 << i for i in range(nb)]
    doubles = [(1 << i) | (1 << j) for i in range(nb) for j in range(i + 1, nb)]
    if k == 8:
        datas = list(range(256)) if tier == "thorough" else list(range(0, 256, 5)) + [255, 0xAA, 0x55]
    else:
        full = (1 << k) - 1
        datas = [0, full] + [1 << i for i in range(k)] + [full ^ (1 << i) for i in range(k)]
        if tier == "quick": datas = datas[:2] + datas[2::4]
    return nb, [(d, f) for d in dict.fromkeys(datas) for f in [0] + singles + doubles]


class EccHarness(Harness):
    """phases: 0 configure (first choice selects the case), 1 write cmd, 2 write done, 3 read cmd, 4 done"""

    def __init__(self, k=8, burst=1, tier="quick", timing_free=False, case_list=None, lane_sel=0, wmin=3, rmin=6, nreads=1):
        from litedram.common import LiteDRAMNativePort
        from litedram.frontend.ecc import LiteDRAMNativePortECC
        from litex.soc.cores.ecc import compute_m_n
        m, n = compute_m_n(k)
        self.k = k; self.burst = burst; self.nb = n + 1
        lane_to = ((n + 1 + 7) // 8) * 8
        self.lane_to = lane_to
        pf = LiteDRAMNativePort("both", 4, k * burst); pt = LiteDRAMNativePort("both", 4, lane_to * burst)
        self.pf, self.pt = pf, pt
        self.dut = dut = LiteDRAMNativePortECC(pf, pt, burst_cycles=burst, with_we_error_detection=True)
        dut.finalize()
        reads = Responder.reads([pt]) + [pf.cmd.ready, pf.wdata.ready, pf.rdata.valid, pf.rdata.data, dut.sec_errors.status, dut.ded_errors.status, dut.we_errors.status]
        self.c = c = fhdl.compile_harness(dut, reads)
        self.resp = Responder(c, [pt], wmin=wmin, rmin=rmin, qmax=max(2, nreads))
        ii = c.ii
        self.i_valid = ii[pf.cmd.valid]; self.i_we = ii[pf.cmd.we]; self.i_addr = ii[pf.cmd.addr]
        self.i_wvalid = ii[pf.wdata.valid]; self.i_wdata = ii[pf.wdata.data]; self.i_wwe = ii[pf.wdata.we]; self.i_rready = ii[pf.rdata.ready]
        R = c.rd
        self.r_ready = R(pf.cmd.ready); self.r_wready = R(pf.wdata.ready); self.r_rvalid = R(pf.rdata.valid); self.r_rdata = R(pf.rdata.data)
        self.r_sec = R(dut.sec_errors.status); self.r_ded = R(dut.ded_errors.status); self.r_weerr = R(dut.we_errors.status)
        self.base = list(c.base_inputs); self.base[self.i_rready] = 1
        self.timing_free = timing_free; self.nreads = nreads
        self.lane_sel = lane_sel
        self.full_we = (1 << (k * burst // 8)) - 1
        if case_list is not None:
            self.cases = [tuple(x) for x in case_list]          # (data, flipmask, we[, flipmask of the other lane's ECC word])
        else:
            nb, cs = cases_for(k, tier, burst)
            self.cases = [(d, f, self.full_we) for d, f in cs]
        self.cov = {}
        self.parity_candidates = set()

    def word(self, d):
        """port word: lane `lane_sel` carries d, other lanes carry a fixed pattern"""
        w = 0
        for l in range(self.burst):
            v = d if l == self.lane_sel else (0x5A5A5A5A5A5A5A5A & ((1 << self.k) - 1))
            w |= v << (l * self.k)
        return w

    # env: (phase, case index, cmd_hold, cmd_done, data_done, delay, responder)
    # phases: 0 configure (the first choice selects the case) - 1 write (command + data offered together) - 2 wait until the memory took the
    # write - 3 read command - 4 wait for the read word - 5 let the counters settle - 9 done
    def env0(self):
        return (0, -1, 0, 0, 0, 0, self.resp.init(), 0, 0)

    def default_resp(self, rs):
        el = self.resp.eligible(rs[0])
        return (1 if len(rs[0]) < self.resp.qmax else 0, (el[0],) if el else ())

    def menu(self, S, E):
        ph, ci, hold, cdone, ddone, delay, rs, ri, rg = E
        if ph == 0: return [("case", i) for i in range(len(self.cases))]
        if self.timing_free and ph < 9:
            go = (1,) if (hold or ph not in (1, 3) or cdone) else (1, 0)
            return [(g, r) for g in go for r in self.resp.menu(rs)]
        return [(1, self.default_resp(rs))]

    def describe(self, ch):
        if ch[0] == "case":
            d, f, we = self.cases[ch[1]][:3]
            return "case data=%x flip=%x we=%x" % (d, f, we)
        return "go=%d cmd.ready=%d serve=%s" % (ch[0], ch[1][0], list(ch[1][1]))

    def drive(self, S, E, ch):
        ph, ci, hold, cdone, ddone, delay, rs, ri, rg = E
        I = list(self.base)
        if ch[0] == "case": return tuple(I)
        go, rch = ch
        d, f, we = self.cases[ci][:3]
        f2 = self.cases[ci][3] if len(self.cases[ci]) > 3 else 0
        if ph == 1:
            if go and not cdone:
                I[self.i_valid] = 1; I[self.i_we] = 1; I[self.i_addr] = 3
            if not ddone:
                I[self.i_wvalid] = 1; I[self.i_wdata] = self.word(d); I[self.i_wwe] = we
        elif ph == 3 and go:
            I[self.i_valid] = 1; I[self.i_we] = 0; I[self.i_addr] = 3
        # the memory corrupts the stored word when it is read back
        if rch[1] and not rs[0][rch[1][0]][1]:
            a = rs[0][rch[1][0]][2]
            w = self.resp.mem_get(rs[1], a) ^ (f << (self.lane_sel * self.lane_to)) ^ (f2 << ((1 - self.lane_sel) * self.lane_to) if f2 else 0)
            rs = (rs[0], self.resp.mem_set(rs[1], a, w))
        self.resp.drive(rs, rch, I)
        return tuple(I)

    def observe(self, S, E, ch, I, O, S2):
        ph, ci, hold, cdone, ddone, delay, rs, ri, rg = E
        if ch[0] == "case":
            return (1, ch[1], 0, 0, 0, 0, rs, 0, 0), 0
        go, rch = ch
        d, f, we = self.cases[ci][:3]
        f2 = self.cases[ci][3] if len(self.cases[ci]) > 3 else 0
        nflip = bin(f).count("1"); nflip2 = bin(f2).count("1")
        partial = we != self.full_we
        rs2, evs = self.resp.observe(rs, rch, S, I, O)
        prog = bool(evs)
        if ph == 1:
            if go and not cdone:
                if self.r_ready(S, I, O): cdone = 1; hold = 0; prog = True
                else: hold = 1
            if not ddone and self.r_wready(S, I, O): ddone = 1; prog = True
            if cdone and ddone: ph = 2
        elif ph == 2:
            if any(e[0] == "w" for e in evs) or (not rs2[0]): ph = 3; cdone = 0
        elif ph == 3:
            if go:
                if self.r_ready(S, I, O):
                    ri += 1; hold = 0; prog = True
                    if ri == self.nreads: ph = 4
                else: hold = 1
        if self.r_rvalid(S, I, O):
            prog = True
            if rg >= ri: raise Violation("ecc.unexpected_read_word", "read word delivered without an outstanding read")
            got = (self.r_rdata(S, I, O) >> (self.lane_sel * self.k)) & ((1 << self.k) - 1)
            if not partial and nflip <= 1 and got != d:
                self.report("ecc.data_corrupted", "read back %x, written %x (flip mask %x: %d flipped bit(s))" % (got, d, f, nflip), nflip=nflip)
            if f2 and not partial and nflip2 <= 1:
                ol = 1 - self.lane_sel
                got2 = (self.r_rdata(S, I, O) >> (ol * self.k)) & ((1 << self.k) - 1)
                if got2 != (0x5A5A5A5A5A5A5A5A & ((1 << self.k) - 1)):
                    self.report("ecc.data_corrupted", "other lane read back %x (flip mask %x there: %d flipped bit(s))" % (got2, f2, nflip2), nflip=nflip2)
            self.cov["reads"] = self.cov.get("reads", 0) + 1
            rg += 1
            if rg == self.nreads: ph = 5; delay = 0
        elif ph == 5:
            delay += 1
            if delay == 3:
                sec, ded, wee = self.r_sec(S, I, O), self.r_ded(S, I, O), self.r_weerr(S, I, O)
                if f2:
                    # two ECC words of the same beat are faulty: each is judged on its own (single flips here avoid the one uncounted position)
                    if 1 in (nflip, nflip2) and sec != self.nreads:
                        self.report("ecc.single_not_counted", "one ECC word of the beat has a single flip (masks %x / %x) but sec_errors = %d after %d read(s)" % (f, f2, sec, self.nreads), nflip=1)
                    if 2 in (nflip, nflip2) and ded != self.nreads:
                        self.report("ecc.double_not_flagged", "one ECC word of the beat has a double flip (masks %x / %x) but ded_errors = %d after %d read(s)" % (f, f2, ded, self.nreads), nflip=2)
                    if 2 not in (nflip, nflip2) and ded:
                        self.report("ecc.single_reported_uncorrectable", "single flips only (masks %x / %x) but ded_errors = %d" % (f, f2, ded), nflip=1)
                elif nflip == 0:
                    # after a partial write some ECC word of the location was never (completely) written through the port: what an unwritten
                    # word decodes to is not specified (an all-zero word need not be a valid stored codeword), so only full writes are judged here
                    if (sec or ded) and not partial: self.report("ecc.false_alarm", "clean word reported sec=%d ded=%d" % (sec, ded), nflip=0)
                elif nflip == 1:
                    if ded: self.report("ecc.single_reported_uncorrectable", "single flip %x counted as uncorrectable" % f, nflip=1)
                    if not sec:
                        self.parity_candidates.add(f)
                        if len(self.parity_candidates) > 1:
                            self.report("ecc.single_not_counted", "single flips at more than one codeword position are not counted as corrected: %s" % sorted(hex(x) for x in self.parity_candidates), nflip=1)
                    elif sec != self.nreads: self.report("ecc.single_miscounted", "%d corrected read words counted as %d" % (self.nreads, sec), nflip=1)
                else:
                    if not ded: self.report("ecc.double_not_flagged", "double flip %x: ded=%d sec=%d (reported %s)" % (f, ded, sec, "clean" if not sec else "corrected"), nflip=2)
                    elif ded != self.nreads: self.report("ecc.double_miscounted", "%d uncorrectable read words counted as %d" % (self.nreads, ded), nflip=2)
                    if sec and not ded: pass
                if partial and not wee: self.report("ecc.partial_write_not_reported", "write with byte enables %x (not all bytes of the ECC word) was not reported as a granularity error" % we, kind="we_partial")
                if not partial and wee: self.report("ecc.full_write_reported", "full write (byte enables %x) counted as a granularity error (%d times)" % (we, wee), kind="we_full")
                self.cov["judged"] = self.cov.get("judged", 0) + 1
                if nflip or partial: self.cov["judged_nontrivial"] = self.cov.get("judged_nontrivial", 0) + 1
                ph = 9
        ev = 0
        coop = go == 1 and rch == self.default_resp(rs)
        if coop and ph < 5: ev |= EV_OUT
        if prog: ev |= EV_PROG
        return (ph, ci, hold, cdone, ddone, delay, rs2, ri, rg), ev

    def coverage(self):
        d = dict(self.cov); d["codeword_positions_not_counted_as_sec"] = sorted(hex(x) for x in self.parity_candidates)
        return d


def build(**kw): return EccHarness(**kw)

LIVE = [("write and read-back complete (cooperative environment)", EV_OUT, EV_PROG)]


def configs(tier):
    cs = []
    def add(name, live=False, **kw): cs.append((name, kw, live))
    add("enum-k8", k=8, tier=tier)
    add("enum-k8-burst2-lane1", k=8, burst=2, lane_sel=1, tier="quick")
    add("enum-k16", k=16, tier=tier)
    # faults in two ECC words of the same beat (each word is judged on its own): single/double flips in lane 0 x single/double flips in lane 1
    fl = [1 << 2, 1 << 6, (1 << 2) | (1 << 9), (1 << 4) | (1 << 11)]
    add("enum-k8-burst2-twolanes", k=8, burst=2, case_list=[(d, a, 3, b) for d in (0xA7, 0x00, 0xFF) for a in fl for b in fl])
    add("enum-k16-burst2-twolanes", k=16, burst=2, case_list=[(0xBEEF, a, 15, b) for a in fl for b in fl])
    if tier == "thorough":
        add("enum-k32", k=32, tier=tier)
        add("enum-k64", k=64, tier="quick")
    # handshake-timing BFS on a small case list incl. partial writes (k=16: two byte enables per ECC word)
    small8 = [(0xA7, 0, 1), (0xA7, 1 << 0, 1), (0xA7, 1 << 5, 1), (0x3C, (1 << 2) | (1 << 9), 1)]
    add("timing-k8", live=True, k=8, timing_free=True, case_list=small8)
    small16 = [(0xBEEF, 0, 3), (0xBEEF, 0, 1), (0xBEEF, 0, 2), (0x1234, 1 << 7, 3), (0x1234, (1 << 3) | (1 << 20), 3)]
    add("timing-k16-partial", live=True, k=16, timing_free=True, case_list=small16)
    add("timing-k8-2reads-back-to-back", live=True, k=8, timing_free=True, nreads=2, case_list=[(0xC3, 1 << 3, 1), (0xC3, (1 << 1) | (1 << 7), 1), (0xC3, 0, 1)])
    add("timing-k8-burst2-partial", live=True, k=8, burst=2, timing_free=True, case_list=[(0x5C, 0, 3), (0x5C, 0, 1), (0x5C, 1 << 4, 3)])
    return cs


def run(tier, seed, only=None):
    t0 = time.time()
    jobs = []
    for name, kw, live in configs(tier):
        if only and only not in name: continue
        jobs.append((runner.mc_run, (PROP, "checks.c15", "build", kw), dict(name=name, tier=tier, seed=seed, max_states=6_000_000, liveness=LIVE if live else ())))
    res = runner.run_jobs(jobs)
    return runner.finish(PROP, tier, seed, "model_checking", res, t0, ASSUME, RULE, technique="exhaustive fault enumeration through the elaborated ECC port netlist + explicit-state BFS over handshake timing")
