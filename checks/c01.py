"""C01 - every read returns the last bytes written (whole core)."""
import time
from engine import runner

PROP = "C01"
ASSUME = [
    "master holds each command until accepted, offers write data with the command and holds it, always accepts read data (the statement's assumptions; built into the driver)",
    "PHY contract: wrdata sampled write_latency cycles after wrdata_en, rddata returned read_latency cycles after rddata_en",
    "data independence: control never inspects data, so tags {0,1} at one watched byte + a distinct tag for all other writes distinguish every write (DESIGN 3.5); every (address, lane) of the alphabet is watched in its own run",
    "address alphabet: 2 banks x 2 rows x 1-2 columns; K commands per port; compiled step conforms to migen's evaluator (replayed every run)",
]
RULE = ("BFS over all command sequences (alphabet R/W x addresses x byte-enables x tags), all issue times and port interleavings, refresh at every explored timer phase; "
        "a state is non-trivial if it differs from reset (all are distinct product states)")

SDR = dict(nphases=1, memtype="SDR", databits=16, colbits=8)
DDR2 = dict(nphases=2, memtype="DDR2", databits=8, colbits=10, cl=3, cwl=2, RL=3, WL=0)
DDR = dict(nphases=2, memtype="DDR", databits=8, colbits=10, cl=3, cwl=None, RL=3, WL=0)
LPDDR = dict(nphases=2, memtype="LPDDR", databits=8, colbits=10, cl=3, cwl=None, RL=3, WL=0)
DDR4 = dict(nphases=4, memtype="DDR4", databits=8, colbits=10, cl=9, cwl=9, RL=4, WL=2, timing=dict(tRP=2, tRCD=2, tWR=2, tWTR=2, tRFC=4, tCCD=1, tRC=5, tRAS=3, tREFI=100))
DDR3 = dict(nphases=4, memtype="DDR3", databits=8, colbits=10, cl=6, cwl=5, RL=3, WL=1, timing=dict(tRP=2, tRCD=2, tWR=2, tWTR=2, tRFC=4, tCCD=1, tRC=5, tRAS=3, tREFI=100))


def configs(tier):
    cs = []
    def add(name, max_states=3_000_000, **kw):
        cs.append((name, kw, max_states))
    if tier == "quick":
        for w in [(0, 0), (0, 1), (1, 0), (2, 1)]:
            add("sdr-1p-K3-norefresh-w%d.%d" % w, refresh=False, K=3, watch=w, **SDR)
        add("sdr-1p-K3-buffered-norefresh-w0.1", refresh=False, K=3, buffered=True, watch=(0, 1), **SDR)
        add("sdr-1p-K3-depth1-norefresh-w0.1", refresh=False, K=3, depth=1, watch=(0, 1), **SDR)     # 1-deep look-ahead is a stream.Buffer, not a FIFO
        add("sdr-1p-K3-depth0-norefresh-w0.0", refresh=False, K=3, depth=0, watch=(0, 0), **SDR)     # no look-ahead at all
        add("sdr-2p-K2-depth1-norefresh-w0.0", refresh=False, K=2, depth=1, nports=2, watch=(0, 0), rows=(0,), wes=[3, 1], **SDR)
        add("sdr1:2-1p-K3-norefresh-w0.1", refresh=False, K=3, watch=(0, 1), nphases=2, memtype="SDR", databits=16, colbits=8)   # half-rate SDR PHY (gensdrphy): BL2
        add("sdr-1p-K5-reads-norefresh-w0.0", refresh=False, K=5, rd_only=True, watch=(0, 0), **SDR)
        add("sdr-1p-K2-refresh-W12-w0.0", refresh=True, K=2, window=12, watch=(0, 0), **SDR)
        add("sdr-1p-K2-refresh-W12-w1.1", refresh=True, K=2, window=12, watch=(1, 1), **SDR)
        add("sdr-1p-K3-noap-norefresh-w0.1", refresh=False, K=3, ap=False, watch=(0, 1), **SDR)
        add("sdr-2p-K2-norefresh-w0.0", refresh=False, K=2, nports=2, watch=(0, 0), rows=(0,), wes=[3, 1], **SDR)
        add("sdr-2p-K2-norefresh-w1.1", refresh=False, K=2, nports=2, watch=(1, 1), banks=(0,), wes=[3, 2], **SDR)
        add("ddr2x2-1p-K3-norefresh-w1.2", refresh=False, K=3, watch=(1, 2), wes=[15, 4], **DDR2)      # 1:2 rate
        add("ddr3x4-sigphases-rd2wr1-1p-K3-norefresh-w1.2", refresh=False, K=3, watch=(1, 2), wes=[255, 4], rdphase=2, wrphase=1, phase_signals=True, **DDR3)   # phases given as Signals
        add("ddr3x4-1p-K3-norefresh-w0.0", refresh=False, K=3, watch=(0, 0), wes=[255, 1], **DDR3)
        add("ddr3x4-1p-K3-norefresh-w3.5", refresh=False, K=3, watch=(3, 5), wes=[255, 32], **DDR3)
        add("ddr3x4-1p-K2-refresh-W10-w1.2", refresh=True, K=2, window=10, watch=(1, 2), wes=[255, 4], **DDR3)
    else:
        for a in range(4):
            for l in range(2):
                add("sdr-1p-K4-norefresh-w%d.%d" % (a, l), refresh=False, K=4, watch=(a, l), **SDR)
        for w in [(0, 0), (1, 1), (2, 0), (3, 1)]:
            add("sdr-1p-K3-refresh-W25-w%d.%d" % w, refresh=True, K=3, window=25, watch=w, **SDR)
        for w in [(0, 0), (1, 1)]:
            add("sdr-2p-K3-norefresh-w%d.%d" % w, refresh=False, K=3, nports=2, watch=w, wes=[3, 1 << w[1]], **SDR)
            add("sdr-1p-K4-buffered-d4-w%d.%d" % w, refresh=False, K=4, buffered=True, depth=4, watch=w, **SDR)
            add("sdr-2rank-1p-K3-w%d.%d" % w, refresh=False, K=3, nranks=2, bankbits=1, banks=(0, 2), watch=w, **SDR)
        for (nm, cfg) in (("ddr", DDR), ("lpddr", LPDDR), ("ddr2", DDR2)):
            for w in [(0, 0), (3, 3)]:
                add("%sx2-1p-K3-norefresh-w%d.%d" % ((nm,) + w), refresh=False, K=3, watch=w, wes=[15, 1 << w[1]], **cfg)
            add("%sx2-1p-K2-refresh-W12-w1.1" % nm, refresh=True, K=2, window=12, watch=(1, 1), wes=[15, 2], **cfg)
        for w in [(0, 0), (2, 5)]:
            add("ddr4x4-1p-K3-norefresh-w%d.%d" % w, refresh=False, K=3, watch=w, wes=[255, 1 << w[1]], **DDR4)
        add("sdr-3p-K1-norefresh-w0.0", refresh=False, K=1, nports=3, watch=(0, 0), rows=(0,), wes=[3, 1], **SDR)
        add("sdr-4p-K1-norefresh-w1.1", refresh=False, K=1, nports=4, watch=(1, 1), banks=(0,), wes=[3, 2], **SDR)
        add("sdr-2p-K2-depth1-refresh-W10-w0.1", refresh=True, K=2, window=10, nports=2, depth=1, watch=(0, 1), rows=(0,), wes=[3, 2], **SDR)
        for w in [(0, 0), (1, 3), (2, 6), (3, 7)]:
            add("ddr3x4-1p-K4-norefresh-w%d.%d" % w, refresh=False, K=4, watch=w, wes=[255, 1 << w[1]], **DDR3)
            add("ddr3x4-1p-K3-refresh-W20-w%d.%d" % w, refresh=True, K=3, window=20, watch=w, wes=[255, 1 << w[1]], **DDR3)
    return cs


def run(tier, seed, only=None):
    t0 = time.time()
    jobs = []
    for name, kw, ms in configs(tier):
        if only and only not in name: continue
        jobs.append((runner.mc_run, (PROP, "checks.core", "build", kw), dict(name=name, tier=tier, seed=seed, max_states=ms)))
    res = runner.run_jobs(jobs)
    return runner.finish(PROP, tier, seed, "model_checking", res, t0, ASSUME, RULE, technique="explicit-state BFS of the elaborated netlist + DRAM reference/scoreboard")
