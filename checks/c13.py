"""C13 - DRAM-backed FIFO is lossless, ordered and bounded."""
import time
from engine import runner, fhdl
from engine.explore import Harness, Violation
from checks.responder import Responder

PROP = "C13"
ASSUME = [
    "producer follows the stream protocol and sends sequence numbers mod M (M larger than twice the total buffering: loss, duplication and re-ordering are all visible); consumer ready is free",
    "the two native ports (write, read) sit on one responder memory with acceptance-order semantics per address (what C01 establishes for the real core); strobes >= 3 / >= 6 cycles after acceptance",
    "DRAM-FIFO core (_LiteDRAMFIFO) explored with its internal DMA FIFOs shrunk to 2 entries so that the graph closes with every timing free; the complete LiteDRAMFIFO (pre/post FIFOs, converters, bypass FSM, "
    "16-entry DMA FIFOs as shipped) explored with a budget of D deviations from the default environment (producer always valid, consumer always ready, memory answers at the earliest legal cycle)",
]
RULE = ("BFS over producer gaps x consumer stalls x cmd.ready stalls (both ports) x memory latencies; oracle: output word k == input word k (value and order), no output without input, "
        "never more than `depth` DRAM words live, no live word overwritten, no dead word read; liveness under a cooperative environment: everything sent comes out")

EV_OUT = 1; EV_PROG = 2


class FifoHarness(Harness):
    def __init__(self, kind="core", depth=2, dw=16, port_dw=16, M=16, bypass=False, dma_depth=2, pre=2, post=2, D=None, nwords=None, base=0,
                 wmin=3, rmin=6, qmax=3):
        from litedram.common import LiteDRAMNativePort
        from litedram.frontend import fifo as ff
        wp = LiteDRAMNativePort("write", 5, port_dw); rp = LiteDRAMNativePort("read", 5, port_dw)
        self.depth = depth; self.M = M; self.D = D; self.nwords = nwords; self.dw = dw
        self.base_word = base
        if kind == "core":
            dut = ff._LiteDRAMFIFO(port_dw, base, depth, wp, rp, writer_fifo_depth=dma_depth, reader_fifo_depth=dma_depth)
            self.addr_lo, self.addr_hi = base, base + depth
        else:
            nbytes = port_dw // 8
            dut = ff.LiteDRAMFIFO(dw, base * nbytes, depth * nbytes, wp, rp, with_bypass=bypass, pre_fifo_depth=pre, post_fifo_depth=post)
            self.addr_lo, self.addr_hi = base, base + depth
        self.dut = dut
        self.pc_regs = None
        if kind != "core" and bypass and port_dw != dw:
            # pre-converter occupancy registers (anonymous sub-module of stream.Converter), located structurally before finalization:
            # first sync statement clears `strobe_all`, the second assigns {demux, strobe_all}
            from migen.fhdl.tools import list_targets
            conv = dut.pre_converter._submodules[0][1]
            st = conv._fragment.sync["sys"]
            strobe_all = list(list_targets([st[0]]))[0]
            demux = [x for x in list_targets([st[1]]) if x is not strobe_all][0]
            self.pc_regs = (demux, strobe_all)
        dut.finalize()                      # FSM state registers exist only after finalization
        reads = Responder.reads([wp, rp]) + [dut.sink.ready, dut.source.valid, dut.source.data]
        self.fsm_state = None
        if kind != "core" and bypass:
            reads.append(dut.fsm.state)
            self.pump_code = dut.fsm.encoding["PUMP_PRECONVERTER"]; self.dram_code = dut.fsm.encoding["DRAM"]
            if self.pc_regs: reads += list(self.pc_regs)
        self.c = c = fhdl.compile_harness(dut, reads)
        self.resp = Responder(c, [wp, rp], wmin=wmin, rmin=rmin, qmax=qmax, addr_ok=lambda p, a: self.addr_lo <= a < self.addr_hi)
        ii = c.ii
        self.i_valid = ii[dut.sink.valid]; self.i_data = ii[dut.sink.data]; self.i_ready = ii[dut.source.ready]
        self.r_sready = c.rd(dut.sink.ready); self.r_valid = c.rd(dut.source.valid); self.r_data = c.rd(dut.source.data)
        self.r_fsm = c.rd(dut.fsm.state) if (kind != "core" and bypass) else None
        self.r_pc = [c.rd(x) for x in self.pc_regs] if self.pc_regs else None
        self.g_fsm = c.getter(dut.fsm.state) if (kind != "core" and bypass) else None
        self.base = list(c.base_inputs)
        self.cov = {}

    def word(self, seq):
        m = (1 << self.dw) - 1
        return ((seq & 0xff) | ((~seq & 0xff) << 8) | (seq << 16)) & m if self.dw > 8 else (seq | 0x80) & m

    def env0(self):
        # (producer holding, next seq to send, words sent total (bounded runs), next expected seq, live addresses, deviations left, responder)
        return (0, 0, 0, 0, (), self.D if self.D is not None else -1, self.resp.init(), 1, 1, 0)      # ..., producer mode (1 = sending), consumer mode (1 = ready), bypass FSM has padded a partial DRAM word

    def default_resp(self, rs):
        el = self.resp.eligible(rs[0])
        return (3 if len(rs[0]) < self.resp.qmax else 0, (el[0],) if el else ())

    def default_choice(self, E):
        """default environment answer: producer and consumer keep their current mode (sending / ready), memory answers at the
        earliest legal cycle.  In deviation-bounded runs a deviation is a *mode change* of the producer or of the consumer (so a
        long stall costs two deviations, not one per cycle) or one non-default memory answer."""
        hold, seq, sent, exp, live, dev, rs, pm, cm, pumped = E
        can_send = self.nwords is None or sent < self.nwords
        return (1 if (hold or (can_send and pm)) else 0, cm, self.default_resp(rs))

    def menu(self, S, E):
        hold, seq, sent, exp, live, dev, rs, pm, cm, pumped = E
        dflt = self.default_choice(E)
        if dev == 0: return [dflt]
        can_send = self.nwords is None or sent < self.nwords
        pv = (1,) if hold else ((1, 0) if can_send else (0,))
        out = [dflt]
        if dev < 0:
            for v in pv:
                for cr in (1, 0):
                    for r in self.resp.menu(rs):
                        ch = (v, cr, r)
                        if ch != dflt: out.append(ch)
            return out
        # deviation-bounded: change exactly one thing
        for v in pv:
            if v != dflt[0]: out.append((v, dflt[1], dflt[2]))
        out.append((dflt[0], 1 - dflt[1], dflt[2]))
        for r in self.resp.menu(rs):
            if r != dflt[2]: out.append((dflt[0], dflt[1], r))
        return out

    def describe(self, ch):
        v, cr, (rb, serve) = ch
        return "valid=%d ready=%d | cmd.ready(w,r)=%d%d serve=%s" % (v, cr, rb & 1, rb >> 1, list(serve))

    def drive(self, S, E, ch):
        hold, seq, sent, exp, live, dev, rs, pm, cm, pumped = E
        v, cr, rch = ch
        I = list(self.base)
        if v:
            I[self.i_valid] = 1; I[self.i_data] = self.word(seq)
        I[self.i_ready] = cr
        self.resp.drive(rs, rch, I)
        return tuple(I)

    def observe(self, S, E, ch, I, O, S2):
        hold, seq, sent, exp, live, dev, rs, pm, cm, pumped = E
        v, cr, rch = ch
        if dev > 0 and ch != self.default_choice(E): dev -= 1
        if dev >= 0:
            if not hold: pm = v if (self.nwords is None or sent < self.nwords) else pm
            cm = cr
        rs2, evs = self.resp.observe(rs, rch, S, I, O)
        prog = False
        live = list(live)
        for e in evs:
            if e[0] == "w":
                a = e[2]
                if a in live: self.report("fifo.overwrite_unread", "DRAM word %d overwritten before it was read" % a)
                else: live.append(a)
                self.cov["dram_writes"] = self.cov.get("dram_writes", 0) + 1
                self.cov["dram_addr_%d_written" % a] = 1
                self.cov["max_live"] = max(self.cov.get("max_live", 0), len(live))
                if len(live) > self.depth: self.report("fifo.level_exceeds_depth", "%d DRAM words live, depth %d" % (len(live), self.depth))
                if e[4] != (1 << (len(self.resp.ports[0].wdata.we))) - 1: self.report("fifo.partial_write", "write with byte enables %x" % e[4])
                prog = True
            elif e[0] == "r":
                a = e[2]
                if a not in live: self.report("fifo.read_dead_word", "DRAM word %d read although it holds no unread data" % a)
                else: live.remove(a)
                prog = True
        hold2 = hold
        if v:
            if self.r_sready(S, I, O):
                seq = (seq + 1) % self.M; sent += 1 if self.nwords is not None else 0; hold2 = 0; prog = True
            else:
                hold2 = 1
        if cr and self.r_valid(S, I, O):
            d = self.r_data(S, I, O)
            if d != self.word(exp):
                # an all-zero word is never sent by the producer: it is an inserted word, the expected sequence does not advance
                kind = "inserted_zero_word" if d == 0 else "other"
                self.report("fifo.stream_mismatch", "output word %x, expected word #%d = %x (lost, duplicated, inserted or re-ordered)" % (d, exp, self.word(exp)),
                            kind=kind, left_dram_mode_with_data_in_preconverter=bool(pumped))
                if kind != "inserted_zero_word": exp = (exp + 1) % self.M
            else:
                exp = (exp + 1) % self.M
            prog = True
            self.cov["words_out"] = self.cov.get("words_out", 0) + 1
        ev = 0
        coop = cr == 1 and rch == self.default_resp(rs)
        if coop and (seq != exp): ev |= EV_OUT
        if prog: ev |= EV_PROG
        # history flag of the recorded finding: the bypass FSM leaves DRAM mode while the pre-converter still holds data (a partial or a
        # complete DRAM word): its bookkeeping (dram_cnt / *_mod counters) does not see that data
        if self.r_pc is not None and self.r_fsm(S, I, O) == self.dram_code and self.g_fsm(S2) != self.dram_code:
            if self.r_pc[0](S, I, O) != 0 or self.r_pc[1](S, I, O) != 0: pumped = 1
        return (hold2, seq, sent, exp, tuple(sorted(live)), dev, rs2, pm, cm, pumped), ev

    def coverage(self): return dict(self.cov)


def build(**kw): return FifoHarness(**kw)

LIVE = [("everything sent comes out (cooperative environment)", EV_OUT, EV_PROG)]


def configs(tier):
    cs = []
    def add(name, max_states=3_000_000, live=True, **kw): cs.append((name, kw, max_states, live))
    if tier == "quick":
        add("core-depth2-dma2", kind="core", depth=2, dma_depth=2, M=16)
        add("core-depth3-base4-dma2-D3", kind="core", depth=3, dma_depth=2, M=16, base=4, D=3, live=False)
        add("full-nobypass-depth2-D3", kind="full", depth=2, bypass=False, D=3, nwords=14, M=32, live=False)
        add("full-bypass-depth2-D4", kind="full", depth=2, bypass=True, D=4, nwords=14, M=32, live=False)
        add("full-bypass-ratio2-depth2-D3", kind="full", depth=2, bypass=True, dw=8, port_dw=16, D=3, nwords=20, M=64, pre=4, post=4, live=False)
    else:
        add("core-depth2-dma2", kind="core", depth=2, dma_depth=2, M=16)
        add("core-depth3-base4-dma2", kind="core", depth=3, dma_depth=2, M=16, base=4, max_states=6_000_000)
        add("core-depth4-dma2-D4", kind="core", depth=4, dma_depth=2, M=32, D=4, live=False)
        add("full-nobypass-depth2-D5", kind="full", depth=2, bypass=False, D=5, nwords=16, M=32, live=False)
        add("full-bypass-depth2-D6", kind="full", depth=2, bypass=True, D=6, nwords=16, M=32, live=False)
        add("full-bypass-depth4-D5", kind="full", depth=4, bypass=True, D=5, nwords=24, M=64, live=False)
        add("full-bypass-ratio2-depth2-D5", kind="full", depth=2, bypass=True, dw=8, port_dw=16, D=5, nwords=24, M=64, pre=4, post=4, live=False)
        add("full-bypass-ratio4-depth2-D4", kind="full", depth=2, bypass=True, dw=8, port_dw=32, D=4, nwords=32, M=128, pre=8, post=8, live=False)
    return cs


def run(tier, seed, only=None):
    t0 = time.time()
    jobs = []
    for name, kw, ms, live in configs(tier):
        if only and only not in name: continue
        jobs.append((runner.mc_run, (PROP, "checks.c13", "build", kw), dict(name=name, tier=tier, seed=seed, max_states=ms, liveness=LIVE if live else ())))
    res = runner.run_jobs(jobs)
    return runner.finish(PROP, tier, seed, "model_checking", res, t0, ASSUME, RULE, technique="explicit-state BFS (closed graph for the FIFO core; deviation-bounded for the full FIFO) with stream scoreboard")
