"""C03 - datasheet timing minimums on the DRAM bus (whole core, spacing monitor in DRAM clocks)."""
import time
from engine import runner, fhdl
from engine.explore import Harness, Violation

PROP = "C03"
ASSUME = [
    "controller TimingSettings are produced by LiteDRAM's own SDRAMModule from the module description; the monitor's requirements are computed independently from the same datasheet numbers: max(ck, ceil(ns/tCK)) DRAM clocks",
    "write recovery / write-to-read are counted from the end of the write burst (CWL + BL/2 after the WR command; SDR BL=1: from the command clock)",
    "auto-precharge: the internal precharge is placed at the earliest instant the datasheet allows (least demanding reading); tRTP is not listed by the property and not enforced",
    "masters hold commands; K commands per port; unaddressed banks idle; refresh interval overridden to ~100 cycles (its value is judged by C04/C16, not here)",
]
RULE = ("BFS over all command sequences/issue times/refresh phases; on every DFI command the age (DRAM clocks incl. phase) of each earlier conflicting command is compared with "
        "tRCD,tRP,tRAS,tRC,tRRD,tFAW,tCCD,tWR,tWTR,tRFC,tZQCS; 'tight:<rule>' counts how often a rule was met with zero slack")


def syn(memtype, clk, tech, speed, **kw):
    return dict(dict(clk=clk, tech=tech, speed=speed, trefi_override=100), **kw)

# SDR-like synthetic part at 100 MHz (tCK = 10 ns): every timer binds at 2-7 cycles
SDR_A = dict(nphases=1, memtype="SDR", databits=16, colbits=8,
             module=syn("SDR", 100e6, dict(tREFI=1000.0, tWTR=[2, None], tCCD=[1, None], tRRD=[None, 20.0]),
                        dict(tRP=20.0, tRCD=20.0, tWR=20.0, tRFC=[None, 40.0], tFAW=None, tRAS=30.0)))
# same with a long tRAS/tRC (row must stay open well beyond tRCD + a column command)
SDR_B = dict(nphases=1, memtype="SDR", databits=16, colbits=8,
             module=syn("SDR", 100e6, dict(tREFI=1000.0, tWTR=[2, None], tCCD=[1, None], tRRD=[None, 20.0]),
                        dict(tRP=20.0, tRCD=20.0, tWR=30.0, tRFC=[None, 60.0], tFAW=None, tRAS=70.0)))
SDR_FAW = dict(nphases=1, memtype="SDR", databits=16, colbits=8, bankbits=3, banks=(0, 1, 2, 3, 4), rows=(0,),
               module=syn("SDR", 100e6, dict(tREFI=1000.0, tWTR=[2, None], tCCD=[1, None], tRRD=[None, 20.0]),
                          dict(tRP=20.0, tRCD=20.0, tWR=20.0, tRFC=[None, 40.0], tFAW=[None, 120.0], tRAS=30.0)))
# DDR3-like part through the 1:4 rate (CL6/CWL5 -> rdphase 2, wrphase 3)
def ddr3(mhz, **kw):
    d = dict(nphases=4, memtype="DDR3", databits=8, colbits=10, cl=6, cwl=5, RL=3, WL=1,
             module=syn("DDR3", mhz * 1e6, dict(tREFI=1000.0, tWTR=[4, 7.5], tCCD=[4, None], tRRD=[4, 10.0]),
                        dict(tRP=13.75, tRCD=13.75, tWR=15.0, tRFC=[None, 60.0], tFAW=[None, 40.0], tRAS=35.0)))
    d.update(kw); return d
# DDR3 behind a half-rate (1:2) PHY: BL8 -> tCCD = 4 clocks = 2 controller cycles = nphases
DDR3_HALF = dict(nphases=2, memtype="DDR3", databits=8, colbits=10, cl=6, cwl=5, RL=3, WL=1,
                 module=syn("DDR3", 100e6, dict(tREFI=1000.0, tWTR=[4, 7.5], tCCD=[4, None], tRRD=[4, 10.0]),
                            dict(tRP=13.75, tRCD=13.75, tWR=15.0, tRFC=[None, 60.0], tFAW=[None, 40.0], tRAS=35.0)))
def ddr2(mhz, **kw):
    d = dict(nphases=2, memtype="DDR2", databits=8, colbits=10, cl=3, cwl=2, RL=3, WL=0,
             module=syn("DDR2", mhz * 1e6, dict(tREFI=1000.0, tWTR=[None, 7.5], tCCD=[2, None], tRRD=[None, 10.0]),
                        dict(tRP=15.0, tRCD=15.0, tWR=15.0, tRFC=[None, 50.0], tFAW=None, tRAS=40.0)))
    d.update(kw); return d


def configs(tier):
    cs = []
    def add(name, max_states=3_000_000, **kw):
        kw.setdefault("watch", None); kw.setdefault("queue_check", False); kw["timing_mon"] = True
        cs.append((name, kw, max_states))
    if tier == "quick":
        add("sdrA-1p-K3-norefresh", refresh=False, K=3, **SDR_A)
        add("sdrA-1p-K2-refresh-W25", refresh=True, K=2, window=25, **SDR_A)
        add("sdrA-1p-K2-noap-refresh-W25", refresh=True, K=2, window=25, ap=False, **SDR_A)
        add("sdrB-1p-K3-norefresh", refresh=False, K=3, **SDR_B)
        add("sdrB-1p-K2-refresh-W25", refresh=True, K=2, window=25, **SDR_B)
        add("sdrA-2p-K2-norefresh", refresh=False, K=2, nports=2, banks=(0,), **SDR_A)
        add("sdrA-2p-K2-2banks-1row-norefresh", refresh=False, K=2, nports=2, rows=(0,), **SDR_A)
        add("ddr3x4-100MHz-1p-K3-norefresh", refresh=False, K=3, **ddr3(100))
        add("ddr3x4-100MHz-1p-K2-refresh-W20", refresh=True, K=2, window=20, **ddr3(100))
        add("ddr3x4-200MHz-1p-K3-norefresh", refresh=False, K=3, **ddr3(200))
        add("ddr3x4-200MHz-1p-K2-refresh-W20", refresh=True, K=2, window=20, **ddr3(200))
        add("ddr2x2-133MHz-1p-K3-norefresh", refresh=False, K=3, **ddr2(133))
        add("ddr3x2-100MHz-1p-K3-1row-norefresh", refresh=False, K=3, rows=(0,), cols=(0, 8), **DDR3_HALF)
        add("ddr2x2-133MHz-1p-K2-refresh-W20", refresh=True, K=2, window=20, **ddr2(133))
    else:
        add("sdrFAW-1p-K5-norefresh", refresh=False, K=5, wr_only=True, **SDR_FAW)
        add("sdrA-2p-K2-2cols-norefresh", refresh=False, K=2, nports=2, rows=(0,), cols=(0, 5), **SDR_A)
        add("sdrA-1p-K4-norefresh", refresh=False, K=4, **SDR_A)
        add("sdrA-1p-K3-refresh-W40", refresh=True, K=3, window=40, **SDR_A)
        add("sdrB-1p-K4-norefresh", refresh=False, K=4, **SDR_B)
        add("sdrB-1p-K3-refresh-W40", refresh=True, K=3, window=40, **SDR_B)
        add("sdrA-2p-K2-refresh-W20", refresh=True, K=2, window=20, nports=2, **SDR_A)
        add("sdrA-2p-K3-norefresh", refresh=False, K=3, nports=2, **SDR_A)
        for mhz in (100, 125, 200):
            add("ddr3x4-%dMHz-1p-K4-norefresh" % mhz, refresh=False, K=4, **ddr3(mhz))
            add("ddr3x4-%dMHz-1p-K3-refresh-W30" % mhz, refresh=True, K=3, window=30, **ddr3(mhz))
        add("ddr3x4-100MHz-4bank-1p-K5-norefresh", refresh=False, K=5, bankbits=2, banks=(0, 1, 2, 3), rows=(0,), **ddr3(100))
        for mhz in (100, 133, 200):
            add("ddr2x2-%dMHz-1p-K4-norefresh" % mhz, refresh=False, K=4, **ddr2(mhz))
            add("ddr2x2-%dMHz-1p-K3-refresh-W30" % mhz, refresh=True, K=3, window=30, **ddr2(mhz))
        add("sdrFAW-1p-K6-norefresh", refresh=False, K=6, wr_only=True, **SDR_FAW)
        # library modules with their real datasheet entries (restricted address alphabet; unaddressed banks idle)
        add("lib-MT48LC4M16-100MHz-K3-refresh-W30", refresh=True, K=3, window=30, nphases=1, memtype="SDR", databits=16, colbits=8, bankbits=2,
            module=dict(lib="MT48LC4M16", clk=100e6, trefi_override=100))
        add("lib-MT48LC4M16-143MHz-K3-refresh-W30", refresh=True, K=3, window=30, nphases=1, memtype="SDR", databits=16, colbits=8, bankbits=2, cl=3,
            module=dict(lib="MT48LC4M16", clk=143e6, trefi_override=100))
        add("lib-MT47H64M16-1:2-133MHz-K3-refresh-W30", refresh=True, K=3, window=30, nphases=2, memtype="DDR2", databits=8, colbits=10, bankbits=3, cl=3, cwl=2, RL=3, WL=0,
            module=dict(lib="MT47H64M16", clk=133e6, trefi_override=120))
        add("lib-MT41K128M16-1:4-100MHz-K3-refresh-W30", refresh=True, K=3, window=30, nphases=4, memtype="DDR3", databits=8, colbits=10, bankbits=3, cl=6, cwl=5, RL=3, WL=1,
            module=dict(lib="MT41K128M16", clk=100e6, trefi_override=120))
        add("lib-MT41K128M16-1:4-200MHz-K3-refresh-W30", refresh=True, K=3, window=30, nphases=4, memtype="DDR3", databits=8, colbits=10, bankbits=3, cl=11, cwl=8, RL=5, WL=1,
            module=dict(lib="MT41K128M16", clk=200e6, speedgrade="1600", trefi_override=140))
        # further library modules / memory types / rates (the cycle counts themselves are judged against the datasheets by C16)
        add("lib-IS42S16160-100MHz-K3-refresh-W30", refresh=True, K=3, window=30, nphases=1, memtype="SDR", databits=16, colbits=9, bankbits=2,
            module=dict(lib="IS42S16160", clk=100e6, trefi_override=100))
        add("lib-IS42S16160-1:2-50MHz-K3-refresh-W30", refresh=True, K=3, window=30, nphases=2, memtype="SDR", databits=16, colbits=9, bankbits=2,
            module=dict(lib="IS42S16160", clk=50e6, trefi_override=100))
        add("lib-MT46V32M16-1:2-100MHz-K3-refresh-W30", refresh=True, K=3, window=30, nphases=2, memtype="DDR", databits=8, colbits=10, bankbits=2, cl=3, RL=3, WL=0,
            module=dict(lib="MT46V32M16", clk=100e6, trefi_override=120))
        add("lib-MT46H32M16-1:2-100MHz-K3-refresh-W30", refresh=True, K=3, window=30, nphases=2, memtype="LPDDR", databits=8, colbits=10, bankbits=2, cl=3, RL=3, WL=0,
            module=dict(lib="MT46H32M16", clk=100e6, trefi_override=120))
        add("lib-MT47H128M8-1:2-166MHz-K3-refresh-W30", refresh=True, K=3, window=30, nphases=2, memtype="DDR2", databits=8, colbits=10, bankbits=3, cl=5, cwl=4, RL=3, WL=0,
            module=dict(lib="MT47H128M8", clk=166e6, trefi_override=140))
        add("lib-MT40A512M16-1:4-200MHz-K3-refresh-W30", refresh=True, K=3, window=30, nphases=4, memtype="DDR4", databits=8, colbits=10, bankbits=3, cl=11, cwl=9, RL=5, WL=2,
            module=dict(lib="MT40A512M16", clk=200e6, trefi_override=160))
    return cs


class TimingCtlHarness(Harness):
    """The multiplexer's activate gate on its own: tXXDController(tRRD) + tFAWController(tFAW) wired as in core/multiplexer.py
    (both see the same `valid`; an ACTIVATE is only issued while both are ready).  Every activate pattern the gate admits, unbounded."""
    def __init__(self, trrd=None, tfaw=8):
        from migen import Module, Signal
        from litedram.common import tXXDController, tFAWController
        m = Module()
        m.submodules.trrd = self.trrd_c = tXXDController(trrd)
        m.submodules.tfaw = self.tfaw_c = tFAWController(tfaw)
        self.valid = Signal()
        m.comb += [self.trrd_c.valid.eq(self.valid), self.tfaw_c.valid.eq(self.valid)]
        self.c = c = fhdl.compile_harness(m, [self.trrd_c.ready, self.tfaw_c.ready])
        self.i_valid = c.ii[self.valid]
        self.r_r1 = c.rd(self.trrd_c.ready); self.r_r2 = c.rd(self.tfaw_c.ready)
        self.t_rrd = trrd or 1; self.t_faw = tfaw
        self.base = list(c.base_inputs); self.cov = {}

    def env0(self):
        return ((0,) * (self.t_faw - 1), 1)     # activates of the previous tFAW-1 cycles (newest first); gate ready in the coming cycle

    def menu(self, S, E):
        return [0, 1] if E[1] else [0]

    def describe(self, ch): return "ACTIVATE" if ch else "-"

    def drive(self, S, E, ch):
        I = list(self.base); I[self.i_valid] = ch
        return tuple(I)

    def observe(self, S, E, ch, I, O, S2):
        hist, _ = E
        if ch:
            n = 1 + sum(hist)
            if n > 4:
                self.report("timing.tFAW", "%d ACTIVATEs inside %d consecutive cycles (tFAW = %d cycles allows four)" % (n, self.t_faw, self.t_faw), timing="tFAW")
            for d in range(1, self.t_rrd):
                if d <= len(hist) and hist[d - 1]:
                    self.report("timing.tRRD", "ACTIVATE %d cycles after the previous one, tRRD = %d" % (d, self.t_rrd), timing="tRRD")
            self.cov["act"] = self.cov.get("act", 0) + 1
        hist = ((ch,) + hist)[:self.t_faw - 1]
        # ready of the next cycle = registered value after this edge
        nxt = self.c.peek(S2, tuple(self.base))
        rdy = self.r_r1(S2, tuple(self.base), nxt) and self.r_r2(S2, tuple(self.base), nxt)
        # the gate must not starve: with fewer than 4 activates in the last tFAW cycles and tRRD elapsed it has to open again (checked as liveness)
        return (hist, 1 if rdy else 0), (2 if rdy else 0) | 1

    def coverage(self): return dict(self.cov)


class XXDHarness(Harness):
    """tXXDController alone under the discipline of its re-triggered uses (tWTR, tCCD: `valid` may come while not ready, e.g. a second
    write while the write-to-read window of the first is still running): ready must stay low until txxd cycles after the LAST valid."""
    def __init__(self, txxd=3):
        from litedram.common import tXXDController
        self.m = m = tXXDController(txxd)
        self.c = c = fhdl.compile_harness(m, [m.ready])
        self.i_valid = c.ii[m.valid]; self.r_ready = c.rd(m.ready)
        self.t = txxd; self.base = list(c.base_inputs); self.cov = {}

    def env0(self): return (self.t,)            # cycles since the last valid, saturating at txxd

    def menu(self, S, E): return [0, 1]

    def describe(self, ch): return "valid" if ch else "-"

    def drive(self, S, E, ch):
        I = list(self.base); I[self.i_valid] = ch
        return tuple(I)

    def observe(self, S, E, ch, I, O, S2):
        age = E[0]
        rdy = self.r_ready(S, I, O)
        if rdy and age < self.t:
            self.report("timing.txxd_ready_early", "ready %d cycles after the last valid, %d required" % (age, self.t), timing="tXXD")
        return ((1 if ch else min(self.t, age + 1)),), 0

    def coverage(self): return dict(self.cov)


def build_xxd(**kw):
    return XXDHarness(**kw)


def build_timing(**kw):
    return TimingCtlHarness(**kw)


def timing_configs(tier):
    if tier == "quick":
        return [(None, 5), (None, 8), (2, 8), (3, 11), (2, 11), (4, 16)]
    return [(r, f) for f in range(5, 21) for r in (None, 2, 3, 4, 5) if (r or 1) * 3 < f]


def run(tier, seed, only=None):
    t0 = time.time()
    jobs = []
    for t in ([1, 2, 3, 5] if tier == "quick" else range(1, 17)):
        name = "txxd-%d-retriggered" % t
        if only and only not in name: continue
        jobs.append((runner.mc_run, (PROP, "checks.c03", "build_xxd", dict(txxd=t)), dict(name=name, tier=tier, seed=seed, max_states=100_000)))
    for trrd, tfaw in timing_configs(tier):
        name = "gate-tRRD%s-tFAW%d" % (trrd or 0, tfaw)
        if only and only not in name: continue
        jobs.append((runner.mc_run, (PROP, "checks.c03", "build_timing", dict(trrd=trrd, tfaw=tfaw)), dict(name=name, tier=tier, seed=seed, max_states=2_000_000, liveness=[("activate gate closed -> open again", 1, 2)])))
    for name, kw, ms in configs(tier):
        if only and only not in name: continue
        jobs.append((runner.mc_run, (PROP, "checks.core", "build", kw), dict(name=name, tier=tier, seed=seed, max_states=ms)))
    res = runner.run_jobs(jobs)
    return runner.finish(PROP, tier, seed, "model_checking", res, t0, ASSUME, RULE, technique="explicit-state BFS of the elaborated netlist + DRAM-clock spacing monitor")
