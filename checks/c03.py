"""C03 - datasheet timing minimums on the DRAM bus (whole core, spacing monitor in DRAM clocks)."""
import time
from engine import runner

PROP = "C03"
ASSUME = [
    "controller TimingSettings are produced by LiteDRAM's own SDRAMModule from the module description; the monitor's requirements are computed independently from the same datasheet numbers: max(ck, ceil(ns/tCK)) DRAM clocks",
    "write recovery / write-to-read are counted from the end of the write burst (CWL + BL/2 after the WR command; SDR BL=1: from the command clock)",
    "auto-precharge: the internal precharge is placed at the earliest instant the datasheet allows (least demanding reading); tRTP is not listed by the property and not enforced",
    "masters hold commands; K commands per port; unaddressed banks idle; refresh interval overridden to ~100 cycles (its value is judged by C04/C16, not here)",
]
RULE = ("BFS over all command sequences/issue times/refresh phases; on every DFI command the age (DRAM clocks incl. phase) of each earlier conflicting command is compared with "
        "tRCD,tRP,tRAS,tRC,tRRD,tFAW,tCCD,tWR,tWTR,tRFC,tZQCS; 'tight:<rule>' counts how often a rule was met with zero slack")


def syn(memtype, clk, tech, speed, **kw):
    return dict(dict(clk=clk, tech=tech, speed=speed, trefi_override=100), **kw)

# SDR-like synthetic part at 100 MHz (tCK = 10 ns): every timer binds at 2-7 cycles
SDR_A = dict(nphases=1, memtype="SDR", databits=16, colbits=8,
             module=syn("SDR", 100e6, dict(tREFI=1000.0, tWTR=[2, None], tCCD=[1, None], tRRD=[None, 20.0]),
                        dict(tRP=20.0, tRCD=20.0, tWR=20.0, tRFC=[None, 40.0], tFAW=None, tRAS=30.0)))
# same with a long tRAS/tRC (row must stay open well beyond tRCD + a column command)
SDR_B = dict(nphases=1, memtype="SDR", databits=16, colbits=8,
             module=syn("SDR", 100e6, dict(tREFI=1000.0, tWTR=[2, None], tCCD=[1, None], tRRD=[None, 20.0]),
                        dict(tRP=20.0, tRCD=20.0, tWR=30.0, tRFC=[None, 60.0], tFAW=None, tRAS=70.0)))
SDR_FAW = dict(nphases=1, memtype="SDR", databits=16, colbits=8, bankbits=3, banks=(0, 1, 2, 3, 4), rows=(0,),
               module=syn("SDR", 100e6, dict(tREFI=1000.0, tWTR=[2, None], tCCD=[1, None], tRRD=[None, 20.0]),
                          dict(tRP=20.0, tRCD=20.0, tWR=20.0, tRFC=[None, 40.0], tFAW=[None, 120.0], tRAS=30.0)))
# DDR3-like part through the 1:4 rate (CL6/CWL5 -> rdphase 2, wrphase 3)
def ddr3(mhz, **kw):
    d = dict(nphases=4, memtype="DDR3", databits=8, colbits=10, cl=6, cwl=5, RL=3, WL=1,
             module=syn("DDR3", mhz * 1e6, dict(tREFI=1000.0, tWTR=[4, 7.5], tCCD=[4, None], tRRD=[4, 10.0]),
                        dict(tRP=13.75, tRCD=13.75, tWR=15.0, tRFC=[None, 60.0], tFAW=[None, 40.0], tRAS=35.0)))
    d.update(kw); return d
def ddr2(mhz, **kw):
    d = dict(nphases=2, memtype="DDR2", databits=8, colbits=10, cl=3, cwl=2, RL=3, WL=0,
             module=syn("DDR2", mhz * 1e6, dict(tREFI=1000.0, tWTR=[None, 7.5], tCCD=[2, None], tRRD=[None, 10.0]),
                        dict(tRP=15.0, tRCD=15.0, tWR=15.0, tRFC=[None, 50.0], tFAW=None, tRAS=40.0)))
    d.update(kw); return d


def configs(tier):
    cs = []
    def add(name, max_states=3_000_000, **kw):
        kw.setdefault("watch", None); kw.setdefault("queue_check", False); kw["timing_mon"] = True
        cs.append((name, kw, max_states))
    if tier == "quick":
        add("sdrA-1p-K3-norefresh", refresh=False, K=3, **SDR_A)
        add("sdrA-1p-K2-refresh-W25", refresh=True, K=2, window=25, **SDR_A)
        add("sdrA-1p-K2-noap-refresh-W25", refresh=True, K=2, window=25, ap=False, **SDR_A)
        add("sdrB-1p-K3-norefresh", refresh=False, K=3, **SDR_B)
        add("sdrB-1p-K2-refresh-W25", refresh=True, K=2, window=25, **SDR_B)
        add("sdrA-2p-K2-norefresh", refresh=False, K=2, nports=2, banks=(0,), **SDR_A)
        add("sdrA-2p-K2-2banks-1row-norefresh", refresh=False, K=2, nports=2, rows=(0,), **SDR_A)
        add("ddr3x4-100MHz-1p-K3-norefresh", refresh=False, K=3, **ddr3(100))
        add("ddr3x4-100MHz-1p-K2-refresh-W20", refresh=True, K=2, window=20, **ddr3(100))
        add("ddr3x4-200MHz-1p-K3-norefresh", refresh=False, K=3, **ddr3(200))
        add("ddr3x4-200MHz-1p-K2-refresh-W20", refresh=True, K=2, window=20, **ddr3(200))
        add("ddr2x2-133MHz-1p-K3-norefresh", refresh=False, K=3, **ddr2(133))
        add("ddr2x2-133MHz-1p-K2-refresh-W20", refresh=True, K=2, window=20, **ddr2(133))
    else:
        add("sdrFAW-1p-K5-norefresh", refresh=False, K=5, wr_only=True, **SDR_FAW)
        add("sdrA-2p-K2-2cols-norefresh", refresh=False, K=2, nports=2, rows=(0,), cols=(0, 5), **SDR_A)
        add("sdrA-1p-K4-norefresh", refresh=False, K=4, **SDR_A)
        add("sdrA-1p-K3-refresh-W40", refresh=True, K=3, window=40, **SDR_A)
        add("sdrB-1p-K4-norefresh", refresh=False, K=4, **SDR_B)
        add("sdrB-1p-K3-refresh-W40", refresh=True, K=3, window=40, **SDR_B)
        add("sdrA-2p-K2-refresh-W20", refresh=True, K=2, window=20, nports=2, **SDR_A)
        add("sdrA-2p-K3-norefresh", refresh=False, K=3, nports=2, **SDR_A)
        for mhz in (100, 125, 200):
            add("ddr3x4-%dMHz-1p-K4-norefresh" % mhz, refresh=False, K=4, **ddr3(mhz))
            add("ddr3x4-%dMHz-1p-K3-refresh-W30" % mhz, refresh=True, K=3, window=30, **ddr3(mhz))
        add("ddr3x4-100MHz-4bank-1p-K5-norefresh", refresh=False, K=5, bankbits=2, banks=(0, 1, 2, 3), rows=(0,), **ddr3(100))
        for mhz in (100, 133, 200):
            add("ddr2x2-%dMHz-1p-K4-norefresh" % mhz, refresh=False, K=4, **ddr2(mhz))
            add("ddr2x2-%dMHz-1p-K3-refresh-W30" % mhz, refresh=True, K=3, window=30, **ddr2(mhz))
        add("sdrFAW-1p-K6-norefresh", refresh=False, K=6, wr_only=True, **SDR_FAW)
        # library modules with their real datasheet entries (restricted address alphabet; unaddressed banks idle)
        add("lib-MT48LC4M16-100MHz-K3-refresh-W30", refresh=True, K=3, window=30, nphases=1, memtype="SDR", databits=16, colbits=8, bankbits=2,
            module=dict(lib="MT48LC4M16", clk=100e6, trefi_override=100))
        add("lib-MT48LC4M16-143MHz-K3-refresh-W30", refresh=True, K=3, window=30, nphases=1, memtype="SDR", databits=16, colbits=8, bankbits=2, cl=3,
            module=dict(lib="MT48LC4M16", clk=143e6, trefi_override=100))
        add("lib-MT47H64M16-1:2-133MHz-K3-refresh-W30", refresh=True, K=3, window=30, nphases=2, memtype="DDR2", databits=8, colbits=10, bankbits=3, cl=3, cwl=2, RL=3, WL=0,
            module=dict(lib="MT47H64M16", clk=133e6, trefi_override=120))
        add("lib-MT41K128M16-1:4-100MHz-K3-refresh-W30", refresh=True, K=3, window=30, nphases=4, memtype="DDR3", databits=8, colbits=10, bankbits=3, cl=6, cwl=5, RL=3, WL=1,
            module=dict(lib="MT41K128M16", clk=100e6, trefi_override=120))
        add("lib-MT41K128M16-1:4-200MHz-K3-refresh-W30", refresh=True, K=3, window=30, nphases=4, memtype="DDR3", databits=8, colbits=10, bankbits=3, cl=11, cwl=8, RL=5, WL=1,
            module=dict(lib="MT41K128M16", clk=200e6, speedgrade="1600", trefi_override=140))
    return cs


def run(tier, seed, only=None):
    t0 = time.time()
    jobs = []
    for name, kw, ms in configs(tier):
        if only and only not in name: continue
        jobs.append((runner.mc_run, (PROP, "checks.core", "build", kw), dict(name=name, tier=tier, seed=seed, max_states=ms)))
    res = runner.run_jobs(jobs)
    return runner.finish(PROP, tier, seed, "model_checking", res, t0, ASSUME, RULE, technique="explicit-state BFS of the elaborated netlist + DRAM-clock spacing monitor")
