"""C04 - refresh is never starved and keeps the datasheet rate (whole core, adversarial unbounded ports; safety + liveness)."""
import time
from engine import runner
from checks import core

PROP = "C04"
ASSUME = [
    "ports are adversarial and unbounded (tiny alphabets so that the graph closes): hammer one row, alternate rows in a bank, all-write, mixed with idle, two ports on two banks",
    "the monitor keeps its own interval counter: one refresh becomes owed every tREFI controller cycles (configurations with an integral interval; rounding of the interval is C16)",
    "owed refreshes never exceed the configured postponing count; every REF is preceded by a precharge-all; REF with an open bank is reported by the legality reference",
    "liveness on the complete graph, adversarial scheduling, no fairness assumed",
]
RULE = ("complete reachable graph of core x adversary x refresh monitor (all schedules for ever: the graph closes); safety on every transition; bad-cycle search for "
        "'refresh owed and no REF' and 'work pending and no progress'; longest path = exact worst-case service latency")

SDR = dict(nphases=1, memtype="SDR", databits=16, colbits=8, watch=None, queue_check=False, refresh=True, refresh_mon=True)
DDR3 = dict(nphases=4, memtype="DDR3", databits=8, colbits=10, cl=6, cwl=5, RL=3, WL=1, watch=None, queue_check=False, refresh=True, refresh_mon=True)
LPDDR4 = dict(nphases=8, memtype="LPDDR4", databits=16, colbits=10, cl=6, cwl=4, RL=3, WL=1, watch=None, queue_check=False, refresh=True, refresh_mon=True)
ADV = {
    "hammerR": [dict(kind="adv", cmds=[["R", 0]])],
    "hammerW": [dict(kind="adv", cmds=[["W", 0]])],
    "altrows": [dict(kind="adv", cmds=[["R", 0], ["R", 1]])],
    "mixidle": [dict(kind="adv", cmds=[["R", 0], ["W", 2]], idle=True)],
    "mix1bank": [dict(kind="adv", cmds=[["R", 0], ["W", 1]], gap=1)],
    "allW2bank": [dict(kind="adv", cmds=[["W", 0], ["W", 3]])],
    "2ports": [dict(kind="adv", cmds=[["R", 0]]), dict(kind="adv", cmds=[["W", 2], ["W", 3]])],
    "2ports-samebank": [dict(kind="adv", cmds=[["R", 0]]), dict(kind="adv", cmds=[["W", 1]], idle=True)],
}
LIVE = [("refresh owed -> REF issued", core.EV_REFPEND, core.EV_REF), ("work pending -> some port progresses", core.EV_ANYPEND, core.EV_ANYPROG)]


def configs(tier):
    cs = []
    def add(name, adv, max_states=3_000_000, **kw):
        kw["drivers"] = ADV[adv]; kw["nports"] = len(ADV[adv])
        cs.append((name + "-" + adv, kw, max_states))
    if tier == "quick":
        for adv in ("hammerR", "hammerW", "altrows", "mix1bank", "allW2bank", "2ports"):
            add("sdr-p1", adv, **SDR)
        add("sdr-p2", "altrows", postponing=2, **SDR)
        add("sdr-p2", "mix1bank", postponing=2, **SDR)
        add("sdr-noap-p1", "altrows", ap=False, **SDR)
        add("ddr3x4-p1", "altrows", **DDR3)
        add("ddr3x4-p2", "mix1bank", postponing=2, **DDR3)
        add("sdr-zqcs-p1", "hammerR", tzqcs=3, zqcs_period=250, zq_mon=True, **SDR)
        # two ranks: the refresh sequence (precharge-all, REF, ZQCS) must reach every rank; rows of rank 1 (banks 2, 3) are left open by the traffic
        add("sdr-2rank-p1", "altrows", nranks=2, bankbits=1, banks=(2, 3), **SDR)
        add("sdr-2rank-zqcs-p1", "hammerR", nranks=2, bankbits=1, banks=(2, 3), tzqcs=3, zqcs_period=250, zq_mon=True, **SDR)
        # LPDDR4 (8 phases): the PHY turns DFI REF with A10 low into a per-bank refresh, so the refresher's REF must carry A10
        add("lpddr4x8-p1", "hammerR", **LPDDR4)
    else:
        add("sdr-2rank-p2", "mixidle", nranks=2, bankbits=1, banks=(1, 2), postponing=2, **SDR)
        add("lpddr4x8-p2", "altrows", postponing=2, **LPDDR4)
        for adv in ADV:
            for p in (1, 2, 4, 8):
                add("sdr-p%d" % p, adv, postponing=p, **SDR)
            add("sdr-noap-p1", adv, ap=False, **SDR)
            add("ddr3x4-p1", adv, **DDR3)
            add("ddr3x4-p4", adv, postponing=4, **DDR3)
        add("sdr-buffered-d4-p2", "mixidle", postponing=2, buffered=True, depth=4, **SDR)
        add("sdr-zqcs-p1", "hammerR", tzqcs=3, zqcs_period=250, zq_mon=True, **SDR)
        add("sdr-zqcs-p2", "mixidle", tzqcs=3, zqcs_period=250, zq_mon=True, postponing=2, **SDR)
    return cs


def run(tier, seed, only=None):
    t0 = time.time()
    jobs = []
    for name, kw, ms in configs(tier):
        if only and only not in name: continue
        jobs.append((runner.mc_run, (PROP, "checks.core", "build", kw), dict(name=name, tier=tier, seed=seed, max_states=ms, liveness=LIVE)))
    res = runner.run_jobs(jobs)
    return runner.finish(PROP, tier, seed, "model_checking", res, t0, ASSUME, RULE, technique="explicit-state BFS of the elaborated netlist (closed graph) + bad-cycle search for liveness")
