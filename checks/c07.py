"""C07 - width-converted ports behave like one memory at the narrower or wider width.

DUT: LiteDRAMNativePortConverter (the module LiteDRAMCrossbar.get_port(data_width=...) instantiates), native master above,
port-level responder below (checks/responder.py), byte-addressed reference memory."""
import time, itertools
from engine import runner, fhdl
from engine.explore import Harness, Violation
from checks.responder import Responder

PROP = "C07"
ASSUME = [
    "master: holds each command until accepted, offers write data no later than the command and holds it, always accepts read data (statement's assumptions, constructive)",
    "memory below the converter = native-port responder restricted to real-core behaviour (wdata strobe >= 3, read data >= 6 cycles after acceptance, in order; strobes ignore valid/ready as the crossbar does)",
    "K commands over narrow addresses spanning two wide words (ascending, descending, repeated and alternating orders all occur); the i-th command carries data tag i",
    "end-of-burst hint (cmd.last) is a free choice per command; flush is asserted by the master once it has issued its K commands (drain), or freely in the *-flushfree configurations",
    "while idle the master drives address 0 (or all-ones in *-idlehigh): legal don't-care values",
]
RULE = ("BFS over all K-command sequences x cmd.last x responder timing (cmd.ready stalls, data latencies); every read word compared byte-wise with the reference at acceptance order; "
        "post-pass: every reachable quiescent state (master done, flush asserted, nothing outstanding, fixed point) must have memory == reference and no leftover beat; "
        "liveness: no cycle with outstanding work under drain")

EV_OUT = 1; EV_PROG = 2; EV_CPEND = 4


def bval(baddr, tag):
    return 0x80 | ((tag & 3) << 5) | (baddr & 31)


class ConvHarness(Harness):
    def __init__(self, wf=16, wt=32, K=3, mode="both", naddr=None, lasts=(0, 1), wes=None, ops="RW", flush_free=False, idle_addr=0,
                 wmin=3, rmin=6, qmax=3, aw=6, reverse=False, high=False):
        from litedram.common import LiteDRAMNativePort
        from litedram.frontend.adapter import LiteDRAMNativePortConverter
        self.cfg = dict(wf=wf, wt=wt, K=K)
        self.wf, self.wt, self.K = wf, wt, K
        self.bf, self.bt = wf // 8, wt // 8
        up = wt > wf
        ratio = max(wf, wt) // min(wf, wt)
        import math
        sh = int(math.log2(ratio))
        pf = LiteDRAMNativePort(mode, aw + (sh if up else -sh), wf); pt = LiteDRAMNativePort(mode, aw, wt)
        self.pf, self.pt = pf, pt
        dut = LiteDRAMNativePortConverter(pf, pt, reverse=reverse)
        reads = Responder.reads([pt]) + [pf.cmd.ready, pf.wdata.ready, pf.rdata.valid, pf.rdata.data]
        self.c = c = fhdl.compile_harness(dut, reads)
        # two "wide" words worth of addresses on the from side
        total_bytes = 2 * max(self.bf, self.bt)
        self.nfrom = total_bytes // self.bf if naddr is None else naddr
        self.total_bytes = self.nfrom * self.bf
        assert self.total_bytes <= 32
        self.nto = self.total_bytes // self.bt
        # high: the addressed window is the TOP of the user port's address range (all upper address bits set), not the bottom
        self.off_from = ((1 << len(pf.cmd.addr)) - self.nfrom) if high else 0
        self.off_to = (self.off_from * ratio if not up else self.off_from // ratio)
        assert not high or ((not up or self.off_from % ratio == 0) and self.off_to + max(1, self.nto) <= (1 << len(pt.cmd.addr))), (self.off_from, self.off_to)
        self.resp = Responder(c, [pt], wmin=wmin, rmin=rmin, qmax=qmax, mem_init=self.mem_init, addr_ok=lambda p, a: 0 <= a < max(1, self.nto), addr_base=self.off_to)
        full = (1 << self.bf) - 1
        wes = wes if wes is not None else ([full, 1] if self.bf > 1 else [1])
        alpha = [None]
        if "R" in ops and mode != "write":
            alpha += [("R", a, l) for a in range(self.nfrom) for l in lasts]
        if "W" in ops and mode != "read":
            alpha += [("W", a, l, we) for a in range(self.nfrom) for l in lasts for we in wes]
        self.alpha = alpha
        ii = c.ii
        self.i_valid = ii.get(pf.cmd.valid); self.i_we = ii.get(pf.cmd.we); self.i_addr = ii.get(pf.cmd.addr); self.i_last = ii.get(pf.cmd.last)
        self.i_wvalid = ii.get(pf.wdata.valid); self.i_wdata = ii.get(pf.wdata.data); self.i_wwe = ii.get(pf.wdata.we)
        self.i_rready = ii.get(pf.rdata.ready); self.i_flush = ii.get(pf.flush)
        self.r_ready = c.rd(pf.cmd.ready); self.r_wready = c.rd(pf.wdata.ready); self.r_rvalid = c.rd(pf.rdata.valid); self.r_rdata = c.rd(pf.rdata.data)
        self.base = list(c.base_inputs)
        if self.i_rready is not None: self.base[self.i_rready] = 1
        self.flush_free = flush_free
        self.idle_addr = idle_addr & ((1 << len(pf.cmd.addr)) - 1)
        self.mode = mode
        self.cov = {}

    def mem_init(self, a):
        w = 0
        for l in range(self.bt): w |= bval(a * self.bt + l, 0) << (8 * l)
        return w

    def wword(self, addr, tag):
        w = 0
        for l in range(self.bf): w |= bval(addr * self.bf + l, tag) << (8 * l)
        return w

    def env0(self):
        ref = tuple(bval(b, 0) for b in range(self.total_bytes))
        return (None, self.K, (), (), ref, self.resp.init())

    def menu(self, S, E):
        pend, bud, wq, rq, ref, rs = E
        m = (None,) if (pend is not None or bud <= 0) else self.alpha
        if self.flush_free: fl = (0, 1)
        else: fl = (1,) if (pend is None and bud <= 0) else (0,)
        rm = self.resp.menu(rs)
        return [(a, f, r) for a in m for f in fl for r in rm]

    def describe(self, ch):
        a, f, (rb, serve) = ch
        s = "-" if a is None else ("R a%d last%d" % (a[1], a[2]) if a[0] == "R" else "W a%d last%d we=%x" % (a[1], a[2], a[3]))
        return "%s%s | cmd.ready=%d serve=%s" % (s, " flush" if f else "", rb, list(serve))

    def drive(self, S, E, ch):
        pend, bud, wq, rq, ref, rs = E
        a, fl, rch = ch
        I = list(self.base)
        cmd = pend if pend is not None else a
        if cmd is not None:
            I[self.i_valid] = 1; I[self.i_addr] = cmd[1] + self.off_from
            if self.i_last is not None: I[self.i_last] = cmd[2]
            if self.i_we is not None: I[self.i_we] = 1 if cmd[0] == "W" else 0
        else:
            I[self.i_addr] = self.idle_addr
        if pend is None and a is not None and a[0] == "W":
            wq = wq + ((a[1], self.K - bud + 1, a[3]),)
        if wq:
            ad, tag, we = wq[0]
            I[self.i_wvalid] = 1; I[self.i_wdata] = self.wword(ad, tag); I[self.i_wwe] = we
        if self.i_flush is not None: I[self.i_flush] = fl
        self.resp.drive(rs, rch, I)
        return tuple(I)

    def observe(self, S, E, ch, I, O, S2):
        pend, bud, wq, rq, ref, rs = E
        a, fl, rch = ch
        cov = self.cov
        cmd = pend if pend is not None else a
        if pend is None and a is not None:
            tag = self.K - bud + 1
            bud -= 1
            if a[0] == "W": wq = wq + ((a[1], tag, a[3]),)
            cmd = a + (tag,) if a[0] == "W" else a
        rs2, evs = self.resp.observe(rs, rch, S, I, O)
        prog = bool(evs)
        if cmd is not None and self.r_ready(S, I, O):
            prog = True
            if cmd[0] == "W":
                ad, we, tag = cmd[1], cmd[3], cmd[4]
                ref = list(ref)
                for l in range(self.bf):
                    if (we >> l) & 1: ref[ad * self.bf + l] = bval(ad * self.bf + l, tag)
                ref = tuple(ref)
            else:
                ad = cmd[1]
                rq = rq + (tuple(ref[ad * self.bf: ad * self.bf + self.bf]),)
            cmd = None
        if wq and self.r_wready(S, I, O):        # stream semantics on the user side: a beat moves when valid & ready
            wq = wq[1:]; prog = True
        if self.r_rvalid(S, I, O):
            if not rq: raise Violation("port.rdata_without_read", "converter returned a read word without an outstanding read")
            exp = rq[0]; rq = rq[1:]; prog = True
            got = self.r_rdata(S, I, O)
            gb = tuple((got >> (8 * l)) & 0xff for l in range(self.bf))
            if gb != exp:
                self.report("data.read_mismatch", "read returned %s, expected %s (bytes, reference at acceptance order)" % (["%02x" % x for x in gb], ["%02x" % x for x in exp]), kind="read")
            cov["rd_compared"] = cov.get("rd_compared", 0) + 1
        ev = 0
        # liveness is judged under a cooperative environment only: drain phase (flush high), memory ready and serving as soon as allowed
        el = self.resp.eligible(rs[0])
        coop = fl == 1 and rch[0] == 1 and rch[1] == ((el[0],) if el else ())
        if coop and (pend is not None or wq or rq or rs[0]): ev |= EV_OUT
        # a command that is being offered must be accepted whether or not the master flushes (memory cooperative)
        if (pend is not None or a is not None) and rch[0] == 1 and rch[1] == ((el[0],) if el else ()): ev |= EV_CPEND
        if prog: ev |= EV_PROG
        return (cmd, bud, wq, rq, ref, rs2), ev

    # ---- post pass: quiescent states
    def quiescence_check(self, res):
        """every reachable state that is a fixed point of (master done, flush=1, cmd.ready=1, nothing to serve) must have
        memory == reference and no leftover data/expectation"""
        viols = []; fp = 0; bad = 0
        from engine import explore
        for st, i in res.index.items():
            S, E = st
            pend, bud, wq, rq, ref, rs = E
            if pend is not None or bud > 0 or rs[0]: continue
            ch = (None, 1, (1, ()))
            try:
                S2, E2, ev, vl = self.step(S, E, ch)
            except Violation:
                continue
            if (S2, E2) != st: continue
            fp += 1
            memb = []
            for a in range(self.nto):
                w = self.resp.mem_get(rs[1], a)
                memb += [(w >> (8 * l)) & 0xff for l in range(self.bt)]
            if tuple(memb) != ref or wq or rq:
                bad += 1
                if len(viols) < 1:
                    tr = explore.trace_of_id(res.parent, res.pchoice, i) + [ch]
                    what = "memory %s != reference %s" % (["%02x" % x for x in memb], ["%02x" % x for x in ref]) if tuple(memb) != ref else "leftover write data %s / expected reads %s" % (wq, rq)
                    v = Violation("data.quiescent_mismatch", "after drain (flush, everything idle): " + what, kind="write" if tuple(memb) != ref else "leftover")
                    v.recoverable = True
                    viols.append((tr, v))
        self.cov["quiescent_fixed_points"] = fp; self.cov["quiescent_mismatch"] = bad
        return {"violations": viols, "info": {"quiescent_fixed_points": fp, "mismatching": bad}}

    def step(self, S, E, ch):
        r = Harness.step(self, S, E, ch)
        return r

    def coverage(self):
        return dict(self.cov)


class QHarness(ConvHarness):
    """same, but the quiescence violation is re-detected during replay: observe() raises it when the last choice leaves a
    quiescent fixed point with a mismatch (used by confirm_and_store through run_trace)"""
    def observe(self, S, E, ch, I, O, S2):
        E2, ev = ConvHarness.observe(self, S, E, ch, I, O, S2)
        pend, bud, wq, rq, ref, rs = E2
        if pend is None and bud <= 0 and not rs[0] and ch == (None, 1, (1, ())) and (S2, E2) == (S, E):
            memb = []
            for a in range(self.nto):
                w = self.resp.mem_get(rs[1], a)
                memb += [(w >> (8 * l)) & 0xff for l in range(self.bt)]
            if tuple(memb) != ref:
                self.report("data.quiescent_mismatch", "after drain: memory != reference", kind="write")
            elif wq or rq:
                self.report("data.quiescent_mismatch", "after drain: leftover beats", kind="leftover")
        return E2, ev


def build(**kw):
    return QHarness(**kw)


LIVE = [("outstanding work drains", EV_OUT, EV_PROG), ("offered command is accepted", EV_CPEND, EV_PROG)]


def configs(tier):
    cs = []
    def add(name, max_states=3_000_000, **kw):
        cs.append((name, kw, max_states))
    if tier == "quick":
        add("up-1:2-K3", wf=16, wt=32, K=3)
        add("up-1:4-K2", wf=16, wt=64, K=2)
        add("up-1:4-K3-reads", wf=8, wt=32, K=3, ops="R")
        add("up-1:4-K3-writes", wf=8, wt=32, K=3, ops="W", lasts=(0,))
        add("down-2:1-K3", wf=32, wt=16, K=3, lasts=(0,))
        add("down-4:1-K2", wf=32, wt=8, K=2, lasts=(0,))
        add("down-2:1-K3-high", wf=32, wt=16, K=3, lasts=(0,), high=True)          # top of the address range (upper address bits set)
        add("down-4:1-K2-high", wf=32, wt=8, K=2, lasts=(0,), high=True)
        add("up-1:2-K3-high", wf=16, wt=32, K=3, high=True)
        add("up-1:2-K2-flushfree", wf=16, wt=32, K=2, flush_free=True)
        add("up-1:2-K2-idlehigh", wf=16, wt=32, K=2, idle_addr=-1)
    else:
        add("up-1:2-K4", wf=16, wt=32, K=4)
        add("up-1:4-K3", wf=16, wt=64, K=3)
        add("up-1:8-K3", wf=8, wt=64, K=3, naddr=8)
        add("up-1:16-K2", wf=8, wt=128, K=2, naddr=16)
        add("up-1:32-K2", wf=8, wt=256, K=2, naddr=32)
        add("down-2:1-K4", wf=32, wt=16, K=4, lasts=(0,))
        add("down-4:1-K3", wf=32, wt=8, K=3, lasts=(0,))
        add("down-8:1-K2", wf=64, wt=8, K=2, lasts=(0,), naddr=2)
        add("down-8:1-K2-high", wf=64, wt=8, K=2, lasts=(0,), naddr=2, high=True)
        add("up-1:8-K3-high", wf=8, wt=64, K=3, naddr=8, high=True)
        add("up-1:2-K3-flushfree", wf=16, wt=32, K=3, flush_free=True)
        add("up-1:2-K3-idlehigh", wf=16, wt=32, K=3, idle_addr=-1)
        add("up-1:2-K3-readmode", wf=16, wt=32, K=3, mode="read")
        add("up-1:2-K3-writemode", wf=16, wt=32, K=3, mode="write")
        add("down-2:1-K3-readmode", wf=32, wt=16, K=3, mode="read", lasts=(0,))
        add("down-2:1-K3-writemode", wf=32, wt=16, K=3, mode="write", lasts=(0,))
    return cs


# end-to-end cross-check of the port-level responder (assume-guarantee, DESIGN 3.3): the converter as LiteDRAMCrossbar.get_port(data_width=...)
# builds it, over the REAL crossbar + controller + DRAM reference (checks/core.py), watched-byte scoreboard at the port's width
CORE_SDR = dict(nphases=1, memtype="SDR", databits=16, colbits=8, refresh=False, queue_check=False)
def core_configs(tier):
    cs = []
    def add(name, **kw): cs.append((name, dict(CORE_SDR, **kw)))
    add("core-up-16to8-K3-w0.0", port_width=8, K=3, watch=(0, 0), rows=(0,), wes=[1])
    add("core-up-16to8-K3-w1.1", port_width=8, K=3, watch=(1, 1), banks=(0,), wes=[1])
    add("core-down-16to32-K2-w0.1", port_width=32, K=2, watch=(0, 1), cols=(0, 1), rows=(0,), wes=[15, 2])
    if tier == "thorough":
        add("core-up-16to8-K4-noflushlast-w0.1", port_width=8, K=4, watch=(0, 1), rows=(0,), wes=[1], last_always=False)
        add("core-up-16to8-K4-w2.0", port_width=8, K=4, watch=(2, 0), wes=[1])
        add("core-down-16to32-K3-w1.0", port_width=32, K=3, watch=(1, 0), cols=(0, 1), wes=[15, 1])
    return cs


def run(tier, seed, only=None):
    t0 = time.time()
    jobs = []
    for name, kw in core_configs(tier):
        if only and only not in name: continue
        jobs.append((runner.mc_run, (PROP, "checks.core", "build", kw), dict(name=name, tier=tier, seed=seed, max_states=3_000_000)))
    for name, kw, ms in configs(tier):
        if only and only not in name: continue
        jobs.append((runner.mc_run, (PROP, "checks.c07", "build", kw), dict(name=name, tier=tier, seed=seed, max_states=ms, liveness=LIVE, post="quiescence_check")))
    res = runner.run_jobs(jobs)
    return runner.finish(PROP, tier, seed, "model_checking", res, t0, ASSUME, RULE, technique="explicit-state BFS of the elaborated converter netlist against a byte-addressed reference memory")
