"""C02 - DRAM command stream obeys the bank state machine (whole core, DFI legality monitor, no data)."""
import time
from engine import runner

PROP = "C02"
ASSUME = [
    "masters hold commands until accepted; K commands per port over a colliding alphabet (2-4 banks x 2 rows x 1-2 columns, 1-2 ranks)",
    "legality reference written from the DRAM command protocol: per-bank open row, per-bank queue of the requests the crossbar accepted",
    "A10 must exist on the DFI address bus (rowbits >= 11), see DESIGN 3.6",
]
RULE = ("BFS over all command sequences and issue times; every DFI phase of every transition is judged: ACT only to a precharged bank and to the oldest request's row; "
        "RD/WR only to the open row and matching the oldest accepted request (direction, row, column); REF/ZQCS only with all banks precharged; RD/WR on rdphase/wrphase "
        "with exactly their data enables; chip-selects = the request's rank (all ranks for refresh); A10 only as auto-precharge")

SDR = dict(nphases=1, memtype="SDR", databits=16, colbits=8)
DDR2 = dict(nphases=2, memtype="DDR2", databits=8, colbits=10, cl=3, cwl=2, RL=3, WL=0)
DDR3 = dict(nphases=4, memtype="DDR3", databits=8, colbits=10, cl=6, cwl=5, RL=3, WL=1)


def configs(tier):
    cs = []
    def add(name, max_states=3_000_000, **kw):
        kw.setdefault("watch", None); kw.setdefault("queue_check", True)
        cs.append((name, kw, max_states))
    if tier == "quick":
        add("sdr-1p-K4-norefresh", refresh=False, K=4, **SDR)
        add("sdr-1p-K3-2cols-norefresh", refresh=False, K=3, cols=(0, 5), **SDR)
        add("sdr-1p-K3-refresh-W10", refresh=True, K=3, window=10, **SDR)
        add("sdr-1p-K3-noap-refresh-W10", refresh=True, K=3, window=10, ap=False, **SDR)
        add("sdr-2p-K2-2banks-norefresh", refresh=False, K=2, nports=2, rows=(0,), **SDR)
        add("sdr-2p-K2-1bank-norefresh", refresh=False, K=2, nports=2, banks=(0,), **SDR)
        add("sdr-2rank-1p-K2-refresh-W10", refresh=True, K=2, window=10, nranks=2, banks=(0, 1, 2), rows=(0, 1), **SDR)
        add("sdr-2rank-1p-K3-norefresh", refresh=False, K=3, nranks=2, banks=(0, 1, 2, 3), rows=(0, 1), **SDR)
        add("sdr-4bank-1p-K3-norefresh", refresh=False, K=3, bankbits=2, banks=(0, 1, 3), **SDR)
        add("ddr2x2-1p-K3-refresh-W10", refresh=True, K=3, window=10, **DDR2)
        add("ddr3x4-1p-K4-norefresh", refresh=False, K=4, **DDR3)
        add("ddr3x4-1p-K3-refresh-W8", refresh=True, K=3, window=8, **DDR3)
        add("ddr3x4-rd2wr3-1p-K3-refresh-W8", refresh=True, K=3, window=8, rdphase=2, wrphase=3, **DDR3)       # other PHY read/write phase choices
        add("ddr2x2-rd1wr0-1p-K3-norefresh", refresh=False, K=3, rdphase=1, wrphase=0, **DDR2)
        add("ddr3x4-sigphases-rd2wr1-1p-K3-norefresh", refresh=False, K=3, rdphase=2, wrphase=1, phase_signals=True, **DDR3)
        add("ddr2x2-sigphases-rd0wr1-1p-K3-norefresh", refresh=False, K=3, rdphase=0, wrphase=1, phase_signals=True, **DDR2)
        add("sdr-1p-K5-reads-norefresh", refresh=False, K=5, rd_only=True, **SDR)
        add("sdr-1p-K3-buffered-d4-norefresh", refresh=False, K=3, buffered=True, depth=4, **SDR)
        add("sdr-1p-K3-depth1-refresh-W10", refresh=True, K=3, window=10, depth=1, **SDR)        # command buffers of depth 1 / 0 are other LiteX primitives
        add("sdr-1p-K3-depth0-norefresh", refresh=False, K=3, depth=0, **SDR)
        add("ddr3x4-c11-1p-K3-norefresh", refresh=False, K=3, rowbits=13, cols=(0, 1024), **dict(DDR3, colbits=11))
        add("sdr-1p-K2-zqcs-refresh-W8", refresh=True, K=2, window=8, tzqcs=3, zqcs_period=120, **SDR)
    else:
        add("sdr-1p-K5-norefresh", refresh=False, K=5, **SDR)
        add("sdr-1p-K4-refresh-W25", refresh=True, K=4, window=25, **SDR)
        add("sdr-1p-K4-noap-refresh-W25", refresh=True, K=4, window=25, ap=False, **SDR)
        add("sdr-1p-K4-buffered-d4-refresh-W14", refresh=True, K=4, window=14, buffered=True, depth=4, **SDR)
        add("sdr-2p-K3-norefresh", refresh=False, K=3, nports=2, **SDR)
        add("sdr-2p-K3-depth1-norefresh", refresh=False, K=3, nports=2, depth=1, **SDR)
        add("sdr-1p-K4-depth0-refresh-W14", refresh=True, K=4, window=14, depth=0, **SDR)
        add("sdr-2p-K2-refresh-W12", refresh=True, K=2, window=12, nports=2, **SDR)
        add("sdr-3p-K2-norefresh", refresh=False, K=2, nports=3, rows=(0,), cols=(0, 5), **SDR)
        add("sdr-2rank-1p-K4-refresh-W14", refresh=True, K=4, window=14, nranks=2, banks=(0, 1, 2, 3), rows=(0, 1), **SDR)
        add("sdr-4bank-1p-K4-refresh-W14", refresh=True, K=4, window=14, bankbits=2, banks=(0, 1, 2, 3), **SDR)
        add("ddr2x2-1p-K4-refresh-W20", refresh=True, K=4, window=20, **DDR2)
        add("ddr3x4-1p-K5-norefresh", refresh=False, K=5, **DDR3)
        add("ddr3x4-1p-K4-refresh-W25", refresh=True, K=4, window=25, **DDR3)
        add("ddr3x4-2p-K2-refresh-W12", refresh=True, K=2, window=12, nports=2, **DDR3)
        for (r, w) in ((0, 1), (1, 0), (3, 2), (0, 3)):
            add("ddr3x4-rd%dwr%d-1p-K4-norefresh" % (r, w), refresh=False, K=4, rdphase=r, wrphase=w, **DDR3)
        add("ddr2x2-rd0wr1-1p-K4-refresh-W14", refresh=True, K=4, window=14, rdphase=0, wrphase=1, **DDR2)
        add("sdr-1p-K3-zqcs-refresh-W25", refresh=True, K=3, window=25, tzqcs=3, zqcs_period=150, **SDR)
        add("sdr-1p-K3-postponing2-refresh-W14", refresh=True, K=3, window=14, postponing=2, **SDR)
    return cs


def run(tier, seed, only=None):
    t0 = time.time()
    jobs = []
    for name, kw, ms in configs(tier):
        if only and only not in name: continue
        jobs.append((runner.mc_run, (PROP, "checks.core", "build", kw), dict(name=name, tier=tier, seed=seed, max_states=ms)))
    res = runner.run_jobs(jobs)
    return runner.finish(PROP, tier, seed, "model_checking", res, t0, ASSUME, RULE, technique="explicit-state BFS of the elaborated netlist + DFI legality reference")
