"""C05 - no deadlock, no starved port, no starved direction (whole core; liveness by bad-cycle search on complete graphs)."""
import time
from engine import runner
from checks import core

PROP = "C05"
ASSUME = [
    "port 0 (victim) issues one command from the full alphabet at any time; the other port(s) are unbounded adversaries from explicit classes "
    "(other bank / same bank with a forced gap g between accepted commands / alternating rows / all reads / all writes / free idle)",
    "no fairness assumed: a bad cycle is any reachable cycle of the closed graph in which an obligation stays pending without progress",
    "anti-starvation timers read_time/write_time = 4 so that their expiry lies inside the explored graph",
    "liveness verdicts only on complete graphs; the longest pending path is the exact worst-case latency of that configuration",
]
RULE = ("complete reachable graph of core x victim x adversary; obligations: victim command offered -> accepted; accepted -> data strobe / read data; same for port 1; "
        "work pending -> some progress (deadlock)")

SDR = dict(nphases=1, memtype="SDR", databits=16, colbits=8, watch=None, queue_check=False, nports=2)
DDR3 = dict(nphases=4, memtype="DDR3", databits=8, colbits=10, cl=6, cwl=5, RL=3, WL=1, watch=None, queue_check=False, nports=2)
V = dict(kind="victim", K=1)
# loc index: 0=(b0,r0) 1=(b0,r1) 2=(b1,r0) 3=(b1,r1)
def adv(cmds, **kw): return dict(kind="adv", cmds=cmds, **kw)
CLASSES = {
    "other-bank-reads": (dict(V, cmds=[["R", 0], ["W", 0], ["R", 1], ["W", 1]]), adv([["R", 2]])),
    "other-bank-writes": (dict(V, cmds=[["R", 0], ["W", 0], ["R", 1], ["W", 1]]), adv([["W", 2]])),
    "other-bank-altrows-writes": (dict(V, cmds=[["R", 0], ["W", 1]]), adv([["W", 2], ["W", 3]])),
    "other-bank-altrows-writes-1victim": (dict(V, cmds=[["R", 0]]), adv([["W", 2], ["W", 3]])),
    "other-bank-mixed": (dict(V, cmds=[["R", 0], ["W", 1]]), adv([["W", 2], ["R", 3]], idle=True)),
    "same-bank-gap3": (dict(V, cmds=[["R", 0], ["W", 0], ["R", 1], ["W", 1]]), adv([["R", 0]], gap=3)),
    "same-bank-gap4-writes": (dict(V, cmds=[["R", 0], ["W", 1]]), adv([["W", 1]], gap=4)),
    "same-bank-gap0": (dict(V, cmds=[["R", 0], ["W", 1]]), adv([["R", 0]], gap=0)),
    "same-bank-gap1": (dict(V, cmds=[["R", 0], ["W", 1]]), adv([["R", 1]], gap=1)),
    "same-bank-gap2-writes": (dict(V, cmds=[["R", 0], ["W", 1]]), adv([["W", 0]], gap=2)),
    "same-bank-freeidle": (dict(V, cmds=[["R", 0], ["W", 1]]), adv([["R", 0], ["W", 1]], idle=True)),
    "two-bank-adversary": (dict(V, cmds=[["R", 1], ["W", 3]]), adv([["R", 0], ["W", 2]])),         # the adversary changes bank with commands still queued in the other one
    "two-bank-adversary-reads": (dict(V, cmds=[["R", 1]]), adv([["R", 0], ["R", 2]], idle=True)),
    "three-ports": (dict(V, cmds=[["R", 0], ["W", 1]]), adv([["W", 2]]), adv([["R", 0]], gap=3)),
    "any-bank-anything": (V, adv([["R", 0], ["W", 1], ["W", 2], ["R", 3]], idle=True)),
}
LIVE = [("port 0 command offered -> accepted", core.EV_VPEND, core.EV_VACC),
        ("port 0 accepted -> served", core.EV_OUT0, core.EV_SRV0),
        ("port 1 command offered -> accepted", core.EV_P1PEND, core.EV_P1ACC),
        ("port 1 accepted -> served", core.EV_OUT1, core.EV_SRV1),
        ("work pending -> some port progresses", core.EV_ANYPEND, core.EV_ANYPROG)]


def configs(tier):
    cs = []
    def add(name, cls, max_states=3_000_000, **kw):
        kw["drivers"] = list(CLASSES[cls])
        if len(kw["drivers"]) != kw.get("nports", 2): kw["nports"] = len(kw["drivers"])
        cs.append((name + "-" + cls, kw, max_states))
    if tier == "quick":
        for cls in ("other-bank-reads", "other-bank-writes", "other-bank-altrows-writes", "other-bank-mixed", "same-bank-gap3", "same-bank-gap4-writes",
                    "same-bank-gap0", "same-bank-gap1", "same-bank-gap2-writes"):
            add("sdr-norefresh", cls, refresh=False, **SDR)
        add("sdr-norefresh", "two-bank-adversary", refresh=False, **SDR)
        add("sdr-noap-norefresh", "other-bank-altrows-writes", refresh=False, ap=False, **SDR)
        add("sdr-refresh", "other-bank-writes", refresh=True, **SDR)
        add("sdr-refresh", "same-bank-gap3", refresh=True, **SDR)
        add("sdr-refresh", "other-bank-altrows-writes-1victim", refresh=True, **SDR)
        add("sdr-depth1-norefresh", "other-bank-mixed", refresh=False, depth=1, **SDR)
        add("sdr-depth1-norefresh", "same-bank-freeidle", refresh=False, depth=1, **SDR)
        add("sdr-rt3-wt5-norefresh", "other-bank-reads", refresh=False, read_time=3, write_time=5, **SDR)       # time-outs of the form 2^k + 1
        add("sdr-rt5-wt3-norefresh", "other-bank-writes", refresh=False, read_time=5, write_time=3, **SDR)
        add("sdr-tccd2-norefresh", "other-bank-reads", refresh=False, timing=dict(tCCD=2), **SDR)
        add("sdr-tccd2-norefresh", "other-bank-writes", refresh=False, timing=dict(tCCD=2), **SDR)
        add("ddr3x4-norefresh", "other-bank-altrows-writes", refresh=False, **DDR3)
        add("ddr3x4-norefresh", "same-bank-gap3", refresh=False, **DDR3)
    else:
        for cls in CLASSES:
            if cls == "three-ports": continue
            add("sdr-norefresh", cls, refresh=False, **SDR)
            add("sdr-noap-norefresh", cls, refresh=False, ap=False, **SDR)
            add("ddr3x4-norefresh", cls, refresh=False, **DDR3)
            if cls != "any-bank-anything":
                add("sdr-refresh", cls, refresh=True, **SDR)
        add("sdr-rt8-wt2-norefresh", "other-bank-writes", refresh=False, read_time=8, write_time=2, **SDR)
        add("sdr-rt9-wt17-norefresh", "other-bank-reads", refresh=False, read_time=9, write_time=17, **SDR)
        add("sdr-rt2-wt9-refresh", "other-bank-reads", refresh=True, read_time=2, write_time=9, **SDR)
        add("sdr-buffered-d4-norefresh", "other-bank-mixed", refresh=False, buffered=True, depth=4, **SDR)
        add("sdr-depth0-norefresh", "other-bank-mixed", refresh=False, depth=0, **SDR)
        add("sdr-depth1-refresh", "same-bank-gap3", refresh=True, depth=1, **SDR)
        add("sdr-depth4-norefresh", "same-bank-gap4-writes", refresh=False, depth=4, **SDR)
        add("sdr-3p-norefresh", "three-ports", refresh=False, **dict(SDR, nports=3))
        add("sdr-3p-refresh", "three-ports", refresh=True, **dict(SDR, nports=3))
    return cs


def run(tier, seed, only=None):
    t0 = time.time()
    jobs = []
    for name, kw, ms in configs(tier):
        if only and only not in name: continue
        jobs.append((runner.mc_run, (PROP, "checks.core", "build", kw), dict(name=name, tier=tier, seed=seed, max_states=ms, liveness=LIVE)))
    res = runner.run_jobs(jobs)
    return runner.finish(PROP, tier, seed, "model_checking", res, t0, ASSUME, RULE, technique="explicit-state BFS of the elaborated netlist (closed graph) + bad-cycle search for liveness")
