"""C08 - clock-domain-crossing ports preserve commands, data and order (every clock interleaving)."""
import time, itertools
from engine import runner, fhdl
from engine.explore import Harness, Violation

PROP = "C08"
ASSUME = [
    "the tick set of every step is a free choice among {user}, {sys}, {user, sys}: every frequency ratio, phase relation and drift between the two clocks is enumerated (no bound on consecutive ticks of one clock)",
    "producers/consumers are synchronous to their own domain: a value they drive is chosen at a tick of their domain; a producer holds valid and payload until accepted; consumer ready is free at every tick (any back-pressure)",
    "payloads are sequence numbers mod 16 (more than twice the buffering), so loss, duplication, re-ordering and corruption are all visible",
    "MultiReg synchronisers are two flip-flops as in migen.sim; metastability and multi-bit sampling skew are outside any cycle-level model (stated, not claimed)",
    "memory-level statement: the port is three independent FIFOs (command, write data, read data); exactly-once in-order delivery on each plus the master assumptions of C01 give unchanged memory semantics",
]
RULE = ("complete reachable graph per stream (command, write data, read data) and for the three streams together (depth-capped in the quick tier); oracle per stream: every accepted item is delivered exactly once, "
        "in order, with its payload intact, and nothing is delivered that was not sent")
M = 16
EV_OUT = 1; EV_PROG = 2
TICKS = (("sys", "user"), ("user",), ("sys",))


class CdcHarness(Harness):
    multiclock = True

    def __init__(self, streams=("cmd",), depth=4, dw=8, aw=4):
        from litedram.common import LiteDRAMNativePort
        from litedram.frontend.adapter import LiteDRAMNativePortCDC
        pf = LiteDRAMNativePort("both", aw, dw, clock_domain="user"); pt = LiteDRAMNativePort("both", aw, dw)
        dut = LiteDRAMNativePortCDC(pf, pt, cmd_depth=depth, wdata_depth=depth, rdata_depth=depth)
        # stream table: (name, producer endpoint, consumer endpoint, producer domain, consumer domain, payload fields)
        table = {"cmd": (pf.cmd, pt.cmd, "user", "sys", ("addr", "we", "last")), "wdata": (pf.wdata, pt.wdata, "user", "sys", ("data", "we")), "rdata": (pt.rdata, pf.rdata, "sys", "user", ("data",))}
        self.streams = [(n,) + table[n] for n in streams]
        reads = []
        for n, pe, ce, pd, cd, fields in self.streams:
            reads += [pe.ready, ce.valid] + [getattr(ce, f) for f in fields]
        self.c = c = fhdl.compile_harness(dut, reads, clocks={"sys": 10, "user": 10}, ticksets=[t for t in TICKS])
        ii = c.ii
        self.io = []
        for n, pe, ce, pd, cd, fields in self.streams:
            self.io.append(dict(i_valid=ii[pe.valid], i_fields=[(ii.get(getattr(pe, f)), len(getattr(pe, f))) for f in fields], i_ready=ii[ce.ready],
                                r_pready=c.rd(pe.ready), r_cvalid=c.rd(ce.valid), r_fields=[(c.rd(getattr(ce, f)), len(getattr(ce, f))) for f in fields], pd=pd, cd=cd))
        self.base = list(c.base_inputs)
        self.cov = {}

    def payload(self, seq, k, nbits):
        # field k of item seq: distinct per field so crossed fields are visible.  One-bit fields (cmd.we) are held at 1: the streams are
        # exercised independently here, and a read command without its read data coming back is not a behaviour of the core (the port
        # bounds the reads in flight, so reads that never complete would - rightly - stop the command stream); reads are covered end to
        # end by ReadFlowHarness and GetPortHarness
        if nbits == 1: return 1 if k == 1 else (seq ^ (seq >> 1)) & 1      # field 1 of cmd/wdata is `we`; cmd.last (end-of-burst hint used by converters) varies
        v = (seq * (k * 2 + 1) + k * 5) & 0xffff
        return v & ((1 << nbits) - 1)

    def env0(self):
        # per stream: (send_seq, holding, expect_seq)
        return tuple((0, 0, 0) for _ in self.streams)

    def menu(self, S, E):
        out = []
        for tick in TICKS:
            opts = []
            for (seq, hold, exp), io in zip(E, self.io):
                pv = (1,) if hold else ((1, 0) if io["pd"] in tick else (0,))
                cr = (1, 0) if io["cd"] in tick else (0,)
                opts.append([(v, r) for v in pv for r in cr])
            for combo in itertools.product(*opts):
                out.append((tick, combo))
        return out

    def describe(self, ch):
        tick, combo = ch
        return "tick %s | %s" % ("+".join(tick), " ".join("%s:valid=%d,ready=%d" % (s[0], v, r) for s, (v, r) in zip(self.streams, combo)))

    def drive(self, S, E, ch):
        tick, combo = ch
        I = list(self.base)
        for (seq, hold, exp), io, (v, r) in zip(E, self.io, combo):
            if v:
                I[io["i_valid"]] = 1
                for k, (idx, nb) in enumerate(io["i_fields"]):
                    if idx is not None: I[idx] = self.payload(seq, k, nb)      # a field the netlist does not even read cannot arrive: the scoreboard reports it
            I[io["i_ready"]] = r
        return tuple(I), tick

    def observe(self, S, E, ch, I, O, S2):
        tick, combo = ch
        out = []
        ev = 0; prog = False; pending = False
        for (seq, hold, exp), io, (v, r), st in zip(E, self.io, combo, self.streams):
            if v:
                if io["pd"] in tick and io["r_pready"](S, I, O):
                    seq = (seq + 1) % M; hold = 0; prog = True
                else:
                    hold = 1
            if io["cd"] in tick and r and io["r_cvalid"](S, I, O):
                prog = True
                for k, (rd, nb) in enumerate(io["r_fields"]):
                    got = rd(S, I, O); want = self.payload(exp, k, nb)
                    if got != want:
                        self.report("cdc.stream_mismatch", "stream %s: delivered field %d = %x, expected item #%d with %x (lost, duplicated, re-ordered or corrupted)" % (st[0], k, got, exp, want), stream=st[0])
                        break
                exp = (exp + 1) % M
                self.cov["delivered_" + st[0]] = self.cov.get("delivered_" + st[0], 0) + 1
            if seq != exp or hold: pending = True
            out.append((seq, hold, exp))
        # liveness under a cooperative environment: both clocks tick together and every consumer is ready
        coop = tick == TICKS[0] and all(r for (v, r) in combo)
        if coop and pending: ev |= EV_OUT
        if prog: ev |= EV_PROG
        return tuple(out), ev

    def coverage(self): return dict(self.cov)


def build(**kw):
    kw["streams"] = tuple(kw.get("streams", ("cmd",)))
    return CdcHarness(**kw)

LIVE = [("everything sent is delivered when both clocks run and consumers are ready", EV_OUT, EV_PROG)]


def configs(tier):
    cs = []
    def add(name, max_states=3_000_000, max_depth=None, live=True, **kw): cs.append((name, kw, max_states, max_depth, live))
    if tier == "quick":
        for s in ("cmd", "wdata", "rdata"):
            add("%s-depth4" % s, streams=[s], depth=4)
        add("cmd-depth8", streams=["cmd"], depth=8)
        add("all3-depth4-shallow", streams=["cmd", "wdata", "rdata"], depth=4, max_states=150_000, live=False)
    else:
        for s in ("cmd", "wdata", "rdata"):
            for d in (4, 8, 16):
                add("%s-depth%d" % (s, d), streams=[s], depth=d)
        add("cmd+rdata-depth4", streams=["cmd", "rdata"], depth=4, max_states=6_000_000, live=False)
        add("all3-depth4", streams=["cmd", "wdata", "rdata"], depth=4, max_states=6_000_000, live=False)
    return cs


def getport_configs(tier):
    if tier == "quick":
        return [("getport-user8-on-16-K2", dict(user_width=8, K=2), 1_500_000), ("getport-user32-on-16-K1", dict(user_width=32, K=1), 1_500_000)]
    return [("getport-user8-on-16-K2", dict(user_width=8, K=2), 4_000_000), ("getport-user8-on-16-K3-writes", dict(user_width=8, K=3, ops="W"), 6_000_000),
            ("getport-user32-on-16-K2", dict(user_width=32, K=2), 6_000_000)]


def run(tier, seed, only=None):
    t0 = time.time()
    jobs = []
    for name, kw, ms in getport_configs(tier):
        if only and only not in name: continue
        jobs.append((runner.mc_run, (PROP, "checks.c08", "build_getport", kw), dict(name=name, tier=tier, seed=seed, max_states=ms, post="final_check")))
    rf = [("readflow-cmd4-rdata4", dict(cmd_depth=4, rdata_depth=4), 2_000_000), ("readflow-cmd4-rdata8-shallow", dict(cmd_depth=4, rdata_depth=8), 400_000)] if tier == "quick" else \
         [("readflow-cmd4-rdata4", dict(cmd_depth=4, rdata_depth=4), 4_000_000), ("readflow-cmd4-rdata8", dict(cmd_depth=4, rdata_depth=8), 8_000_000),
          ("readflow-cmd4-rdata16-defaults", dict(cmd_depth=4, rdata_depth=16), 8_000_000), ("readflow-cmd8-rdata4", dict(cmd_depth=8, rdata_depth=4), 4_000_000)]
    for name, kw, ms in rf:
        if only and only not in name: continue
        jobs.append((runner.mc_run, (PROP, "checks.c08", "build_readflow", kw), dict(name=name, tier=tier, seed=seed, max_states=ms)))
    for name, kw, ms, md, live in configs(tier):
        if only and only not in name: continue
        jobs.append((runner.mc_run, (PROP, "checks.c08", "build", kw), dict(name=name, tier=tier, seed=seed, max_states=ms, max_depth=md, liveness=LIVE if live else ())))
    res = runner.run_jobs(jobs)
    return runner.finish(PROP, tier, seed, "model_checking", res, t0, ASSUME, RULE, technique="explicit-state BFS over all clock interleavings of the elaborated two-domain netlist with per-stream scoreboards")


# ================================================================================================ read path under the core's real behaviour

class ReadFlowHarness(Harness):
    """LiteDRAMNativePortCDC as get_port(clock_domain=...) creates it (explicit FIFO depths), read path closed the way the real core behaves:
    the crossbar returns read data as a one-cycle rdata.valid pulse a fixed number of sys cycles after it took the command and IGNORES
    rdata.ready (core/crossbar.py never reads it) - so a word that arrives while the read-data FIFO is not writable is lost.  User side:
    unbounded read commands, free back-pressure on the read data; every clock interleaving."""
    multiclock = True
    LAT = 2
    MS = 64

    def __init__(self, cmd_depth=4, rdata_depth=8):
        from litedram.common import LiteDRAMNativePort
        from litedram.frontend.adapter import LiteDRAMNativePortCDC
        pf = LiteDRAMNativePort("read", 6, 8, clock_domain="user"); pt = LiteDRAMNativePort("read", 6, 8)
        dut = LiteDRAMNativePortCDC(pf, pt, cmd_depth=cmd_depth, rdata_depth=rdata_depth)
        self.rdata_depth = rdata_depth
        # sequence numbers modulo more than everything that can be in flight (command FIFO + core pipeline + read-data FIFO)
        self.MS = 1 << (cmd_depth + rdata_depth + self.LAT + 2).bit_length()
        reads = [pf.cmd.ready, pf.rdata.valid, pf.rdata.data, pt.cmd.valid, pt.cmd.addr, pt.cmd.we, pt.rdata.ready]
        self.c = c = fhdl.compile_harness(dut, reads, clocks={"sys": 10, "user": 10}, ticksets=[t for t in TICKS])
        ii = c.ii; R = c.rd
        self.i_valid = ii[pf.cmd.valid]; self.i_addr = ii[pf.cmd.addr]; self.i_we = ii.get(pf.cmd.we); self.i_rready = ii[pf.rdata.ready]
        self.i_sready = ii[pt.cmd.ready]; self.i_svalid = ii[pt.rdata.valid]; self.i_sdata = ii[pt.rdata.data]
        self.r_uready = R(pf.cmd.ready); self.r_uvalid = R(pf.rdata.valid); self.r_udata = R(pf.rdata.data)
        self.r_svalid = R(pt.cmd.valid); self.r_saddr = R(pt.cmd.addr); self.r_srready = R(pt.rdata.ready)
        self.base = list(c.base_inputs); self.base[self.i_sready] = 1
        self.cov = {}

    @staticmethod
    def data_of(a): return (a * 7 + 3) & 0xff

    # env: (send_seq, hold, next address expected on the sys side, pipe: tuple of (remaining, addr), next address expected by the user, words in the read-data FIFO)
    def env0(self): return (0, 0, 0, (), 0, 0)

    def menu(self, S, E):
        seq, hold, sexp, pipe, uexp, occ = E
        out = []
        for tick in TICKS:
            pv = (1,) if hold else ((1, 0) if "user" in tick else (0,))
            cr = (1, 0) if "user" in tick else (0,)
            out += [(tick, v, r) for v in pv for r in cr]
        return out

    def describe(self, ch): return "tick %s | read cmd valid=%d | user rdata.ready=%d" % ("+".join(ch[0]), ch[1], ch[2])

    def drive(self, S, E, ch):
        seq, hold, sexp, pipe, uexp, occ = E
        tick, v, r = ch
        I = list(self.base)
        if v:
            I[self.i_valid] = 1; I[self.i_addr] = seq
        I[self.i_rready] = r
        if "sys" in tick and pipe and pipe[0][0] == 0:
            I[self.i_svalid] = 1; I[self.i_sdata] = self.data_of(pipe[0][1])
        return tuple(I), tick

    def observe(self, S, E, ch, I, O, S2):
        seq, hold, sexp, pipe, uexp, occ = E
        tick, v, r = ch
        if v:
            if "user" in tick and self.r_uready(S, I, O): seq = (seq + 1) % self.MS; hold = 0
            else: hold = 1
        if "user" in tick and r and self.r_uvalid(S, I, O):
            got = self.r_udata(S, I, O)
            if got != self.data_of(uexp):
                self.report("cdc.read_stream_mismatch", "user port received %02x, expected the word of read #%d (%02x)" % (got, uexp, self.data_of(uexp)), stream="rdata")
            uexp = (uexp + 1) % self.MS; occ -= 1
            self.cov["words"] = self.cov.get("words", 0) + 1
        if "sys" in tick:
            if pipe and pipe[0][0] == 0:
                if not self.r_srready(S, I, O):
                    raise Violation("cdc.read_word_dropped", "the core returned the word of read #%d while the read-data FIFO was not writable: the word is lost (%d words waiting for the user, "
                                    "configured rdata_depth %d); the port does not bound the reads in flight to what the FIFO can hold" % (pipe[0][1], occ, self.rdata_depth),
                                    fifo_full_as_configured=bool(occ >= self.rdata_depth))
                occ += 1; pipe = pipe[1:]
            pipe = tuple((max(0, d - 1), a) for d, a in pipe)
            if self.r_svalid(S, I, O):
                a = self.r_saddr(S, I, O)
                if a != sexp: self.report("cdc.stream_mismatch", "command stream: delivered address %d, expected %d" % (a, sexp), stream="cmd")
                sexp = (sexp + 1) % self.MS
                pipe = pipe + ((self.LAT, a),)
        return (seq, hold, sexp, pipe, uexp, occ), 0

    def coverage(self): return dict(self.cov)


def build_readflow(**kw): return ReadFlowHarness(**kw)


# ================================================================================================ get_port(clock_domain=..., data_width=...)

class GetPortHarness(Harness):
    """The port exactly as LiteDRAMCrossbar.get_port(clock_domain="user", data_width=W) composes it (crossbar arbitration + CDC + width
    converter placed in the user domain) over a stub of the controller interface played by the environment in the sys domain; the user-side
    master lives in the user domain; every clock interleaving is explored.  Byte-addressed reference as in C07."""
    multiclock = True
    WLAT = 1; RLAT = 3          # crossbar: write_latency + 1, read_latency + 1 with the stub's phy settings (0, 2)
    MINLAT = 2                  # a bank machine strobes no earlier than 2 cycles after it accepted the command (look-ahead FIFO + buffer), so the
                                # port sees wdata.ready >= 3 + write_latency cycles after acceptance, as with the real core (DESIGN 3.3)

    def __init__(self, user_width=8, K=2, ops="RW", naddr=None):
        from migen import Module
        from litedram.common import LiteDRAMInterface
        from litedram.core.crossbar import LiteDRAMCrossbar
        class St: pass
        st = St(); st.phy = St(); st.geom = St()
        st.phy.nranks = 1; st.phy.dfi_databits = 16; st.phy.nphases = 1; st.phy.read_latency = 2; st.phy.write_latency = 0
        st.geom.bankbits = 1; st.geom.rowbits = 3; st.geom.colbits = 4
        st.cmd_buffer_depth = 2; st.address_mapping = "ROW_BANK_COL"
        itf = LiteDRAMInterface(0, st)
        top = Module()
        top.submodules.xbar = xbar = LiteDRAMCrossbar(itf)
        port = xbar.get_port(clock_domain="user", data_width=user_width)
        self.itf, self.port = itf, port
        self.cw = itf.data_width; self.uw = user_width
        self.bu, self.bc = user_width // 8, self.cw // 8
        banks = [getattr(itf, "bank%d" % b) for b in range(2)]
        self.banks = banks
        sysport = xbar.masters[0]
        reads = [port.cmd.ready, port.wdata.ready, port.rdata.valid, port.rdata.data, itf.wdata, itf.wdata_we, sysport.wdata.valid]
        for bk in banks: reads += [bk.valid, bk.we, bk.addr]
        self.c = c = fhdl.compile_harness(top, reads, clocks={"sys": 10, "user": 10}, ticksets=[t for t in TICKS])
        ii = c.ii; R = c.rd
        self.i_valid = ii[port.cmd.valid]; self.i_we = ii[port.cmd.we]; self.i_addr = ii[port.cmd.addr]; self.i_last = ii.get(port.cmd.last); self.i_flush = ii.get(port.flush)
        self.i_wvalid = ii[port.wdata.valid]; self.i_wdata = ii[port.wdata.data]; self.i_wwe = ii[port.wdata.we]; self.i_rready = ii[port.rdata.ready]
        self.r_ready = R(port.cmd.ready); self.r_wready = R(port.wdata.ready); self.r_rvalid = R(port.rdata.valid); self.r_rdata = R(port.rdata.data)
        self.r_wdata = R(itf.wdata); self.r_wwe = R(itf.wdata_we); self.r_sys_wvalid = R(sysport.wdata.valid)
        self.late = 0
        self.ib = [dict(ready=ii[bk.ready], wdata_ready=ii[bk.wdata_ready], rdata_valid=ii[bk.rdata_valid], lock=ii.get(bk.lock)) for bk in banks]
        self.rb = [dict(valid=R(bk.valid), we=R(bk.we), addr=R(bk.addr)) for bk in banks]
        self.i_rdata = ii[itf.rdata]
        self.base = list(c.base_inputs); self.base[self.i_rready] = 1
        self.total_bytes = 2 * max(self.bu, self.bc)
        self.nuser = self.total_bytes // self.bu if naddr is None else naddr
        self.K = K
        alpha = [None]
        if "R" in ops: alpha += [("R", a) for a in range(self.nuser)]
        if "W" in ops: alpha += [("W", a) for a in range(self.nuser)]
        self.alpha = alpha
        self.cov = {}

    def bval(self, baddr, tag): return 0x80 | ((tag & 3) << 5) | (baddr & 31)

    def uword(self, addr, tag):
        w = 0
        for l in range(self.bu): w |= self.bval(addr * self.bu + l, tag) << (8 * l)
        return w

    def core_init(self, a):
        w = 0
        for l in range(self.bc): w |= self.bval(a * self.bc + l, 0) << (8 * l)
        return w

    # env: (pend, budget, wq, rq, ref bytes, cq: accepted core commands (bank, we, addr), wsched: tuple of (due, bank-relative addr) , rsched: tuple of (due, data), mem)
    def env0(self):
        return (None, self.K, (), (), tuple(self.bval(b, 0) for b in range(self.total_bytes)), (), (), (), (), 0)

    def core_addr(self, bank, rca):
        # inverse of the crossbar mapping for this stub geometry: bank bit sits at colbits - align = 4
        return (rca & 0xf) | (bank << 4) | ((rca >> 4) << 5)

    def mem_get(self, mem, a):
        for k, v in mem:
            if k == a: return v
        return self.core_init(a)

    def menu(self, S, E):
        pend, bud, wq, rq, ref, cq, wsched, rsched, mem, late = E
        out = []
        for tick in TICKS:
            ms = (None,)
            if "user" in tick and pend is None and bud > 0: ms = self.alpha
            ss = [(0, 0)]
            if "sys" in tick:
                ss = [(rdy, srv) for rdy in ((3, 0) if len(cq) < 3 else (0,)) for srv in ((1, 0) if (cq and cq[0][3] >= self.MINLAT) else (0,))]
            for m in ms:
                for s_ in ss: out.append((tick, m, s_))
        return out

    def describe(self, ch):
        tick, m, (rdy, srv) = ch
        return "tick %s | %s | bank.ready=%d serve=%d" % ("+".join(tick), "-" if m is None else "%s a%d" % m, rdy, srv)

    def drive(self, S, E, ch):
        pend, bud, wq, rq, ref, cq, wsched, rsched, mem, late = E
        tick, m, (rdy, srv) = ch
        I = list(self.base)
        cmd = pend if pend is not None else m
        if cmd is not None:
            I[self.i_valid] = 1; I[self.i_addr] = cmd[1]; I[self.i_we] = 1 if cmd[0] == "W" else 0
            if self.i_last is not None: I[self.i_last] = 1
        elif self.i_flush is not None: I[self.i_flush] = 1
        if pend is None and m is not None and m[0] == "W": wq = wq + ((m[1], self.K - bud + 1),)
        if wq:
            I[self.i_wvalid] = 1; I[self.i_wdata] = self.uword(wq[0][0], wq[0][1]); I[self.i_wwe] = (1 << self.bu) - 1
        for b in range(2): I[self.ib[b]["ready"]] = (rdy >> b) & 1
        if srv and cq:
            b, we, a, age = cq[0]
            I[self.ib[b]["wdata_ready" if we else "rdata_valid"]] = 1
        if rsched and rsched[0][0] == 0: I[self.i_rdata] = rsched[0][1]
        return tuple(I), tick

    def observe(self, S, E, ch, I, O, S2):
        pend, bud, wq, rq, ref, cq, wsched, rsched, mem, late = E
        tick, m, (rdy, srv) = ch
        cmd = pend if pend is not None else m
        if pend is None and m is not None:
            tag = self.K - bud + 1; bud -= 1
            if m[0] == "W": wq = wq + ((m[1], tag),)
            cmd = m + (tag,)
        if "user" in tick:
            if cmd is not None and self.r_ready(S, I, O):
                if cmd[0] == "W":
                    ref = list(ref)
                    for l in range(self.bu): ref[cmd[1] * self.bu + l] = self.bval(cmd[1] * self.bu + l, cmd[2])
                    ref = tuple(ref)
                else:
                    rq = rq + (tuple(ref[cmd[1] * self.bu:(cmd[1] + 1) * self.bu]),)
                cmd = None
            if wq and self.r_wready(S, I, O): wq = wq[1:]
            if self.r_rvalid(S, I, O):
                if not rq: raise Violation("getport.rdata_without_read", "read word delivered to the user port without an outstanding read")
                got = self.r_rdata(S, I, O); gb = tuple((got >> (8 * l)) & 0xff for l in range(self.bu))
                if gb != rq[0]:
                    self.report("getport.read_mismatch", "user port read %s, expected %s" % (["%02x" % x for x in gb], ["%02x" % x for x in rq[0]]), after_late_write_beat=bool(late))
                rq = rq[1:]; self.cov["reads"] = self.cov.get("reads", 0) + 1
        if "sys" in tick:
            mem_d = dict(mem)
            # scheduled data transfers
            nws = []
            for due, a in wsched:
                if due == 0:
                    if not self.r_sys_wvalid(S, I, O):
                        self.report("getport.write_beat_late", "the controller strobes the write data of core address %d but the beat has not crossed into the sys domain yet "
                                    "(command and data travel through separate FIFOs; the converter queues the data after the command)" % a, kind="data_lags_command")
                        late = 1
                    d = self.r_wdata(S, I, O); we = self.r_wwe(S, I, O); w = mem_d.get(a, self.core_init(a))
                    for l in range(self.bc):
                        if (we >> l) & 1: w = (w & ~(0xff << (8 * l))) | (d & (0xff << (8 * l)))
                    mem_d[a] = w
                else: nws.append((due - 1, a))
            wsched = tuple(nws)
            if rsched and rsched[0][0] == 0: rsched = rsched[1:]
            rsched = tuple((d - 1, x) for d, x in rsched)
            # serve the oldest accepted command
            cq = tuple((b_, w_, a_, min(g_ + 1, self.MINLAT)) for (b_, w_, a_, g_) in cq)
            if srv and cq:
                b, we, a, age = cq[0]; cq = cq[1:]
                if we: wsched = wsched + ((self.WLAT - 1, a),) if self.WLAT > 0 else wsched
                else: rsched = rsched + ((self.RLAT - 1, mem_d.get(a, self.core_init(a))),)
                if we and self.WLAT == 0: pass
            # accept commands offered to the banks
            for b in range(2):
                if (rdy >> b) & 1 and self.rb[b]["valid"](S, I, O):
                    a = self.core_addr(b, self.rb[b]["addr"](S, I, O))
                    if a * self.bc >= self.total_bytes:
                        raise Violation("getport.address_out_of_range", "controller-side address %d outside the addressed window" % a)
                    cq = cq + ((b, self.rb[b]["we"](S, I, O), a, 0),)
            mem = tuple(sorted(mem_d.items()))
        # quiescence: everything done -> memory == reference
        if cmd is None and bud == 0 and not wq and not rq and not cq and not wsched and not rsched:
            memb = []
            for a in range(self.total_bytes // self.bc):
                w = self.mem_get(mem, a); memb += [(w >> (8 * l)) & 0xff for l in range(self.bc)]
            self.cov["quiescent"] = self.cov.get("quiescent", 0) + 1
        return (cmd, bud, wq, rq, ref, cq, wsched, rsched, mem, late), 0

    def final_check(self, res):
        """post pass: states in which the master is done and nothing is outstanding and which are fixed points under (both clocks, idle, flush):
        memory must equal the reference"""
        from engine import explore
        viols = []; fp = 0
        ch = (TICKS[0], None, (3, 0))
        for st, i in res.index.items():
            S, E = st
            pend, bud, wq, rq, ref, cq, wsched, rsched, mem, late = E
            if pend is not None or bud or cq or wsched or rsched: continue
            try: S2, E2, ev, vl = self.step(S, E, ch)
            except Violation: continue
            if (S2, E2) != st: continue
            fp += 1
            memb = []
            for a in range(self.total_bytes // self.bc):
                w = self.mem_get(mem, a); memb += [(w >> (8 * l)) & 0xff for l in range(self.bc)]
            if tuple(memb) != ref or wq or rq:
                if not viols:
                    v = Violation("getport.quiescent_mismatch", "everything idle: memory %s, reference %s, leftover write data %s, unanswered reads %s" % (
                        ["%02x" % x for x in memb], ["%02x" % x for x in ref], list(wq), len(rq)), after_late_write_beat=bool(late))
                    v.recoverable = True
                    viols.append((explore.trace_of_id(res.parent, res.pchoice, i), v))
        self.cov["quiescent_fixed_points"] = fp
        return {"violations": viols, "info": {"quiescent_fixed_points": fp}}

    def coverage(self): return dict(self.cov)


def build_getport(**kw): return GetPortHarness(**kw)
