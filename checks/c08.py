"""C08 - clock-domain-crossing ports preserve commands, data and order (every clock interleaving)."""
import time, itertools
from engine import runner, fhdl
from engine.explore import Harness, Violation

PROP = "C08"
ASSUME = [
    "the tick set of every step is a free choice among {user}, {sys}, {user, sys}: every frequency ratio, phase relation and drift between the two clocks is enumerated (no bound on consecutive ticks of one clock)",
    "producers/consumers are synchronous to their own domain: a value they drive is chosen at a tick of their domain; a producer holds valid and payload until accepted; consumer ready is free at every tick (any back-pressure)",
    "payloads are sequence numbers mod 16 (more than twice the buffering), so loss, duplication, re-ordering and corruption are all visible",
    "MultiReg synchronisers are two flip-flops as in migen.sim; metastability and multi-bit sampling skew are outside any cycle-level model (stated, not claimed)",
    "memory-level statement: the port is three independent FIFOs (command, write data, read data); exactly-once in-order delivery on each plus the master assumptions of C01 give unchanged memory semantics",
]
RULE = ("complete reachable graph per stream (command, write data, read data) and for the three streams together (depth-capped in the quick tier); oracle per stream: every accepted item is delivered exactly once, "
        "in order, with its payload intact, and nothing is delivered that was not sent")
M = 16
EV_OUT = 1; EV_PROG = 2
TICKS = (("sys", "user"), ("user",), ("sys",))


class CdcHarness(Harness):
    multiclock = True

    def __init__(self, streams=("cmd",), depth=4, dw=8, aw=4):
        from litedram.common import LiteDRAMNativePort
        from litedram.frontend.adapter import LiteDRAMNativePortCDC
        pf = LiteDRAMNativePort("both", aw, dw, clock_domain="user"); pt = LiteDRAMNativePort("both", aw, dw)
        dut = LiteDRAMNativePortCDC(pf, pt, cmd_depth=depth, wdata_depth=depth, rdata_depth=depth)
        # stream table: (name, producer endpoint, consumer endpoint, producer domain, consumer domain, payload fields)
        table = {"cmd": (pf.cmd, pt.cmd, "user", "sys", ("addr", "we")), "wdata": (pf.wdata, pt.wdata, "user", "sys", ("data", "we")), "rdata": (pt.rdata, pf.rdata, "sys", "user", ("data",))}
        self.streams = [(n,) + table[n] for n in streams]
        reads = []
        for n, pe, ce, pd, cd, fields in self.streams:
            reads += [pe.ready, ce.valid] + [getattr(ce, f) for f in fields]
        self.c = c = fhdl.compile_harness(dut, reads, clocks={"sys": 10, "user": 10}, ticksets=[t for t in TICKS])
        ii = c.ii
        self.io = []
        for n, pe, ce, pd, cd, fields in self.streams:
            self.io.append(dict(i_valid=ii[pe.valid], i_fields=[(ii[getattr(pe, f)], len(getattr(pe, f))) for f in fields], i_ready=ii[ce.ready],
                                r_pready=c.rd(pe.ready), r_cvalid=c.rd(ce.valid), r_fields=[(c.rd(getattr(ce, f)), len(getattr(ce, f))) for f in fields], pd=pd, cd=cd))
        self.base = list(c.base_inputs)
        self.cov = {}

    def payload(self, seq, k, nbits):
        # field k of item seq: distinct per field so crossed fields are visible
        v = (seq * (k * 2 + 1) + k * 5) & 0xffff
        return v & ((1 << nbits) - 1)

    def env0(self):
        # per stream: (send_seq, holding, expect_seq)
        return tuple((0, 0, 0) for _ in self.streams)

    def menu(self, S, E):
        out = []
        for tick in TICKS:
            opts = []
            for (seq, hold, exp), io in zip(E, self.io):
                pv = (1,) if hold else ((1, 0) if io["pd"] in tick else (0,))
                cr = (1, 0) if io["cd"] in tick else (0,)
                opts.append([(v, r) for v in pv for r in cr])
            for combo in itertools.product(*opts):
                out.append((tick, combo))
        return out

    def describe(self, ch):
        tick, combo = ch
        return "tick %s | %s" % ("+".join(tick), " ".join("%s:valid=%d,ready=%d" % (s[0], v, r) for s, (v, r) in zip(self.streams, combo)))

    def drive(self, S, E, ch):
        tick, combo = ch
        I = list(self.base)
        for (seq, hold, exp), io, (v, r) in zip(E, self.io, combo):
            if v:
                I[io["i_valid"]] = 1
                for k, (idx, nb) in enumerate(io["i_fields"]): I[idx] = self.payload(seq, k, nb)
            I[io["i_ready"]] = r
        return tuple(I), tick

    def observe(self, S, E, ch, I, O, S2):
        tick, combo = ch
        out = []
        ev = 0; prog = False; pending = False
        for (seq, hold, exp), io, (v, r), st in zip(E, self.io, combo, self.streams):
            if v:
                if io["pd"] in tick and io["r_pready"](S, I, O):
                    seq = (seq + 1) % M; hold = 0; prog = True
                else:
                    hold = 1
            if io["cd"] in tick and r and io["r_cvalid"](S, I, O):
                prog = True
                for k, (rd, nb) in enumerate(io["r_fields"]):
                    got = rd(S, I, O); want = self.payload(exp, k, nb)
                    if got != want:
                        self.report("cdc.stream_mismatch", "stream %s: delivered field %d = %x, expected item #%d with %x (lost, duplicated, re-ordered or corrupted)" % (st[0], k, got, exp, want), stream=st[0])
                        break
                exp = (exp + 1) % M
                self.cov["delivered_" + st[0]] = self.cov.get("delivered_" + st[0], 0) + 1
            if seq != exp or hold: pending = True
            out.append((seq, hold, exp))
        # liveness under a cooperative environment: both clocks tick together and every consumer is ready
        coop = tick == TICKS[0] and all(r for (v, r) in combo)
        if coop and pending: ev |= EV_OUT
        if prog: ev |= EV_PROG
        return tuple(out), ev

    def coverage(self): return dict(self.cov)


def build(**kw):
    kw["streams"] = tuple(kw.get("streams", ("cmd",)))
    return CdcHarness(**kw)

LIVE = [("everything sent is delivered when both clocks run and consumers are ready", EV_OUT, EV_PROG)]


def configs(tier):
    cs = []
    def add(name, max_states=3_000_000, max_depth=None, live=True, **kw): cs.append((name, kw, max_states, max_depth, live))
    if tier == "quick":
        for s in ("cmd", "wdata", "rdata"):
            add("%s-depth4" % s, streams=[s], depth=4)
        add("cmd-depth8", streams=["cmd"], depth=8)
        add("all3-depth4-shallow", streams=["cmd", "wdata", "rdata"], depth=4, max_states=150_000, live=False)
    else:
        for s in ("cmd", "wdata", "rdata"):
            for d in (4, 8, 16):
                add("%s-depth%d" % (s, d), streams=[s], depth=d)
        add("cmd+rdata-depth4", streams=["cmd", "rdata"], depth=4, max_states=6_000_000, live=False)
        add("all3-depth4", streams=["cmd", "wdata", "rdata"], depth=4, max_states=6_000_000, live=False)
    return cs


def run(tier, seed, only=None):
    t0 = time.time()
    jobs = []
    for name, kw, ms, md, live in configs(tier):
        if only and only not in name: continue
        jobs.append((runner.mc_run, (PROP, "checks.c08", "build", kw), dict(name=name, tier=tier, seed=seed, max_states=ms, max_depth=md, liveness=LIVE if live else ())))
    res = runner.run_jobs(jobs)
    return runner.finish(PROP, tier, seed, "model_checking", res, t0, ASSUME, RULE, technique="explicit-state BFS over all clock interleavings of the elaborated two-domain netlist with per-stream scoreboards")
