"""C12 - DMA reader and writer stream exactly once, in order, without overrun."""
import time
from engine import runner, fhdl
from engine.explore import Harness, Violation
from checks.responder import Responder

PROP = "C12"
ASSUME = [
    "address/data producer follows the stream protocol (valid and payload held until ready); consumer ready is a free choice every cycle (unbounded stalls)",
    "memory below = native-port responder restricted to real-core behaviour (read data >= 6 / write strobe >= 3 cycles after acceptance, in order, strobes ignore valid/ready)",
    "addresses from a 3-value alphabet with free end-of-stream marks; write data carries a sequence number mod 8 (more than twice the buffering)",
]
RULE = ("complete reachable graph: producer choices x consumer stalls x cmd.ready stalls x memory latency, unbounded; reader: each accepted address yields exactly one word = memory[address], "
        "in order, `last` on the matching word, accepted-minus-delivered <= what the data FIFO really holds (fifo_depth, +1 for a buffered FIFO of depth >= 2), judged at the end of each cycle; writer: each (address,data) pair reaches memory exactly once, in order, data with its own address, full byte enables")

EV_OUT = 1; EV_PROG = 2


def memword(a, dw):
    return (0xA5A5A5A5A5A5A5A5 ^ (a * 0x0101010101010101 * 7)) & ((1 << dw) - 1)


class _NS: pass


def axi_as_native(axi, mode):
    """an AXI port seen through the native-port responder in its decoupled (stream) mode: AR/AW = command stream, W = write-data stream whose
    ready is independent of AW, R = read data held until RREADY - exactly the handshake freedom an AXI slave has"""
    p = _NS(); p.mode = mode; p.data_width = axi.data_width; p.axi = axi
    ch = axi.ar if mode == "read" else axi.aw
    p.cmd = _NS(); p.cmd.valid = ch.valid; p.cmd.ready = ch.ready; p.cmd.addr = ch.addr; p.cmd.we = None; p.cmd.size = ch.size; p.cmd.len = ch.len
    p.wdata = _NS(); p.wdata.valid = axi.w.valid; p.wdata.ready = axi.w.ready; p.wdata.data = axi.w.data; p.wdata.we = axi.w.strb
    p.rdata = _NS(); p.rdata.valid = axi.r.valid; p.rdata.ready = axi.r.ready; p.rdata.data = axi.r.data
    return p


def make_port(mode, dw, axi):
    if axi:
        from litedram.frontend.axi import LiteDRAMAXIPort
        ap = LiteDRAMAXIPort(data_width=dw, address_width=4)
        return ap, axi_as_native(ap, mode)
    from litedram.common import LiteDRAMNativePort
    np_ = LiteDRAMNativePort(mode, 4, dw)
    return np_, np_


class ReaderHarness(Harness):
    def __init__(self, fifo_depth=2, buffered=False, dw=16, naddr=3, wmin=3, rmin=6, qmax=None, decoupled=False, axi=False):
        from litedram.frontend.dma import LiteDRAMDMAReader
        real_port, port = make_port("read", dw, axi)
        if axi: decoupled = True
        self.axi = axi
        self.dut = dut = LiteDRAMDMAReader(real_port, fifo_depth=fifo_depth, fifo_buffered=buffered)
        reads = Responder.reads([port]) + [dut.sink.ready, dut.source.valid, dut.source.data, dut.source.last] + ([port.cmd.size, port.cmd.len] if axi else [])
        self.c = c = fhdl.compile_harness(dut, reads)
        self.dw = dw; self.depth = fifo_depth
        # what the data FIFO can really hold: a buffered FIFO of depth >= 2 has one extra output register; depth 1 is a plain one-word buffer
        self.capacity = fifo_depth + (1 if (buffered and fifo_depth >= 2) else 0)
        self.resp = Responder(c, [port], wmin=wmin, rmin=rmin, qmax=qmax or fifo_depth + 2, mem_init=lambda a: memword(a, dw), decoupled=decoupled)
        ii = c.ii
        self.i_valid = ii[dut.sink.valid]; self.i_addr = ii[dut.sink.address]; self.i_last = ii[dut.sink.last]; self.i_ready = ii[dut.source.ready]
        self.r_sready = c.rd(dut.sink.ready); self.r_valid = c.rd(dut.source.valid); self.r_data = c.rd(dut.source.data); self.r_last = c.rd(dut.source.last)
        self.alpha = [None] + [(a, l) for a in range(naddr) for l in (0, 1)]
        self.base = list(c.base_inputs)
        self.cov = {}
        if axi: self.r_size = c.rd(port.cmd.size); self.r_len = c.rd(port.cmd.len)

    def env0(self):
        return (None, (), (), self.resp.init())        # (pending producer item, addresses accepted and not yet issued, issued (addr,last) awaiting data, responder)

    def menu(self, S, E):
        pend, aq, exp, rs = E
        prod = (None,) if pend is not None else self.alpha
        return [(p, cr, r) for p in prod for cr in (1, 0) for r in self.resp.menu(rs)]

    def describe(self, ch):
        p, cr, rch = ch; rb, serve = rch[0], rch[1]
        return "%s | consumer.ready=%d | cmd.ready=%d serve=%s" % ("-" if p is None else "addr %d last %d" % p, cr, rb, list(serve))

    def drive(self, S, E, ch):
        pend, aq, exp, rs = E
        p, cr, rch = ch
        I = list(self.base)
        item = pend if pend is not None else p
        if item is not None:
            I[self.i_valid] = 1; I[self.i_addr] = item[0]; I[self.i_last] = item[1]
        I[self.i_ready] = cr
        self.resp.drive(rs, rch, I)
        return tuple(I)

    def observe(self, S, E, ch, I, O, S2):
        pend, aq, exp, rs = E
        p, cr, rch = ch
        item = pend if pend is not None else p
        rs2, evs = self.resp.observe(rs, rch, S, I, O)
        prog = bool(evs)
        acc = [e for e in evs if e[0] == "acc"]
        taken = item is not None and self.r_sready(S, I, O)
        if taken:
            aq = aq + (item,); item = None; prog = True      # accepted from the sink; its read command may go out now or later (a core may buffer addresses)
        if acc:
            if not aq: raise Violation("dma.read_without_address", "a read command was issued although no address accepted from the sink is waiting for one")
            if acc[0][3] != aq[0][0] or acc[0][2]: raise Violation("dma.read_wrong_address", "read command address %d (we=%d), next accepted sink address %d" % (acc[0][3], acc[0][2], aq[0][0]))
            if self.axi and (self.r_size(S, I, O) != (self.dw // 8).bit_length() - 1 or self.r_len(S, I, O) != 0):
                self.report("dma.axi_burst_shape", "AR beat with size=%d len=%d: one full-width beat expected" % (self.r_size(S, I, O), self.r_len(S, I, O)))
            exp = exp + (aq[0],); aq = aq[1:]
        if cr and self.r_valid(S, I, O):
            if not exp: raise Violation("dma.word_without_address", "a data word was emitted although no read is outstanding")
            a, l = exp[0]; exp = exp[1:]; prog = True
            d = self.r_data(S, I, O)
            if d != memword(a, self.dw): self.report("dma.reader_data", "emitted %x, expected memory[%d] = %x" % (d, a, memword(a, self.dw)))
            if self.r_last(S, I, O) != l: self.report("dma.reader_last", "end-of-stream mark %d on the word of address %d, expected %d" % (self.r_last(S, I, O), a, l))
            self.cov["words"] = self.cov.get("words", 0) + 1
        # judged at the end of the cycle: a one-word buffer may hand over a word and take the next reservation in the same cycle
        if len(exp) > self.capacity:
            # not a violation by itself (a core may hold words in registers behind its FIFO): the property's oracle is the lost word, which the
            # memory below reports (port.read_word_dropped: rdata.valid while the core cannot take it); counted for the evidence only
            self.cov["reads_in_flight_above_fifo_capacity"] = self.cov.get("reads_in_flight_above_fifo_capacity", 0) + 1
        if False:
            self.report("dma.reader_overrun", "%d reads accepted and not yet delivered, the data FIFO holds %d words (fifo_depth %d%s)" % (len(exp), self.capacity, self.depth, ", buffered" if self.capacity > self.depth else ""))
        ev = 0
        coop = cr == 1 and rch == self.resp.default_choice(rs)
        if coop and (pend is not None or aq or exp or rs[0]): ev |= EV_OUT
        if prog: ev |= EV_PROG
        return (item, aq, exp, rs2), ev

    def coverage(self): return dict(self.cov)


class WriterHarness(Harness):
    M = 8

    def __init__(self, fifo_depth=2, buffered=False, dw=16, naddr=3, wmin=3, rmin=6, qmax=None, decoupled=False, axi=False):
        from litedram.frontend.dma import LiteDRAMDMAWriter
        real_port, port = make_port("write", dw, axi)
        if axi: decoupled = True
        self.axi = axi
        self.dut = dut = LiteDRAMDMAWriter(real_port, fifo_depth=fifo_depth, fifo_buffered=buffered)
        reads = Responder.reads([port]) + [dut.sink.ready] + ([port.cmd.size, port.cmd.len, real_port.b.ready] if axi else [])
        self.c = c = fhdl.compile_harness(dut, reads)
        self.dw = dw; self.depth = fifo_depth
        self.resp = Responder(c, [port], wmin=wmin, rmin=rmin, qmax=qmax or fifo_depth + 2, decoupled=decoupled)
        ii = c.ii
        self.i_valid = ii[dut.sink.valid]; self.i_addr = ii[dut.sink.address]; self.i_data = ii[dut.sink.data]
        self.r_sready = c.rd(dut.sink.ready)
        self.naddr = naddr
        self.base = list(c.base_inputs)
        self.cov = {}
        if axi: self.r_size = c.rd(port.cmd.size); self.r_len = c.rd(port.cmd.len); self.r_bready = c.rd(real_port.b.ready)

    def word(self, seq):
        return (seq * 0x1111 + 0x8000) & ((1 << self.dw) - 1)

    def env0(self):
        return (None, 0, (), (), self.resp.init())      # pending addr, next seq, expected cmd queue [(addr, seq)], expected data queue, responder

    def menu(self, S, E):
        pend, seq, ecmd, edat, rs = E
        prod = (None,) if pend is not None else (None,) + tuple(range(self.naddr))
        return [(p, r) for p in prod for r in self.resp.menu(rs)]

    def describe(self, ch):
        p, rch = ch; rb, serve = rch[0], rch[1]
        return "%s | cmd.ready=%d serve=%s" % ("-" if p is None else "pair addr %d" % p, rb, list(serve))

    def drive(self, S, E, ch):
        pend, seq, ecmd, edat, rs = E
        p, rch = ch
        I = list(self.base)
        a = pend if pend is not None else p
        if a is not None:
            I[self.i_valid] = 1; I[self.i_addr] = a; I[self.i_data] = self.word(seq)
        self.resp.drive(rs, rch, I)
        return tuple(I)

    def observe(self, S, E, ch, I, O, S2):
        pend, seq, ecmd, edat, rs = E
        p, rch = ch
        a = pend if pend is not None else p
        rs2, evs = self.resp.observe(rs, rch, S, I, O)
        prog = bool(evs)
        taken = a is not None and self.r_sready(S, I, O)
        if taken:
            ecmd = ecmd + ((a, seq),); seq = (seq + 1) % self.M; a = None; prog = True
        for e in evs:
            if e[0] == "acc":
                if not ecmd: raise Violation("dma.write_without_pair", "a write command was issued although no (address,data) pair is pending")
                (ea, es) = ecmd[0]; ecmd = ecmd[1:]
                if e[3] != ea: self.report("dma.writer_address", "write command address %d, expected %d" % (e[3], ea))
                if self.axi and (self.r_size(S, I, O) != (self.dw // 8).bit_length() - 1 or self.r_len(S, I, O) != 0):
                    self.report("dma.axi_burst_shape", "AW beat with size=%d len=%d: one full-width beat expected" % (self.r_size(S, I, O), self.r_len(S, I, O)))
                edat = edat + ((ea, es),)
            elif e[0] == "w":
                if not edat: raise Violation("dma.write_data_without_command", "write data strobe without command")
                (ea, es) = edat[0]; edat = edat[1:]
                if e[2] != ea or e[3] != self.word(es) or e[4] != (1 << (self.dw // 8)) - 1:
                    self.report("dma.writer_data", "memory[%d] <- %x (we=%x), expected memory[%d] <- %x with all bytes enabled" % (e[2], e[3], e[4], ea, self.word(es)))
                self.cov["words"] = self.cov.get("words", 0) + 1
        ev = 0
        coop = rch == self.resp.default_choice(rs)
        if coop and (pend is not None or ecmd or edat or rs[0]): ev |= EV_OUT
        if prog: ev |= EV_PROG
        return (a, seq, ecmd, edat, rs2), ev

    def coverage(self): return dict(self.cov)


def build_reader(**kw): return ReaderHarness(**kw)
def build_writer(**kw): return WriterHarness(**kw)

LIVE = [("outstanding work completes under a cooperative memory/consumer", EV_OUT, EV_PROG)]


def configs(tier):
    cs = []
    if tier == "quick":
        cs += [("reader-d2", "build_reader", dict(fifo_depth=2)), ("reader-d3-buffered", "build_reader", dict(fifo_depth=3, buffered=True, naddr=1)),
               ("reader-d1", "build_reader", dict(fifo_depth=1)), ("reader-d1-buffered", "build_reader", dict(fifo_depth=1, buffered=True)),
               ("writer-d1", "build_writer", dict(fifo_depth=1)), ("writer-d1-buffered", "build_writer", dict(fifo_depth=1, buffered=True)),
               ("writer-d2", "build_writer", dict(fifo_depth=2)), ("writer-d4-buffered", "build_writer", dict(fifo_depth=4, buffered=True, naddr=2)),
               # the same cores on a port behind stream buffering (CDC / converted port): write data ready independent of commands, read data with back-pressure
               ("reader-d2-axi", "build_reader", dict(fifo_depth=2, naddr=2, axi=True)), ("writer-d2-axi", "build_writer", dict(fifo_depth=2, naddr=2, axi=True)),
               ("reader-d1-buffered-axi", "build_reader", dict(fifo_depth=1, buffered=True, naddr=2, axi=True)), ("writer-d1-axi", "build_writer", dict(fifo_depth=1, naddr=2, axi=True)),
               ("reader-d2-streamport", "build_reader", dict(fifo_depth=2, naddr=2, decoupled=True)), ("writer-d2-streamport", "build_writer", dict(fifo_depth=2, naddr=2, decoupled=True))]
    else:
        for d in (1, 2, 3, 4, 8):
            for b in (False, True):
                cs.append(("reader-d%d%s" % (d, "-buffered" if b else ""), "build_reader", dict(fifo_depth=d, buffered=b, naddr=3 if d <= 2 else (2 if d == 3 else 1))))
                cs.append(("writer-d%d%s" % (d, "-buffered" if b else ""), "build_writer", dict(fifo_depth=d, buffered=b, naddr=3 if d <= 4 else 2)))
        for d in (1, 2, 3, 4):
            for b in (False, True):
                cs.append(("reader-d%d%s-axi" % (d, "-buffered" if b else ""), "build_reader", dict(fifo_depth=d, buffered=b, naddr=2, axi=True)))
                cs.append(("writer-d%d%s-axi" % (d, "-buffered" if b else ""), "build_writer", dict(fifo_depth=d, buffered=b, naddr=2, axi=True)))
        cs.append(("reader-d2-fastmem", "build_reader", dict(fifo_depth=2, rmin=1)))
    return cs


def run(tier, seed, only=None):
    t0 = time.time()
    jobs = []
    for name, fac, kw in configs(tier):
        if only and only not in name: continue
        jobs.append((runner.mc_run, (PROP, "checks.c12", fac, kw), dict(name=name, tier=tier, seed=seed, max_states=4_000_000, liveness=LIVE)))
    res = runner.run_jobs(jobs)
    return runner.finish(PROP, tier, seed, "model_checking", res, t0, ASSUME, RULE, technique="explicit-state BFS to closure of the elaborated DMA netlist with stream scoreboard")
