"""Native-port responder: the port-level specification of crossbar + controller + DRAM below a frontend (DESIGN 3.3).

Behaves like the real core and no more adversarially:
  * cmd.ready is a free choice every cycle (at most `qmax` commands outstanding);
  * a write's wdata.ready is a one-cycle pulse >= wmin cycles after the command was accepted, asserted whether or not
    wdata.valid is high (the crossbar never looks at it): a low valid at that moment is a lost beat -> violation;
  * read data is a one-cycle rdata.valid pulse >= rmin cycles after acceptance, ignoring rdata.ready: a low ready is a
    dropped word -> violation;
  * per port, commands are served in acceptance order (the crossbar locks a master to one bank at a time); across ports,
    two commands to the same address are served in acceptance order; commands to different addresses may complete in
    either order; at most one write strobe and one read strobe per cycle.
Memory effects take place at service time (data strobe), which by the rules above is acceptance order per address.
"""
from engine.explore import Violation


class Responder:
    def __init__(self, c, ports, wmin=3, rmin=6, qmax=3, mem_init=None, addr_ok=None, name="core", decoupled=False, wq_depth=2, addr_base=0):
        """decoupled=True models a native port that sits behind stream buffering (clock-domain-crossing or width-converted port as returned
        by LiteDRAMCrossbar.get_port): write data is an ordinary stream whose ready is independent of the commands (a beat moves when
        valid & ready and is queued), a write takes effect when its command was accepted AND its beat has been queued, and read data is
        offered with valid held until ready.  Frontends must work on such ports as well."""
        self.c = c; self.ports = ports; self.wmin = wmin; self.rmin = rmin; self.qmax = qmax
        self.decoupled = decoupled; self.wq_depth = wq_depth
        self.addr_base = addr_base          # the addressed window starts here on the port (harnesses that exercise the top of the address range)
        self.mem_init = mem_init or (lambda a: 0)
        self.addr_ok = addr_ok or (lambda p, a: True)
        ii = c.ii
        self.i_ready = [ii.get(p.cmd.ready) for p in ports]
        self.i_wready = [ii.get(p.wdata.ready) for p in ports]
        self.i_rvalid = [ii.get(p.rdata.valid) for p in ports]
        self.i_rdata = [ii.get(p.rdata.data) for p in ports]
        self.r_valid = [c.rd(p.cmd.valid) for p in ports]; self.r_we = [(c.rd(p.cmd.we) if p.cmd.we is not None else (lambda S, I, O: 0)) for p in ports]; self.r_addr = [c.rd(p.cmd.addr) for p in ports]
        self.r_wvalid = [c.rd(p.wdata.valid) for p in ports]; self.r_wdata = [c.rd(p.wdata.data) for p in ports]; self.r_wwe = [c.rd(p.wdata.we) for p in ports]
        self.r_rready = [c.rd(p.rdata.ready) for p in ports]
        self.nbytes = [p.data_width // 8 for p in ports]
        self.np = len(ports)
        self.modes = [p.mode for p in ports]

    @staticmethod
    def reads(ports):
        r = []
        for p in ports:
            r += [p.cmd.valid, p.cmd.we, p.cmd.addr, p.wdata.valid, p.wdata.data, p.wdata.we, p.rdata.ready]
        return [x for x in r if x is not None]

    # state: (cq, mem)   cq: tuple of (port, we, addr, age)   mem: sorted tuple of (addr, word)
    def init(self):
        return ((), (), tuple(() for _ in self.ports)) if self.decoupled else ((), ())

    def mem_get(self, mem, a):
        for k, v in mem:
            if k == a: return v
        return self.mem_init(a)

    def mem_set(self, mem, a, v):
        d = dict(mem); d[a] = v
        return tuple(sorted(d.items()))

    def eligible(self, cq, wqs=None):
        """indices of commands that may be served now"""
        out = []
        seen_port = set(); seen_addr = set()
        for i, (p, we, a, age) in enumerate(cq):
            ok = p not in seen_port and a not in seen_addr and age >= (self.wmin if we else self.rmin)
            if ok and we and wqs is not None and not wqs[p]: ok = False
            if ok: out.append(i)
            seen_port.add(p); seen_addr.add(a)
        return out

    def menu(self, rs, readies=None):
        """list of responder choices (ready_bits, serve_tuple); default answer (all ready, serve earliest) first"""
        cq, mem = rs[0], rs[1]
        full = len(cq) >= self.qmax
        el = self.eligible(cq, rs[2] if self.decoupled else None)
        serves = []
        if el:
            serves.append((el[0],))
            for i in el[1:]: serves.append((i,))
            # one write strobe and one read strobe in the same cycle (different ports)
            for x in range(len(el)):
                for y in range(x + 1, len(el)):
                    a, b = cq[el[x]], cq[el[y]]
                    if a[1] != b[1] and a[0] != b[0]: serves.append((el[x], el[y]))
        serves.append(())
        if full:
            rb = [0]
        else:
            rb = list(range((1 << self.np) - 1, -1, -1)) if readies is None else readies
        if self.decoupled:
            # third component: bit mask of ports whose write-data stream is ready this cycle (only while their beat queue has room)
            room = sum(1 << k for k in range(self.np) if len(rs[2][k]) < self.wq_depth)
            wr = sorted({room & m for m in range(1 << self.np)}, reverse=True)
            return [(r, s, w) for r in rb for s in serves for w in wr]
        return [(r, s) for r in rb for s in serves]

    def default_choice(self, rs):
        """the cooperative answer: every ready high, oldest eligible command served"""
        cq = rs[0]
        el = self.eligible(cq, rs[2] if self.decoupled else None)
        rb = ((1 << self.np) - 1) if len(cq) < self.qmax else 0
        sv = (el[0],) if el else ()
        if self.decoupled:
            return (rb, sv, sum(1 << k for k in range(self.np) if len(rs[2][k]) < self.wq_depth))
        return (rb, sv)

    def drive(self, rs, rch, I):
        cq, mem = rs[0], rs[1]
        rb, serve = rch[0], rch[1]
        if self.decoupled:
            for k in range(self.np):
                if self.i_wready[k] is not None: I[self.i_wready[k]] = (rch[2] >> k) & 1
        for k in range(self.np):
            if self.i_ready[k] is not None: I[self.i_ready[k]] = (rb >> k) & 1
        for i in serve:
            p, we, a, age = cq[i]
            if we:
                if not self.decoupled and self.i_wready[p] is not None: I[self.i_wready[p]] = 1
            else:
                if self.i_rvalid[p] is not None: I[self.i_rvalid[p]] = 1
                if self.i_rdata[p] is not None: I[self.i_rdata[p]] = self.mem_get(mem, a)

    def observe(self, rs, rch, S, I, O):
        """returns (rs2, events) ; events: list of ('w', port, addr) / ('r', port, addr, data) / ('acc', port, we, addr)"""
        cq, mem = rs[0], rs[1]
        rb, serve = rch[0], rch[1]
        evs = []
        served = set(serve)
        wqs = [list(q) for q in rs[2]] if self.decoupled else None
        for i in serve:
            p, we, a, age = cq[i]
            if we and self.decoupled:
                d, m = wqs[p].pop(0)
                w = self.mem_get(mem, a)
                for b in range(self.nbytes[p]):
                    if (m >> b) & 1: w = (w & ~(0xff << (8 * b))) | (d & (0xff << (8 * b)))
                mem = self.mem_set(mem, a, w)
                evs.append(("w", p, a, d, m))
            elif we:
                if not self.r_wvalid[p](S, I, O):
                    raise Violation("port.write_beat_lost", "memory took the write data for address %d on port %d but the frontend was not offering any (wdata.valid low at the strobe)" % (a, p), port=p)
                d = self.r_wdata[p](S, I, O); m = self.r_wwe[p](S, I, O)
                w = self.mem_get(mem, a)
                for b in range(self.nbytes[p]):
                    if (m >> b) & 1: w = (w & ~(0xff << (8 * b))) | (d & (0xff << (8 * b)))
                mem = self.mem_set(mem, a, w)
                evs.append(("w", p, a, d, m))
            elif self.decoupled and not self.r_rready[p](S, I, O):
                served.discard(i)          # stream semantics: the word stays offered until the frontend takes it
            else:
                if not self.r_rready[p](S, I, O):
                    raise Violation("port.read_word_dropped", "memory returned the data of address %d on port %d while the frontend was not ready (rdata.ready low)" % (a, p), port=p)
                evs.append(("r", p, a, self.mem_get(mem, a)))
        ncq = []
        for i, (p, we, a, age) in enumerate(cq):
            if i in served: continue
            lim = self.wmin if we else self.rmin
            ncq.append((p, we, a, age + 1 if age < lim else age))
        for k in range(self.np):
            if (rb >> k) & 1 and self.r_valid[k](S, I, O):
                we = self.r_we[k](S, I, O); a = self.r_addr[k](S, I, O) - self.addr_base
                if self.modes[k] == "read": we = 0
                if self.modes[k] == "write": we = 1
                if not self.addr_ok(k, a):
                    raise Violation("port.address_out_of_range", "frontend issued address %d on port %d outside the addressed window" % (a, k), port=k)
                ncq.append((k, we, a, 1))
                evs.append(("acc", k, we, a))
        if self.decoupled:
            for k in range(self.np):
                if (rch[2] >> k) & 1 and self.r_wvalid[k](S, I, O):
                    wqs[k].append((self.r_wdata[k](S, I, O), self.r_wwe[k](S, I, O)))
                    evs.append(("wbeat", k))
            return (tuple(ncq), mem, tuple(tuple(q) for q in wqs)), evs
        return (tuple(ncq), mem), evs

    def idle(self, rs):
        return not rs[0] and (not self.decoupled or not any(rs[2]))
