"""C10 - Wishbone port: one acknowledge per access and memory semantics.

W2N: the real LiteDRAMWishbone2Native (equal widths, narrow bus = burst/merge/cache up-conversion path, wide bus = native down
     converter) with a legal sequential Wishbone master above and the native-port responder (checks/responder.py) below.
N2W: the real LiteDRAMNative2Wishbone with a native master above (as in C07) and a Wishbone slave memory with free
     acknowledge delay below.
Reference: byte-addressed memory written by hand (value *sets* per byte: the bytes of an aborted write are "old or new")."""
import time
from engine import runner, fhdl
from engine.explore import Harness, Violation
from checks.responder import Responder

PROP = "C10"
ASSUME = [
    "legal sequential Wishbone master: cyc/stb/adr/we/sel/dat_w/cti held until ack (or until the master aborts by dropping cyc and stb together); one access at a time; "
    "between accesses it idles (cyc low) or inserts wait states (cyc high, stb low) for any number of cycles, or continues back-to-back; stb is never high while cyc is low",
    "incrementing bursts: CTI=2 announces that the next access of the same cycle has the same direction and address+1 (BTE linear); CTI=7 or a classic cycle (CTI=0) ends it; "
    "only in the *abort* configurations may the master also end a burst early by dropping cyc between beats; in the *loosecti* configurations the master may follow a CTI=2 beat with any other access (direction, address) while cyc stays high",
    "aborts (only where flagged): the master may drop cyc/stb in any cycle after the first one of an un-acknowledged access; the bytes of an aborted write are 'old or new' in the reference, an aborted read has no effect",
    "K accesses per run over an address alphabet covering two wide words; the i-th access writes data tag i in every byte lane (lane-distinct values), sel from {all, one partial pattern}; reads select all lanes",
    "memory below the bridge = native-port responder restricted to real-core behaviour (wdata strobe >= 3, read data >= 6 cycles after acceptance, in order, strobes ignore valid/ready as the crossbar does); cmd.ready and latencies otherwise free",
    "quiescence = fixed point under 'master idle with cyc low, cmd.ready=1, nothing owed by the memory': the responder memory must then equal the reference (the bridge flushes its merge buffer when cyc is low)",
    "N2W: native master holds each command until accepted, offers write data no later than the command and holds it, rdata.ready=1; the Wishbone slave acknowledges a request it has seen for at least one cycle after a free delay",
]
RULE = ("BFS to closure over all K-access sequences x idle/wait-state gaps x abort points x cmd.ready stalls x memory latencies; oracle: every non-aborted access acknowledged exactly once (no ack without a pending access, "
        "none in a cycle the master does not strobe), read data byte-wise within the reference set at the acknowledge, writes update exactly the sel bytes (later reads + memory == reference at every quiescent fixed point), "
        "native addresses inside the window, no write beat lost / read word dropped at the native port; liveness: under a cooperative environment every started access is acknowledged and the bridge reaches a fixed point")

EV_OUT = 1; EV_PROG = 2
I0, I1, HOLD, ABORT = 0, 1, 2, 3        # master choices other than "start access (we, a, sel, cti)"


def bv(baddr, tag):
    """lane-distinct, non-zero byte value of data tag `tag` (0 = initial contents) at byte address baddr"""
    return (((tag + 1) & 15) << 4) | (baddr & 15)


class WbHarness(Harness):
    def __init__(self, wbw=32, pw=32, K=3, base_address=0, aborts=False, naddr=None, sels=None, ctis=(0, 2), ops="RW", wait_states=True,
                 idle_ones=False, pattern=None, burst_cut=None, abort_ops="RW", wmin=3, rmin=6, qmax=3, adr_width=8, port_aw=6, idle_stb=False, decoupled=False, loose_cti=False):
        from litex.soc.interconnect import wishbone
        from litedram.common import LiteDRAMNativePort
        from litedram.frontend.wishbone import LiteDRAMWishbone2Native
        self.wbw, self.pw, self.K = wbw, pw, K
        self.bw, self.bt = wbw // 8, pw // 8
        self.wb = wb = wishbone.Interface(data_width=wbw, adr_width=adr_width, addressing="word")
        self.port = port = LiteDRAMNativePort("both", port_aw, pw)
        self.dut = dut = LiteDRAMWishbone2Native(wb, port, base_address=base_address)
        dut.finalize()
        reads = Responder.reads([port]) + [wb.ack, wb.dat_r, wb.err, dut.fsm.state]
        self.c = c = fhdl.compile_harness(dut, reads)
        self.total_bytes = 2 * max(self.bw, self.bt) if naddr is None else naddr * self.bw
        assert self.total_bytes <= 16 and self.total_bytes % self.bt == 0 and K <= 14
        self.naddr = self.total_bytes // self.bw
        self.nto = self.total_bytes // self.bt
        assert base_address % self.bw == 0
        self.base_w = base_address // self.bw
        assert self.base_w + self.naddr <= (1 << adr_width)
        self.resp = Responder(c, [port], wmin=wmin, rmin=rmin, qmax=qmax, mem_init=self.mem_init, addr_ok=lambda p, a: a < self.nto, decoupled=decoupled)
        full = (1 << self.bw) - 1
        if sels is None:
            sels = [full] + ([] if self.bw == 1 else [0b10 if self.bw == 2 else (0b0110 if self.bw == 4 else full >> 1)])
        self.sels = list(sels); self.full = full
        self.ctis = tuple(ctis); self.ops = ops; self.pattern = pattern
        self.loose_cti = bool(loose_cti); self.aborts = bool(aborts); self.burst_cut = self.aborts if burst_cut is None else bool(burst_cut)
        self.wait_states = bool(wait_states); self.idle_stb = bool(idle_stb); self.abort_ops = abort_ops
        ii = c.ii
        self.i = {n: ii.get(getattr(wb, n)) for n in ("adr", "dat_w", "sel", "cyc", "stb", "we", "cti", "bte")}
        self.r_ack = c.rd(wb.ack); self.r_dat = c.rd(wb.dat_r); self.r_err = c.rd(wb.err); self.r_fsm = c.rd(dut.fsm.state)
        self.fsm_names = {v: k for k, v in dut.fsm.encoding.items()}
        self.base = list(c.base_inputs)
        if idle_ones:
            for n, v in (("adr", (1 << adr_width) - 1), ("dat_w", (1 << wbw) - 1), ("sel", full), ("we", 1), ("cti", 7)):
                if self.i[n] is not None: self.base[self.i[n]] = v
        self.cov = {}; self._hist = {}
        self.path = "narrow-bus(merge/cache)" if wbw < pw else ("equal" if wbw == pw else "wide-bus(down-converter)")

    # ---- data
    def mem_init(self, a):
        w = 0
        for l in range(self.bt): w |= bv(a * self.bt + l, 0) << (8 * l)
        return w

    def wword(self, a, tag):
        w = 0
        for l in range(self.bw): w |= bv(a * self.bw + l, tag) << (8 * l)
        return w

    # env: (pend, bud, burst, ref, rs, hab)
    #   pend  = (we, a, sel, cti, tag) access presented and not yet acknowledged, or None
    #   burst = (we, next_a) after an acknowledged CTI=2 beat, else None
    #   ref   = per byte a sorted tuple of possible values
    #   hab   = sticky history bits (fingerprints only): 1 a read was aborted, 2 a write was aborted, 4 a burst was cut,
    #           8 a write was aborted after the bridge FSM had left CMD (its native command was on its way)
    def env0(self):
        return (None, self.K, None, tuple((bv(b, 0),) for b in range(self.total_bytes)), self.resp.init(), 0)

    def _starts(self, bud, burst):
        if bud <= 0: return []
        op_ok = "RW"
        if self.pattern and self.pattern[self.K - bud] != "*": op_ok = self.pattern[self.K - bud]
        out = []
        if burst is not None:
            we, a = burst
            for sel in (self.sels if we else [self.full]):
                out.append((we, a, sel, 7))
                if a + 1 < self.naddr and bud >= 2 and 2 in self.ctis: out.append((we, a, sel, 2))
            if not self.loose_cti: return out
            # loose_cti: the master may also break the CTI=2 announcement (other direction / other address) with cyc still high
        for we in (0, 1):
            if ("W" if we else "R") not in self.ops or ("W" if we else "R") not in op_ok: continue
            for a in range(self.naddr):
                for sel in (self.sels if we else [self.full]):
                    for cti in self.ctis:
                        if cti == 2 and not (a + 1 < self.naddr and bud >= 2): continue
                        if (we, a, sel, cti) not in out: out.append((we, a, sel, cti))
        return out

    def master_menu(self, E):
        pend, bud, burst, ref, rs, hab = E
        if pend is not None:
            return [HOLD, ABORT] if (self.aborts and ("W" if pend[0] else "R") in self.abort_ops) else [HOLD]
        m = []
        if burst is None or self.burst_cut: m.append(I0)
        if self.wait_states or burst is not None: m.append(I1)
        return m + self._starts(bud, burst)

    def menu(self, S, E):
        rm = self.resp.menu(E[4])
        return [(m, r) for m in self.master_menu(E) for r in rm]

    def describe(self, ch):
        m, rch = ch
        rb, serve = rch[0], rch[1]
        if isinstance(m, (tuple, list)):
            we, a, sel, cti = m
            s = "%s a%d sel=%x cti=%d" % ("WRITE" if we else "READ", a, sel, cti)
        else:
            s = {I0: "idle(cyc=0)", I1: "wait(cyc=1,stb=0)", HOLD: "hold", ABORT: "ABORT(cyc=0)"}[m]
        return "%s | cmd.ready=%d serve=%s" % (s, rb, list(serve))

    def _access(self, E, m):
        pend, bud = E[0], E[1]
        if m == HOLD: return pend
        if isinstance(m, (tuple, list)): return tuple(m) + (self.K - bud + 1,)
        return None

    def drive(self, S, E, ch):
        m, rch = ch
        I = list(self.base); ix = self.i
        acc = self._access(E, m)
        if acc is not None:
            we, a, sel, cti, tag = acc
            for n, v in (("cyc", 1), ("stb", 1), ("we", we), ("adr", self.base_w + a), ("sel", sel), ("dat_w", self.wword(a, tag) if we else 0), ("cti", cti), ("bte", 0)):
                if ix[n] is not None: I[ix[n]] = v
        elif m == I1:
            I[ix["cyc"]] = 1
        elif self.idle_stb:
            I[ix["stb"]] = 1          # experiment only: LiteX decoders gate cyc per slave and broadcast stb
        self.resp.drive(E[4], rch, I)
        return tuple(I)

    def _membytes(self, rs):
        out = []
        for a in range(self.nto):
            w = self.resp.mem_get(rs[1], a)
            out += [(w >> (8 * l)) & 0xff for l in range(self.bt)]
        return out

    def observe(self, S, E, ch, I, O, S2):
        pend, bud, burst, ref, rs, hab = E
        m, rch = ch
        cov = self.cov
        acc = self._access(E, m)
        started = acc is not None and m != HOLD
        if started: bud -= 1
        st = self.r_fsm(S, I, O)
        cov["fsm:" + self.fsm_names.get(st, str(st))] = 1
        if m == ABORT and pend[0] and st != 0: hab |= 8      # write dropped after the bridge had taken it (FSM left CMD)
        opn = acc if acc is not None else (pend if m == ABORT else None)
        self._hist = dict(path=self.path, after_abort=bool(hab & 3) or m == ABORT, after_aborted_read=bool(hab & 1), after_burst_cut=bool(hab & 4),
                          write_dropped_after_cmd=bool(hab & 8), aborting_now=(m == ABORT), op=None if opn is None else ("write" if opn[0] else "read"))
        try:
            rs2, evs = self.resp.observe(rs, rch, S, I, O)
        except Violation as v:
            v.detail.update(self._hist); v.detail["kind"] = v.rule.split(".")[-1]
            raise
        prog = bool(evs)
        ack = self.r_ack(S, I, O)
        if self.r_err(S, I, O): self.report("wb.err", "err asserted", kind="err")
        if ack and acc is None:
            what = "in the cycle the master aborts (cyc low)" if m == ABORT else ("in a wait state (stb low)" if m == I1 else "while the master is idle (cyc low)")
            self.report("wb.ack_without_access", "ack asserted " + what, kind="ack_without_access")
        if m == ABORT:
            we, a, sel, cti, tag = pend
            if we:
                r = list(ref)
                for l in range(self.bw):
                    if (sel >> l) & 1:
                        b = a * self.bw + l
                        r[b] = tuple(sorted(set(r[b]) | {bv(b, tag)}))
                ref = tuple(r); hab |= 2
            else:
                hab |= 1
            cov["aborts"] = cov.get("aborts", 0) + 1
            pend = None; burst = None; prog = True
        elif acc is not None:
            if ack:
                we, a, sel, cti, tag = acc
                prog = True
                if we:
                    r = list(ref)
                    for l in range(self.bw):
                        if (sel >> l) & 1:
                            b = a * self.bw + l
                            r[b] = (bv(b, tag),)
                    ref = tuple(r)
                    cov["writes_acked"] = cov.get("writes_acked", 0) + 1
                else:
                    got = self.r_dat(S, I, O)
                    bad = []
                    for l in range(self.bw):
                        if (sel >> l) & 1:
                            b = a * self.bw + l
                            g = (got >> (8 * l)) & 0xff
                            if g not in ref[b]: bad.append((l, g, ref[b]))
                    if bad:
                        older = all((g >> 4) != 0 and (g & 15) == ((a * self.bw + l) & 15) for l, g, _ in bad)     # an earlier value of the same byte
                        self.report("wb.read_data", "read of address %d acknowledged with %s; wrong lanes (lane, got, allowed) %s" % (
                            a, ["%02x" % ((got >> (8 * l)) & 0xff) for l in range(self.bw)], [(l, "%02x" % g, ["%02x" % x for x in al]) for l, g, al in bad]),
                            kind="read_data", got="older_value_of_same_byte" if older else "other")
                    cov["reads_compared"] = cov.get("reads_compared", 0) + 1
                    if st == 0: cov["read_cache_hits"] = cov.get("read_cache_hits", 0) + 1
                if cti == 2: cov["burst_beats"] = cov.get("burst_beats", 0) + 1
                pend = None
                burst = (we, a + 1) if cti == 2 else None
            else:
                pend = acc
        elif m == I0:
            if burst is not None: hab |= 4; cov["burst_cuts"] = cov.get("burst_cuts", 0) + 1
            burst = None
        E2 = (pend, bud, burst, ref, rs2, hab)
        # quiescence: fixed point under (master idle, cyc low, cmd.ready=1, nothing owed)
        idle_coop = m == I0 and rch == self.resp.default_choice(rs) and self.resp.idle(rs)
        if idle_coop and S2 == S and E2 == E:
            mem = self._membytes(rs2)
            badb = [(b, mem[b], ref[b]) for b in range(self.total_bytes) if mem[b] not in ref[b]]
            cov["quiescent_checks"] = cov.get("quiescent_checks", 0) + 1
            if badb:
                self.report("wb.quiescent_memory", "everything idle (fixed point) but memory differs from the reference at bytes %s (byte, memory, allowed)" % (
                    [(b, "%02x" % g, ["%02x" % x for x in al]) for b, g, al in badb]), kind="quiescent_memory")
        ev = 0
        rcoop = rch == self.resp.default_choice(rs)
        if rcoop:
            if E[0] is not None and m == HOLD: ev |= EV_OUT                                   # started access waits for its ack
            elif E[0] is None and m == I0 and (rs[0] or S2 != S or E2 != E): ev |= EV_OUT      # bridge/memory still busy after the master went idle
        if prog: ev |= EV_PROG
        return E2, ev

    def report(self, rule, msg, **detail):
        d = dict(self._hist); d.update(detail)
        Harness.report(self, rule, msg, **d)

    def lasso_detail(self, label, cycle_states, loop_choices):
        S, E = cycle_states[0]
        pend, bud, burst, ref, rs, hab = E
        st = self.c.getter(self.dut.fsm.state)(S)
        return dict(kind="no_ack" if pend is not None else "no_fixed_point", path=self.path, fsm_state=self.fsm_names.get(st, str(st)), after_abort=bool(hab & 3),
                    after_aborted_read=bool(hab & 1), write_dropped_after_cmd=bool(hab & 8), op=None if pend is None else ("write" if pend[0] else "read"))

    # ---- post pass (vacuity guard + second look at the quiescent states)
    def quiescence_check(self, res):
        from engine import explore
        fp = 0; bad = 0; viols = []; idle_states = 0
        for st, i in res.index.items():
            S, E = st
            if E[0] is not None or E[4][0] or (E[2] is not None and not self.burst_cut): continue
            ch = (I0, self.resp.default_choice(E[4]))
            idle_states += 1
            try:
                S2, E2, ev, vl = self.step(S, E, ch)
            except Violation:
                continue
            if (S2, E2) != st: continue
            fp += 1
            if any(v.rule == "wb.quiescent_memory" for v in vl):
                bad += 1
                if not viols: viols.append((explore.trace_of_id(res.parent, res.pchoice, i) + [ch], [v for v in vl if v.rule == "wb.quiescent_memory"][0]))
        return {"violations": viols, "info": {"idle_states": idle_states, "quiescent_fixed_points": fp, "mismatching": bad}}

    def coverage(self):
        return dict(self.cov)


# ------------------------------------------------------------------------------------------------ Native -> Wishbone

class N2WHarness(Harness):
    """LiteDRAMNative2Wishbone: native master above, Wishbone slave memory below.  The slave acknowledges a request that it has
    seen in the previous cycle (registered slave; free extra delay)."""

    def __init__(self, dw=16, K=3, naddr=2, base_address=0, wes=None, addressing="word"):
        from litex.soc.interconnect import wishbone
        from litedram.common import LiteDRAMNativePort
        from litedram.frontend.wishbone import LiteDRAMNative2Wishbone
        self.dw = dw; self.nb = dw // 8; self.K = K; self.naddr = naddr
        self.port = port = LiteDRAMNativePort("both", 6, dw)
        self.wb = wb = wishbone.Interface(data_width=dw, adr_width=10, addressing=addressing)
        self.dut = dut = LiteDRAMNative2Wishbone(port, wb, base_address=base_address)
        dut.finalize()
        reads = [port.cmd.ready, port.wdata.ready, port.rdata.valid, port.rdata.data, wb.cyc, wb.stb, wb.we, wb.adr, wb.sel, wb.dat_w, dut.fsm.state]
        self.c = c = fhdl.compile_harness(dut, reads)
        assert base_address % self.nb == 0
        # local word index of a Wishbone address: word addressing adr - base/nb, byte addressing (adr - base)/nb
        self.amul = self.nb if addressing == "byte" else 1
        self.base_w = base_address if addressing == "byte" else base_address // self.nb
        full = (1 << self.nb) - 1
        self.wes = list(wes) if wes is not None else ([full, 0b10] if self.nb > 1 else [full])
        self.alpha = [None] + [(0, a, full) for a in range(naddr)] + [(1, a, we) for a in range(naddr) for we in self.wes]
        ii = c.ii; p = port
        self.i = dict(valid=ii.get(p.cmd.valid), we=ii.get(p.cmd.we), addr=ii.get(p.cmd.addr), wvalid=ii.get(p.wdata.valid), wdata=ii.get(p.wdata.data), wwe=ii.get(p.wdata.we),
                      rready=ii.get(p.rdata.ready), ack=ii.get(wb.ack), dat_r=ii.get(wb.dat_r))
        R = c.rd
        self.r = dict(ready=R(p.cmd.ready), wready=R(p.wdata.ready), rvalid=R(p.rdata.valid), rdata=R(p.rdata.data), cyc=R(wb.cyc), stb=R(wb.stb), we=R(wb.we), adr=R(wb.adr),
                      sel=R(wb.sel), dat_w=R(wb.dat_w), fsm=R(dut.fsm.state))
        self.fsm_names = {v: k for k, v in dut.fsm.encoding.items()}
        self.base = list(c.base_inputs)
        if self.i["rready"] is not None: self.base[self.i["rready"]] = 1
        self.cov = {}

    def word(self, a, tag):
        w = 0
        for l in range(self.nb): w |= bv(a * self.nb + l, tag) << (8 * l)
        return w

    # env: (pend, bud, wq, rq, ref, smem, req)
    #   pend = (we, a, bytesel, tag) command offered and not accepted; wq = write data owed to the port; rq = expected read words (byte tuples)
    #   ref/smem = reference bytes / slave memory words; req = (we, adr, sel, dat_w) Wishbone request seen last cycle and not acknowledged
    def env0(self):
        ref = tuple(bv(b, 0) for b in range(self.naddr * self.nb))
        return (None, self.K, (), (), ref, tuple(self.word(a, 0) for a in range(self.naddr)), None)

    def menu(self, S, E):
        pend, bud, wq, rq, ref, smem, req = E
        m = (None,) if (pend is not None or bud <= 0) else self.alpha
        acks = (1, 0) if req is not None else (0,)
        return [(a, k) for a in m for k in acks]

    def describe(self, ch):
        a, k = ch
        s = "-" if a is None else ("R a%d" % a[1] if not a[0] else "W a%d we=%x" % (a[1], a[2]))
        return "%s | slave ack=%d" % (s, k)

    def drive(self, S, E, ch):
        pend, bud, wq, rq, ref, smem, req = E
        a, k = ch
        I = list(self.base); ix = self.i
        cmd = pend if pend is not None else (tuple(a) + (self.K - bud + 1,) if a is not None else None)
        if cmd is not None:
            I[ix["valid"]] = 1; I[ix["we"]] = cmd[0]; I[ix["addr"]] = cmd[1]
        if pend is None and a is not None and a[0]:
            wq = wq + ((a[1], self.K - bud + 1, a[2]),)
        if wq:
            ad, tag, we = wq[0]
            I[ix["wvalid"]] = 1; I[ix["wdata"]] = self.word(ad, tag); I[ix["wwe"]] = we
        if k:
            I[ix["ack"]] = 1
            if not req[0]:
                la, rem = divmod(req[1] - self.base_w, self.amul)
                I[ix["dat_r"]] = smem[la] if (0 <= la < self.naddr and not rem) else 0
        return tuple(I)

    def observe(self, S, E, ch, I, O, S2):
        pend, bud, wq, rq, ref, smem, req = E
        a, k = ch
        r = self.r; cov = self.cov
        cov["fsm:" + self.fsm_names.get(r["fsm"](S, I, O), "?")] = 1
        cmd = pend
        if pend is None and a is not None:
            tag = self.K - bud + 1; bud -= 1
            cmd = tuple(a) + (tag,)
            if a[0]: wq = wq + ((a[1], tag, a[2]),)
        prog = False
        # Wishbone side (the bridge is the master here)
        cyc = r["cyc"](S, I, O); stb = r["stb"](S, I, O)
        now = (r["we"](S, I, O), r["adr"](S, I, O), r["sel"](S, I, O), r["dat_w"](S, I, O) if r["we"](S, I, O) else 0) if (cyc and stb) else None
        if stb and not cyc: self.report("n2w.stb_without_cyc", "bridge asserts stb without cyc", kind="protocol")
        if req is not None and now != req:
            self.report("n2w.request_not_held", "bridge changed or dropped its Wishbone request before the acknowledge: %s -> %s" % (req, now), kind="protocol")
        if k:
            prog = True
            we, adr, sel, dat = req
            la, rem = divmod(adr - self.base_w, self.amul)
            if not (0 <= la < self.naddr) or rem:
                raise Violation("n2w.address", "Wishbone address %d outside the window or unaligned (base %d, %s addressing)" % (adr, self.base_w, "byte" if self.amul > 1 else "word"), kind="address")
            if we:
                w = smem[la]
                for l in range(self.nb):
                    if (sel >> l) & 1: w = (w & ~(0xff << (8 * l))) | (dat & (0xff << (8 * l)))
                smem = smem[:la] + (w,) + smem[la + 1:]
                cov["wb_writes"] = cov.get("wb_writes", 0) + 1
            else:
                if sel != (1 << self.nb) - 1: self.report("n2w.read_sel", "read cycle with sel=%x" % sel, kind="protocol")
                cov["wb_reads"] = cov.get("wb_reads", 0) + 1
            now = None
        # native side
        if cmd is not None and r["ready"](S, I, O):
            prog = True
            we, ad, bsel, tag = cmd
            if we:
                rf = list(ref)
                for l in range(self.nb):
                    if (bsel >> l) & 1: rf[ad * self.nb + l] = bv(ad * self.nb + l, tag)
                ref = tuple(rf)
            else:
                rq = rq + (tuple(ref[ad * self.nb:(ad + 1) * self.nb]),)
            cmd = None
        if r["wready"](S, I, O):
            if not wq: raise Violation("n2w.wdata_ready_without_data", "wdata.ready without write data offered", kind="native")
            wq = wq[1:]; prog = True
        if r["rvalid"](S, I, O):
            if not rq: raise Violation("n2w.rdata_without_read", "read word returned without an outstanding read", kind="native")
            exp = rq[0]; rq = rq[1:]; prog = True
            got = r["rdata"](S, I, O)
            gb = tuple((got >> (8 * l)) & 0xff for l in range(self.nb))
            if gb != exp: self.report("n2w.read_data", "read returned %s, expected %s" % (["%02x" % x for x in gb], ["%02x" % x for x in exp]), kind="read_data")
            cov["reads_compared"] = cov.get("reads_compared", 0) + 1
        E2 = (cmd, bud, wq, rq, ref, smem, now)
        busy = cmd is not None or wq or rq or now is not None
        if a is None and E[0] is None and not busy and S2 == S and E2 == E:
            mb = tuple((smem[x] >> (8 * l)) & 0xff for x in range(self.naddr) for l in range(self.nb))
            cov["quiescent_checks"] = cov.get("quiescent_checks", 0) + 1
            if mb != ref:
                self.report("n2w.quiescent_memory", "idle fixed point: slave memory %s, reference %s" % (["%02x" % x for x in mb], ["%02x" % x for x in ref]), kind="quiescent_memory")
        ev = 0
        coop = (k == 1 or req is None)
        if coop and (E[0] is not None or E[2] or E[3] or req is not None): ev |= EV_OUT
        if prog: ev |= EV_PROG
        return E2, ev

    def coverage(self): return dict(self.cov)


def build(**kw): return WbHarness(**kw)
def build_n2w(**kw): return N2WHarness(**kw)

LIVE = [("started access acknowledged / bridge settles (cooperative environment)", EV_OUT, EV_PROG)]
LIVE_N2W = [("accepted commands complete (slave acknowledges)", EV_OUT, EV_PROG)]


def configs(tier):
    """(name, factory, kwargs, max_states)"""
    cs = []
    def add(name, fac="build", max_states=3_000_000, **kw): cs.append((name, fac, kw, max_states))
    if tier == "quick":        # longest first (the pool hands jobs out in this order)
        add("narrow-8on32-K3-aborts-nowait-W**", wbw=8, pw=32, K=3, aborts=True, wait_states=False, pattern="W**")
        add("narrow-8on32-K3-aborts-nowait-R**", wbw=8, pw=32, K=3, aborts=True, wait_states=False, pattern="R**")
        add("narrow-16on32-K3-aborts", wbw=16, pw=32, K=3, aborts=True)
        add("wide-32on16-K3-aborts", wbw=32, pw=16, K=3, aborts=True)
        add("narrow-16on32-K4-aborts-RRWR", wbw=16, pw=32, K=4, aborts=True, pattern="RRWR")
        add("wide-32on16-K3-readaborts", wbw=32, pw=16, K=3, aborts=True, abort_ops="R")
        add("narrow-8on32-K3", wbw=8, pw=32, K=3)
        # a master that announces an incrementing burst (CTI=2) and then does something else with cyc held: the read cache / merge buffer must not serve stale data
        add("narrow-16on32-K3-loosecti-RWR", wbw=16, pw=32, K=3, loose_cti=True, pattern="RWR")
        add("narrow-16on32-K4-loosecti-WRWR-nowait", wbw=16, pw=32, K=4, loose_cti=True, pattern="WRWR", wait_states=False)
        add("wide-32on8-K3", wbw=32, pw=8, K=3)
        add("narrow-16on32-K3", wbw=16, pw=32, K=3)
        add("narrow-32on64-K3", wbw=32, pw=64, K=3)
        add("narrow-16on32-K3-base0x42-idleones", wbw=16, pw=32, K=3, base_address=0x42, idle_ones=True)
        add("eq-32on32-K4", wbw=32, pw=32, K=4, naddr=3)
        # the same bridge on a port that sits behind stream buffering (CDC / converted port): write data ready independent of commands
        add("eq-32on32-K3-streamport", wbw=32, pw=32, K=3, naddr=2, decoupled=True)
        add("wide-32on16-K2-streamport", wbw=32, pw=16, K=2, naddr=2, decoupled=True)
        add("narrow-16on32-K3-streamport", wbw=16, pw=32, K=3, decoupled=True)
        add("eq-32on32-K4-readaborts", wbw=32, pw=32, K=4, naddr=2, aborts=True, abort_ops="R")
        add("eq-32on32-K3-aborts", wbw=32, pw=32, K=3, naddr=2, aborts=True)
        add("eq-32on32-K3-base0x40", wbw=32, pw=32, K=3, naddr=3, base_address=0x40)
        add("wide-32on16-K3", wbw=32, pw=16, K=3)
        add("n2w-32-K4-base0x40", "build_n2w", dw=32, K=4, base_address=0x40)
        add("n2w-16-K3-byteaddr-base0x40", "build_n2w", dw=16, K=3, base_address=0x40, addressing="byte")
    else:
        add("eq-32on32-K5", wbw=32, pw=32, K=5, naddr=3)
        add("eq-32on32-K4-base0x40-idleones", wbw=32, pw=32, K=4, naddr=3, base_address=0x40, idle_ones=True)
        add("eq-32on32-K5-readaborts", wbw=32, pw=32, K=5, naddr=2, aborts=True, abort_ops="R")
        add("eq-32on32-K4-aborts", wbw=32, pw=32, K=4, naddr=2, aborts=True)
        add("eq-16on16-K4-aborts", wbw=16, pw=16, K=4, naddr=2, aborts=True)
        add("narrow-16on32-K5", wbw=16, pw=32, K=5, max_states=6_000_000)
        add("narrow-16on32-K4-loosecti", wbw=16, pw=32, K=4, loose_cti=True, max_states=8_000_000)
        add("narrow-8on32-K3-loosecti", wbw=8, pw=32, K=3, loose_cti=True, max_states=6_000_000)
        add("narrow-16on32-K5-loosecti-WRWRR-nowait", wbw=16, pw=32, K=5, loose_cti=True, pattern="WRWRR", wait_states=False, max_states=8_000_000)
        add("narrow-32on64-K4-loosecti-RWRW", wbw=32, pw=64, K=4, loose_cti=True, pattern="RWRW", max_states=6_000_000)
        add("narrow-8on32-K4", wbw=8, pw=32, K=4, max_states=6_000_000)
        add("narrow-8on16-K4", wbw=8, pw=16, K=4)
        add("narrow-32on64-K4", wbw=32, pw=64, K=4)
        add("narrow-16on64-K4", wbw=16, pw=64, K=4, max_states=6_000_000)
        add("narrow-16on32-K4-base0x42", wbw=16, pw=32, K=4, base_address=0x42)
        add("narrow-8on32-K3-base0x41-idleones", wbw=8, pw=32, K=3, base_address=0x41, idle_ones=True)
        add("narrow-8on32-K3-sel0", wbw=8, pw=32, K=3, sels=[1, 0])
        add("eq-32on32-K4-sel0", wbw=32, pw=32, K=4, naddr=2, sels=[0xf, 0x6, 0])
        add("narrow-16on32-K4-aborts", wbw=16, pw=32, K=4, aborts=True, max_states=8_000_000)
        add("narrow-8on32-K3-aborts", wbw=8, pw=32, K=3, aborts=True)
        add("narrow-8on16-K4-aborts", wbw=8, pw=16, K=4, aborts=True, max_states=8_000_000)
        add("narrow-32on64-K3-aborts", wbw=32, pw=64, K=3, aborts=True)
        add("wide-32on16-K4", wbw=32, pw=16, K=4)
        add("wide-32on8-K4", wbw=32, pw=8, K=4)
        add("wide-64on16-K3", wbw=64, pw=16, K=3, naddr=2)
        add("narrow-8on64-K3", wbw=8, pw=64, K=3, max_states=6_000_000)          # the extreme ratios of the statement: 1/8 and 8
        add("wide-64on8-K2", wbw=64, pw=8, K=2, naddr=2, max_states=6_000_000)
        add("wide-32on16-K3-base0x40", wbw=32, pw=16, K=3, base_address=0x40)
        add("wide-32on16-K4-readaborts", wbw=32, pw=16, K=4, aborts=True, abort_ops="R")
        add("wide-32on8-K3-readaborts", wbw=32, pw=8, K=3, aborts=True, abort_ops="R")
        add("wide-32on16-K3-aborts", wbw=32, pw=16, K=3, aborts=True)
        add("wide-32on8-K3-aborts", wbw=32, pw=8, K=3, aborts=True)
        add("n2w-16-K5", "build_n2w", dw=16, K=5)
        add("n2w-32-K5-base0x40", "build_n2w", dw=32, K=5, base_address=0x40)
        add("n2w-8-K5-3addr", "build_n2w", dw=8, K=5, naddr=3)
        add("n2w-16-K4-byteaddr-base0x40", "build_n2w", dw=16, K=4, base_address=0x40, addressing="byte")
    return cs


def run(tier, seed, only=None):
    t0 = time.time()
    jobs = []
    for name, fac, kw, ms in configs(tier):
        if only and only not in name: continue
        w2n = fac == "build"
        jobs.append((runner.mc_run, (PROP, "checks.c10", fac, kw), dict(name=name, tier=tier, seed=seed, max_states=ms, liveness=LIVE if w2n else LIVE_N2W,
                                                                        post="quiescence_check" if w2n else None)))
    res = runner.run_jobs(jobs)
    return runner.finish(PROP, tier, seed, "model_checking", res, t0, ASSUME, RULE,
                         technique="explicit-state BFS to closure of the elaborated Wishbone bridge netlist (all three width paths) against a byte-addressed value-set reference memory")
