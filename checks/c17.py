"""C17 - the generated initialisation sequence programs the DRAM consistently with PHY and controller.

Pure-function check: the REAL generators of /repo/litedram/init.py are called over an exhaustive grid
(memtype x nphases x (CL, CWL) x TimingSettings produced by the real SDRAMModule x electrical/RDIMM/clam-shell options) and every
emitted mode-register write is decoded with the independent JEDEC decoders below (written from the JEDEC mode-register
definitions: JESD21-C/SDR, JESD79 (DDR), JESD209 (LPDDR), JESD79-2 + JESD208 (DDR2), JESD79-3 (DDR3), JESD79-4 (DDR4),
JESD209-4 (LPDDR4), JESD209-5 (LPDDR5); JESD82-31 for the RDIMM B-side inversion).  No table of init.py is used by the oracle."""
import os, re, sys, time, json, math
from fractions import Fraction
from engine import runner

PROP = "C17"
ASSUME = [
    "DRAM clock: tCK = 1/(nphases * controller clock) for every PHY of /repo/litedram/phy (LPDDR5: CK = nphases * sys, WCK = wck_ck_ratio * CK)",
    "datasheet tWR = SDRAMModule.get('tWR') of the library module (ck, ns); needed write recovery = max(ck, ceil(ns / tCK)), computed with exact fractions",
    "controller wait = (ceil(cwl/nphases) + TimingSettings.tWR + TimingSettings.tCCD) * nphases DRAM clocks (bankmachine write-to-precharge counter, AL=0); "
    "DRAM side = WL + burst clocks + WR with burst clocks = BL/2 (SDR: BL; LPDDR5: BL/(2*wck_ck_ratio))",
    "CWL is only judged where the mode registers determine it: DDR3/DDR4/LPDDR4/LPDDR5 (programmed), DDR2 (WL = AL + CL - 1) when the PHY states a cwl explicitly; "
    "SDR/DDR/LPDDR have a fixed write latency and PhySettings.cwl defaults to cl there (not judged)",
    "SDR: the controller's burst length is nphases (controller.py), otherwise common.burst_lengths[memtype]",
    "reserved-bit / reserved-code obligations are applied to every mode-register write except the DLL-reset write of SDR parts (A8 is 'operating mode' there; recorded as a note, the final value is judged)",
    "a (CL, CWL) pair is 'selectable' when a PHY chooses it by itself (get_default_cl_cwl, the A7 'cl+1' variant, the fixed S6 values, the LPDDR4/LPDDR5 frequency tables); "
    "pairs only reachable through the cl=/cwl= override arguments are judged when init.py accepts them AND JEDEC can encode them; an override that init.py rejects, "
    "or silently mis-encodes because JEDEC has no code for it, is recorded as a note, not a violation",
    "a raise caused by an electrical option (e.g. DDR4 tdqs with data mask) is a guarded rejection (note); RPC: no public JEDEC definition, only no-raise/rendering/CL code are judged",
    "rendering: the C and Python headers are tokenised independently; a missing cdelay() means delay 0; commands are compared by numeric DFII value and register (control/command)",
]
RULE = ("every grid point is one call of get_sdram_phy_init_sequence + get_sdram_phy_c_header + get_sdram_phy_py_header on hand-built PhySettings and SDRAMModule-built "
        "TimingSettings; obligations per point: no raise (selectable pairs), BL/CL/CWL decoded == controller/PHY values, ceil(tWR/tCK) <= WR, WL+burst+WR <= controller wait, "
        "decode->re-encode identity + reserved bits/codes + stray fields + bus width, requested electrical setting == decoded, C == Py == list; "
        "distinct = distinct (memtype, nphases, cl, cwl, init-relevant timing fields, tWR need, options) tuples that produced a sequence")

MRS_FLAGS = frozenset(["RAS", "CAS", "WE", "CS"])
DFII = {"DFII_CONTROL_SEL": 1, "DFII_CONTROL_CKE": 2, "DFII_CONTROL_ODT": 4, "DFII_CONTROL_RESET_N": 8,
        "DFII_COMMAND_CS": 1, "DFII_COMMAND_WE": 2, "DFII_COMMAND_CAS": 4, "DFII_COMMAND_RAS": 8, "DFII_COMMAND_WRDATA": 16, "DFII_COMMAND_RDDATA": 32,
        "DFII_COMMAND_CS_TOP": 64, "DFII_COMMAND_CS_BOTTOM": 128}


def cdiv(a, b):
    return -((-a) // b)


def getbits(v, pos):
    return sum(((v >> p) & 1) << i for i, p in enumerate(pos))


def putbits(code, pos):
    return sum(((code >> i) & 1) << p for i, p in enumerate(pos))


# =================================================================== JEDEC register layouts
# layout: width (address bits the register uses), fields {name: [bit positions LSB first]}, zero: fields neither PHY nor controller ever
# selects (a 1 there is a stray bit), codes {field: set of defined codes}
def _inv(d):
    return {v: k for k, v in d.items()}

SDR_BL = {0: 1, 1: 2, 2: 4, 3: 8, 7: "page"}
SDR_CL = {1: 1, 2: 2, 3: 3}
DDR_BL = {1: 2, 2: 4, 3: 8}
DDR_CL = {2: 2, 3: 3, 5: 1.5, 6: 2.5}
LPDDR_BL = {1: 2, 2: 4, 3: 8, 4: 16}
LPDDR_CL = {2: 2, 3: 3}
DDR2_BL = {2: 4, 3: 8}
DDR2_CL = {2: 2, 3: 3, 4: 4, 5: 5, 6: 6, 7: 7}
DDR2_WR = {c: c + 1 for c in range(1, 8)}                       # 001 -> 2 ... 101 -> 6 (JESD79-2), 110/111 -> 7/8 (JESD208)
DDR3_BL = {0: 8, 1: "otf", 2: 4}
DDR3_CL = dict([(((cl - 4) << 1), cl) for cl in range(5, 12)] + [((((cl - 12) << 1) | 1), cl) for cl in range(12, 17)])   # code = {A6,A5,A4,A2}
DDR3_WR = {0: 16, 1: 5, 2: 6, 3: 7, 4: 8, 5: 10, 6: 12, 7: 14}
DDR3_CWL = {c: c + 5 for c in range(8)}
DDR3_RTT_NOM = {0: "disabled", 1: "60ohm", 2: "120ohm", 3: "40ohm", 4: "20ohm", 5: "30ohm"}      # RZQ=240: /4 /2 /6 /12 /8
DDR3_RTT_WR = {0: "disabled", 1: "60ohm", 2: "120ohm"}
DDR3_ODS = {0: "40ohm", 1: "34ohm"}
DDR4_BL = DDR3_BL
DDR4_CL = dict([(c, 9 + c) for c in range(8)] + [(8, 18), (9, 20), (10, 22), (11, 24), (12, 23), (13, 17), (14, 19), (15, 21)] + [(16 + k, 25 + k) for k in range(8)])
DDR4_WR = {0: 10, 1: 12, 2: 14, 3: 16, 4: 18, 5: 20, 6: 24, 7: 22, 8: 26, 9: 28}
DDR4_CWL = {0: 9, 1: 10, 2: 11, 3: 12, 4: 14, 5: 16, 6: 18, 7: 20}
DDR4_RTT_NOM = {0: "disabled", 1: "60ohm", 2: "120ohm", 3: "40ohm", 4: "240ohm", 5: "48ohm", 6: "80ohm", 7: "34ohm"}
DDR4_RTT_WR = {0: "disabled", 1: "120ohm", 2: "240ohm", 3: "high-z", 4: "80ohm"}
DDR4_ODI = {0: "34ohm", 1: "48ohm"}
DDR4_FGR = {0: "1x", 1: "2x", 2: "4x", 5: "otf1x2x", 6: "otf1x4x"}
DDR4_TCCDL = {0: 4, 1: 5, 2: 6, 3: 7, 4: 8}
LP4_BL = {0: 16, 1: 32, 2: "otf"}
LP4_NWR = dict(enumerate([6, 10, 16, 20, 24, 30, 34, 40]))
LP4_RL = {0: dict(enumerate([6, 10, 14, 20, 24, 28, 32, 36])), 1: dict(enumerate([6, 12, 16, 22, 28, 32, 36, 40]))}      # [DBI-RD]
LP4_WL = {0: dict(enumerate([4, 6, 8, 10, 12, 14, 16, 18])), 1: dict(enumerate([4, 8, 12, 18, 22, 26, 30, 34]))}          # [WLS]
LP_RZQ = {0: "disable", 1: "RZQ/1", 2: "RZQ/2", 3: "RZQ/3", 4: "RZQ/4", 5: "RZQ/5", 6: "RZQ/6"}
# LPDDR5, DVFSC disabled: [ratio] -> per MR code
LP5_WL = {2: {"A": [4, 4, 6, 8, 8, 10], "B": [4, 6, 8, 10, 14, 16]},
          4: {"A": [2, 2, 3, 4, 4, 5, 6, 6, 7, 8, 9, 9], "B": [2, 3, 4, 5, 7, 8, 9, 11, 12, 14, 15, 16]}}
LP5_RL = {2: {0: [6, 8, 10, 12, 16, 18], 1: [6, 8, 10, 14, 16, 20], 2: [6, 8, 12, 14, 18, 20]},
          4: {0: [3, 4, 5, 6, 8, 9, 10, 12, 13, 15, 16, 17], 1: [3, 4, 5, 7, 8, 10, 11, 13, 14, 16, 17, 18], 2: [3, 4, 6, 7, 9, 10, 12, 14, 15, 17, 19, 20]}}
LP5_NWR = {2: [5, 10, 14, 19, 24, 28], 4: [3, 5, 7, 10, 12, 14, 16, 19, 21, 24, 26, 28]}

A = lambda lo, hi: list(range(lo, hi + 1))
LAYOUT = {
    "SDR": {0: dict(width=10, fields=dict(bl=A(0, 2), bt=[3], cl=A(4, 6), opmode=[7, 8], wbmode=[9]), zero=["bt", "opmode", "wbmode"], codes=dict(bl=SDR_BL, cl=SDR_CL))},
    "DDR": {0: dict(width=13, fields=dict(bl=A(0, 2), bt=[3], cl=A(4, 6), tm=[7], dll_reset=[8], opmode=A(9, 12)), zero=["bt", "tm", "opmode"], codes=dict(bl=DDR_BL, cl=DDR_CL)),
            1: dict(width=13, fields=dict(dll_dis=[0], ds=[1], qfc=[2], opmode=A(3, 12)), zero=["dll_dis", "ds", "qfc", "opmode"], codes={})},
    "LPDDR": {0: dict(width=13, fields=dict(bl=A(0, 2), bt=[3], cl=A(4, 6), opmode=A(7, 12)), zero=["bt", "opmode"], codes=dict(bl=LPDDR_BL, cl=LPDDR_CL)),
              2: dict(width=13, fields=dict(pasr=A(0, 2), tcsr=[3, 4], ds=[5, 6], opmode=A(7, 12)), zero=["pasr", "tcsr", "ds", "opmode"], codes={})},
    "DDR2": {0: dict(width=13, fields=dict(bl=A(0, 2), bt=[3], cl=A(4, 6), tm=[7], dll_reset=[8], wr=A(9, 11), pd=[12]), zero=["bt", "tm", "pd"], codes=dict(bl=DDR2_BL, cl=DDR2_CL, wr=DDR2_WR)),
             1: dict(width=13, fields=dict(dll_dis=[0], ods=[1], rtt=[2, 6], al=A(3, 5), ocd=A(7, 9), dqs_n_dis=[10], rdqs=[11], qoff=[12]),
                     zero=["dll_dis", "ods", "rtt", "al", "dqs_n_dis", "rdqs", "qoff"], codes=dict(ocd={0: "exit", 1: "drive1", 2: "drive0", 4: "adjust", 7: "default"}, al={c: c for c in range(7)})),
             2: dict(width=13, fields=dict(pasr=A(0, 2), dcc=[3], srf=[7]), zero=["pasr", "dcc", "srf"], codes={}),
             3: dict(width=13, fields={}, zero=[], codes={})},
    "DDR3": {0: dict(width=13, fields=dict(bl=[0, 1], cl=[2, 4, 5, 6], rbt=[3], tm=[7], dll_reset=[8], wr=A(9, 11), ppd=[12]), zero=["rbt", "tm", "ppd"], codes=dict(bl=DDR3_BL, cl=DDR3_CL, wr=DDR3_WR)),
             1: dict(width=13, fields=dict(dll_dis=[0], ods=[1, 5], rtt_nom=[2, 6, 9], al=[3, 4], wl=[7], tdqs=[11], qoff=[12]), zero=["dll_dis", "al", "wl", "qoff"],
                     codes=dict(ods=DDR3_ODS, rtt_nom=DDR3_RTT_NOM, al={0: 0, 1: "CL-1", 2: "CL-2"})),
             2: dict(width=11, fields=dict(pasr=A(0, 2), cwl=A(3, 5), asr=[6], srt=[7], rtt_wr=[9, 10]), zero=["pasr", "asr", "srt"], codes=dict(cwl=DDR3_CWL, rtt_wr=DDR3_RTT_WR)),
             3: dict(width=3, fields=dict(mpr_loc=[0, 1], mpr=[2]), zero=["mpr_loc", "mpr"], codes={})},
    "DDR4": {0: dict(width=14, fields=dict(bl=[0, 1], cl=[2, 4, 5, 6, 12], rbt=[3], tm=[7], dll_reset=[8], wr=[9, 10, 11, 13]), zero=["rbt", "tm"], codes=dict(bl=DDR4_BL, cl=DDR4_CL, wr=DDR4_WR)),
             1: dict(width=13, fields=dict(dll_en=[0], odi=[1, 2], al=[3, 4], wl=[7], rtt_nom=A(8, 10), tdqs=[11], qoff=[12]), zero=["al", "wl", "qoff"],
                     codes=dict(odi=DDR4_ODI, rtt_nom=DDR4_RTT_NOM, al={0: 0, 1: "CL-1", 2: "CL-2"})),
             2: dict(width=13, fields=dict(cwl=A(3, 5), lpasr=[6, 7], rtt_wr=A(9, 11), wcrc=[12]), zero=["lpasr", "wcrc"], codes=dict(cwl=DDR4_CWL, rtt_wr=DDR4_RTT_WR)),
             3: dict(width=13, fields=dict(mpr_page=[0, 1], mpr=[2], geardown=[3], pda=[4], tsr=[5], fgr=A(6, 8), wcl=[9, 10], mpr_fmt=[11, 12]),
                     zero=["mpr_page", "mpr", "geardown", "pda", "tsr", "wcl", "mpr_fmt"], codes=dict(fgr=DDR4_FGR)),
             4: dict(width=14, fields=dict(mpsm=[1], tcrr=[2], tcrm=[3], ippr=[4], sppr=[5], cal=A(6, 8), srab=[9], rptm=[10], rpre=[11], wpre=[12], hppr=[13]),
                     zero=["mpsm", "tcrr", "tcrm", "ippr", "sppr", "cal", "srab", "rptm", "rpre", "wpre", "hppr"], codes={}),
             5: dict(width=13, fields=dict(capl=A(0, 2), crc_clr=[3], cap_err=[4], odt_ibpd=[5], rtt_park=A(6, 8), cap_persist=[9], dm=[10], wdbi=[11], rdbi=[12]),
                     zero=["capl", "crc_clr", "cap_err", "odt_ibpd", "cap_persist", "wdbi", "rdbi"], codes={}),
             6: dict(width=13, fields=dict(vref=A(0, 5), vref_range=[6], vref_train=[7], tccd_l=A(10, 12)), zero=["vref_train"], codes=dict(tccd_l=DDR4_TCCDL))},
    "LPDDR4": {1: dict(width=8, fields=dict(bl=[0, 1], wr_pre=[2], rd_pre=[3], nwr=A(4, 6), rpst=[7]), zero=[], codes=dict(bl=LP4_BL)),
               2: dict(width=8, fields=dict(rl=A(0, 2), wl=A(3, 5), wls=[6], wrlev=[7]), zero=["wrlev"], codes={}),
               3: dict(width=8, fields=dict(pu_cal=[0], wr_pst=[1], pprp=[2], pdds=A(3, 5), dbi_rd=[6], dbi_wr=[7]), zero=["pprp"], codes=dict(pdds={c: LP_RZQ[c] for c in range(1, 7)})),
               11: dict(width=8, fields=dict(dq_odt=A(0, 2), ca_odt=A(4, 6)), zero=[], codes=dict(dq_odt=LP_RZQ, ca_odt=LP_RZQ)),
               12: dict(width=8, fields=dict(vref=A(0, 5), vr=[6]), zero=[], codes=dict(vref={c: c for c in range(51)})),
               13: dict(width=8, fields=dict(cbt=[0], rpt=[1], vro=[2], vrcg=[3], rro=[4], dmd=[5], fsp_wr=[6], fsp_op=[7]), zero=["cbt", "rpt", "vro"], codes={}),
               14: dict(width=8, fields=dict(vref=A(0, 5), vr=[6]), zero=[], codes=dict(vref={c: c for c in range(51)}))},
    "LPDDR5": {1: dict(width=8, fields=dict(ck_mode=[3], wl=A(4, 7)), zero=[], codes={}),
               2: dict(width=8, fields=dict(rl=A(0, 3), nwr=A(4, 7)), zero=[], codes={}),
               3: dict(width=8, fields=dict(pdds=A(0, 2), bkorg=[3, 4], wls=[5], dbi_rd=[6], dbi_wr=[7]), zero=[], codes=dict(pdds={c: LP_RZQ[c] for c in range(1, 7)}, bkorg={0: "BG", 1: "8B", 2: "16B"})),
               11: dict(width=8, fields=dict(dq_odt=A(0, 2), nt_odt=[3], ca_odt=A(4, 6)), zero=[], codes=dict(dq_odt=LP_RZQ, ca_odt=LP_RZQ)),
               12: dict(width=8, fields=dict(vref=A(0, 6), vbs=[7]), zero=[], codes={}),
               14: dict(width=8, fields=dict(vref=A(0, 6), vdlc=[7]), zero=[], codes={}),
               15: dict(width=8, fields=dict(vref=A(0, 6)), zero=[], codes={}),
               17: dict(width=8, fields=dict(soc_odt=A(0, 2), misc=A(3, 7)), zero=[], codes=dict(soc_odt=LP_RZQ)),
               18: dict(width=8, fields=dict(wck_odt=A(0, 2), wck_fm=[3], wck_on=[4], wck2ck=[6], ckr=[7]), zero=["wck2ck"], codes=dict(wck_odt=LP_RZQ)),
               28: dict(width=8, fields=dict(zq_reset=[0], zq_stop=[1], zq_int=[2, 3], zq_mode=[5]), zero=["zq_reset", "zq_stop"], codes={})},
}
OPAQUE8 = dict(width=8, fields=dict(op=A(0, 7)), zero=[], codes={})        # LPDDR registers this check has no opinion about
DRAM_MR_COUNT = {"SDR": 1, "DDR": 2, "LPDDR": 3, "DDR2": 4, "DDR3": 4, "DDR4": 7}


def decode_reg(memtype, ba, a):
    """-> (fields, problems): problems = list of (kind, text, field) with kind in overflow/reserved_bit/reserved_code/stray"""
    lay = LAYOUT.get(memtype, {}).get(ba)
    if lay is None:
        if memtype in ("LPDDR4", "LPDDR5"): lay = OPAQUE8
        else: return None, [("overflow", "mode register %d does not exist for %s" % (ba, memtype), "ba")]
    probs = []
    if a < 0:
        return None, [("overflow", "negative mode register value %d" % a, "value")]
    if a >> lay["width"]:
        probs.append(("overflow", "MR%d value %#x has bits above A%d" % (ba, a, lay["width"] - 1), "value"))
    used = 0; f = {}
    for name, pos in lay["fields"].items():
        f[name] = getbits(a, pos); used |= putbits((1 << len(pos)) - 1, pos)
    stray = a & ~used & ((1 << lay["width"]) - 1)
    if stray:
        probs.append(("reserved_bit", "MR%d value %#x sets reserved bit(s) %s" % (ba, a, [i for i in range(lay["width"]) if (stray >> i) & 1]), "reserved"))
    for name in lay["zero"]:
        if f[name]: probs.append(("stray", "MR%d value %#x sets %s=%d, which neither PHY nor controller selects" % (ba, a, name, f[name]), name))
    for name, table in lay["codes"].items():
        if f[name] not in table: probs.append(("reserved_code", "MR%d value %#x: %s code %s is reserved" % (ba, a, name, bin(f[name])), name))
    # independent re-encode: pack the decoded codes back (own encoder) and compare
    back = sum(putbits(f[name], pos) for name, pos in lay["fields"].items())
    if back != (a & used):
        probs.append(("overflow", "re-encoding the decoded fields of MR%d gives %#x, emitted %#x" % (ba, back, a), "repack"))
    return f, probs


def is_mrs(cmd):
    return frozenset(x.replace("DFII_COMMAND_", "") for x in cmd.split("|")) == MRS_FLAGS and "CONTROL" not in cmd


def decode_sequence(memtype, seq, ratio=None):
    """Independent interpretation of the mode-register writes of an init sequence.
    -> dict(bl, cl, cwl, wr, al, regs={ba: final value}, fields={ba: decoded}, problems=[...], notes=[...])"""
    writes = [(i, ba, a) for i, (_, a, ba, cmd, _) in enumerate(seq) if is_mrs(cmd)]
    if memtype == "DDR4": writes = [w for w in writes if w[1] != 7]          # BA=7: RCD control words (RDIMM), not a DRAM register
    final = {}
    for i, ba, a in writes: final[int(ba)] = (i, int(a))
    out = dict(bl=None, cl=None, cwl=None, wr=None, al=0, regs={ba: v for ba, (i, v) in final.items()}, fields={}, problems=[], notes=[], nwrites=len(writes))
    for i, ba, a in writes:
        ba = int(ba); a = int(a); last = final[ba][0] == i
        f, probs = decode_reg(memtype, ba, a)
        for kind, text, field in probs:
            if memtype in ("SDR", "LPDDR") and ba == 0 and not last and field == "opmode" and f["opmode"] == 2:
                out["notes"].append("non-final MR write %#x uses A8 ('DLL reset') on a part without DLL (reserved operating mode); final value judged" % a)
                continue
            out["problems"].append((kind, text, dict(reg=ba, field=field, final=last)))
        if last: out["fields"][ba] = f
    F = out["fields"]
    def g(ba, name):
        return None if F.get(ba) is None else F[ba].get(name)
    if memtype == "SDR":
        out["bl"] = SDR_BL.get(g(0, "bl")); out["cl"] = SDR_CL.get(g(0, "cl"))
    elif memtype == "DDR":
        out["bl"] = DDR_BL.get(g(0, "bl")); out["cl"] = DDR_CL.get(g(0, "cl"))
    elif memtype == "LPDDR":
        out["bl"] = LPDDR_BL.get(g(0, "bl")); out["cl"] = LPDDR_CL.get(g(0, "cl"))
    elif memtype == "DDR2":
        out["bl"] = DDR2_BL.get(g(0, "bl")); cl = DDR2_CL.get(g(0, "cl")); al = g(1, "al") or 0
        out["al"] = al; out["cl"] = None if cl is None else cl + al; out["cwl"] = None if cl is None else cl + al - 1        # WL = RL - 1
        out["wr"] = DDR2_WR.get(g(0, "wr"))
    elif memtype in ("DDR3", "DDR4"):
        T = dict(DDR3=(DDR3_BL, DDR3_CL, DDR3_WR, DDR3_CWL), DDR4=(DDR4_BL, DDR4_CL, DDR4_WR, DDR4_CWL))[memtype]
        out["bl"] = T[0].get(g(0, "bl")); cl = T[1].get(g(0, "cl")); cwl = T[3].get(g(2, "cwl")); out["wr"] = T[2].get(g(0, "wr"))
        alc = g(1, "al") or 0
        al = 0 if alc == 0 or cl is None else (cl - alc if alc in (1, 2) else None)
        out["al"] = al
        out["cl"] = None if cl is None or al is None else cl + al; out["cwl"] = None if cwl is None or al is None else cwl + al
        if memtype == "DDR4" and g(1, "dll_en") == 0: out["problems"].append(("stray", "MR1 A0=0: DLL disabled", dict(reg=1, field="dll_en", final=True)))
    elif memtype == "LPDDR4":
        out["bl"] = LP4_BL.get(g(1, "bl")); out["wr"] = LP4_NWR.get(g(1, "nwr"))
        dbi = g(3, "dbi_rd") or 0; wls = g(2, "wls") or 0
        out["cl"] = LP4_RL[dbi].get(g(2, "rl")); out["cwl"] = LP4_WL[wls].get(g(2, "wl"))
        if g(1, "wr_pre") == 0: out["problems"].append(("reserved_code", "MR1 OP[2]=0: LPDDR4 only defines the 2 tCK write preamble", dict(reg=1, field="wr_pre", final=True)))
    elif memtype == "LPDDR5":
        r = {0: 4, 1: 2}.get(g(18, "ckr"), ratio)          # the DRAM's own idea of WCK:CK
        wls = "B" if g(3, "wls") else "A"
        ecc = (out["regs"].get(22, 0) >> 6) & 3
        rls = (1 if g(3, "dbi_rd") else 0) + (1 if ecc else 0)
        def idx(t, c): return t[c] if c is not None and c < len(t) else None
        out["cl"] = idx(LP5_RL[r][rls], g(2, "rl")); out["cwl"] = idx(LP5_WL[r][wls], g(1, "wl")); out["wr"] = idx(LP5_NWR[r], g(2, "nwr"))
        out["bl"] = {0: 16, 2: 16, 1: 32}.get(g(3, "bkorg")); out["ratio"] = r
        for nm, ba, c, t in (("wl", 1, g(1, "wl"), LP5_WL[r][wls]), ("rl", 2, g(2, "rl"), LP5_RL[r][0]), ("nwr", 2, g(2, "nwr"), LP5_NWR[r])):
            if c is not None and c >= len(t): out["problems"].append(("reserved_code", "MR%d %s code %d is reserved for WCK:CK %d:1" % (ba, nm, c, r), dict(reg=ba, field=nm, final=True)))
    return out

# =================================================================== tokenisers for the two renderings

def _eval_expr(expr, table, upper):
    v = 0; names = []
    for tok in expr.split("|"):
        tok = tok.strip()
        key = tok.upper() if upper else tok
        if key not in table: raise ValueError("unknown symbol %r" % tok)
        v |= table[key]; names.append(tok.upper())
    return v, names


def tokenise_c(text):
    """-> (defines, [ (a, ba, register, value, delay) ]) from the C header; register = 'control' | 'command'"""
    defs = {}
    for m in re.finditer(r"^#define[ \t]+(\w+)[ \t]+(\S+)[ \t]*$", text, re.M):
        try: defs[m.group(1)] = int(m.group(2).rstrip("ULL"), 0)
        except ValueError: pass
    m = re.search(r"static inline void init_sequence\(void\)\s*\{(.*?)^\}", text, re.S | re.M)
    if not m: raise ValueError("no init_sequence() in C header")
    ents = []; cur = None
    for line in m.group(1).split("\n"):
        line = line.strip()
        if not line: continue
        mm = re.fullmatch(r"/\*(.*)\*/", line)
        if mm:
            cur = {"comment": mm.group(1).strip()}; ents.append(cur); continue
        if cur is None: raise ValueError("statement before the first comment: %r" % line)
        mm = re.fullmatch(r"(\w+)\((.*)\);", line)
        if not mm: raise ValueError("cannot tokenise %r" % line)
        fn, arg = mm.groups()
        key = {"sdram_dfii_pi0_address_write": "a", "sdram_dfii_pi0_baddress_write": "ba", "cdelay": "delay"}.get(fn)
        if key:
            if key in cur: raise ValueError("two %s in one step" % fn)
            cur[key] = int(arg, 0)
        elif fn in ("command_p0", "sdram_dfii_control_write"):
            if "reg" in cur: raise ValueError("two commands in one step")
            cur["reg"] = "command" if fn == "command_p0" else "control"
            cur["val"], cur["names"] = _eval_expr(arg, defs, False)
        else: raise ValueError("unexpected call %s" % fn)
    out = []
    for e in ents:
        if not all(k in e for k in ("a", "ba", "reg")): raise ValueError("incomplete step %r" % e)
        out.append((e["a"], e["ba"], e["reg"], e["val"], e.get("delay", 0)))
    return defs, out


def tokenise_py(text):
    defs = {}
    for m in re.finditer(r"^(\w+)\s*=\s*(0x[0-9a-fA-F]+|\d+)\s*$", text, re.M): defs[m.group(1)] = int(m.group(2), 0)
    m = re.search(r"^init_sequence = \[\n(.*?)^\]", text, re.S | re.M)
    if not m: raise ValueError("no init_sequence in Python header")
    out = []
    for line in m.group(1).split("\n"):
        if not line.strip(): continue
        mm = re.fullmatch(r'\s*\("(.*)", (-?\d+), (-?\d+), ([a-z0-9_|]+), (-?\d+)\),', line)
        if not mm: raise ValueError("cannot tokenise %r" % line)
        _, a, ba, expr, delay = mm.groups()
        val, names = _eval_expr(expr, defs, False)
        reg = "control" if all(n.startswith("DFII_CONTROL") for n in names) else "command"
        out.append((int(a), int(ba), reg, val, int(delay)))
    return defs, out


def list_steps(seq):
    out = []
    for _, a, ba, cmd, delay in seq:
        val, names = _eval_expr(cmd, DFII, False)
        out.append((int(a), int(ba), "control" if cmd.startswith("DFII_CONTROL") else "command", val, int(delay)))
    return out

RDIMM_A_INV = sum(1 << i for i in (3, 4, 5, 6, 7, 8, 9, 11, 13))        # JESD82-31 B-side output inversion (A17 not on the bus)
RDIMM_BA_INV = 0b1111                                                     # BA0, BA1, BG0, BG1
MIRROR_A = [(3, 4), (5, 6), (7, 8), (11, 13)]                             # DDR4 address mirroring


def _mirror(a):
    for x, y in MIRROR_A:
        if ((a >> x) & 1) != ((a >> y) & 1): a ^= (1 << x) | (1 << y)
    return a


def check_render(steps, c_ents, py_ents, rdimm, clam):
    """-> list of (detail, text) differences"""
    diffs = []
    # expected expansion of the list
    exp = []
    for (a, ba, reg, val, d) in steps:
        exp.append((a, ba, reg, val, d))
        if rdimm and ba != 7: exp.append((a ^ RDIMM_A_INV, ba ^ RDIMM_BA_INV, reg, val, d))
    if py_ents != exp:
        k = next((i for i, (x, y) in enumerate(zip(py_ents, exp)) if x != y), min(len(py_ents), len(exp)))
        diffs.append((dict(which="py_vs_list", clam_shell=clam), "Python rendering differs from the sequence at step %d: %s vs %s (lengths %d/%d)" % (
            k, py_ents[k] if k < len(py_ents) else None, exp[k] if k < len(exp) else None, len(py_ents), len(exp))))
    cexp = []
    for (a, ba, reg, val, d) in exp:
        if clam and reg == "command" and val == 0xf:
            cexp.append((a, ba, reg, val | 64, d)); cexp.append((_mirror(a), ((ba & 1) << 1) | ((ba >> 1) & 1) | (ba & ~3), reg, val | 128, d))
        else: cexp.append((a, ba, reg, val, d))
    if c_ents != cexp:
        k = next((i for i, (x, y) in enumerate(zip(c_ents, cexp)) if x != y), min(len(c_ents), len(cexp)))
        diffs.append((dict(which="c_vs_list", clam_shell=clam), "C rendering differs from the sequence at step %d: %s vs %s (lengths %d/%d)" % (
            k, c_ents[k] if k < len(c_ents) else None, cexp[k] if k < len(cexp) else None, len(c_ents), len(cexp))))
    if c_ents != py_ents:
        k = next((i for i, (x, y) in enumerate(zip(c_ents, py_ents)) if x != y), min(len(c_ents), len(py_ents)))
        diffs.append((dict(which="c_vs_py", clam_shell=clam), "C and Python renderings differ at step %d: C %s, Python %s (lengths %d/%d)" % (
            k, c_ents[k] if k < len(c_ents) else None, py_ents[k] if k < len(py_ents) else None, len(c_ents), len(py_ents))))
    return diffs


# =================================================================== building the inputs of one grid point

def module_class(name):
    import litedram.modules as M
    if name == "LPDDR5ExampleModule": return lpddr5_module()
    return getattr(M, name)

_l5 = []
def lpddr5_module():
    """the only LPDDR5 part LiteDRAM knows lives in phy/lpddr5/simsoc.py, which needs the LiteX SoC builder (not importable in this
    environment): its class body is executed from the source text instead (real numbers, no copy)"""
    if _l5: return _l5[0]
    import litedram.modules as M
    try:
        from litedram.phy.lpddr5.simsoc import LPDDR5ExampleModule as cls
    except Exception:
        src = open(os.path.join(os.path.dirname(M.__file__), "phy", "lpddr5", "simsoc.py")).read()
        m = re.search(r"^class LPDDR5ExampleModule\(SDRAMModule\):\n(?:[ \t]+.*\n|\n)+", src, re.M)
        ns = {"SDRAMModule": M.SDRAMModule, "_TechnologyTimings": M._TechnologyTimings, "_SpeedgradeTimings": M._SpeedgradeTimings}
        exec(m.group(0), ns)
        cls = ns["LPDDR5ExampleModule"]
    _l5.append(cls); return cls


def library_modules(memtype):
    import litedram.modules as M
    if memtype == "LPDDR5": return ["LPDDR5ExampleModule"]
    out = []
    for name, cls in sorted(vars(M).items()):
        if isinstance(cls, type) and issubclass(cls, M.SDRAMModule) and getattr(cls, "memtype", None) == memtype and hasattr(cls, "nbanks") and hasattr(cls, "nrows"):
            out.append(name)
    return out


def speedgrades(name):
    cls = module_class(name)
    sg = getattr(cls, "speedgrade_timings", None)
    if isinstance(sg, dict): return [None] + sorted(k for k in sg if k != "default")
    return [None]


def build(case):
    """-> (phy, timing, geom, need) ; need = dict(twr_ck) or None"""
    from litedram.common import PhySettings, GeomSettings, TimingSettings, get_sys_latency, get_sys_phase
    mt = case["memtype"]; n = case["nphases"]; cl = case["cl"]; cwl = case.get("cwl")
    databits = 16
    dfi = {"SDR": databits, "LPDDR5": 16 * databits}.get(mt, 2 * databits)
    ecwl = cl if cwl is None else cwl
    cls_ = get_sys_latency(n, cl); cws_ = get_sys_latency(n, ecwl)
    phy = PhySettings(phytype="C17PHY", memtype=mt, databits=databits, dfi_databits=dfi, nphases=n,
                      rdphase=get_sys_phase(n, cls_, cl) % n, wrphase=get_sys_phase(n, cws_, ecwl) % n, cl=cl, cwl=cwl,
                      read_latency=cls_ + 6, write_latency=max(cws_ - 1, 0), cmd_latency=0, is_clam_shell=bool(case.get("clam")),
                      bitslips=8, delays=32, read_leveling=mt not in ("SDR", "DDR", "LPDDR"))
    if mt == "LPDDR5": phy.wck_ck_ratio = case.get("ratio", 2)
    if case.get("elec"): phy.add_electrical_settings(**case["elec"])          # the public API for DDR3/DDR4
    for k, v in (case.get("attrs") or {}).items(): setattr(phy, k, v)          # LPDDR4/5: plain attributes (no API exists)
    if case.get("rdimm"): phy.set_rdimm(**case["rdimm"])
    need = None
    if case.get("module"):
        cls = module_class(case["module"])
        m = cls(case["clk"], "1:%d" % n, speedgrade=case.get("speedgrade"), fine_refresh_mode=case.get("frm"))
        tim, geom = m.timing_settings, m.geom_settings
        t = m.get("tWR")
        if t is not None:
            ns = Fraction(str(t.ns)) if not isinstance(t.ns, int) else Fraction(t.ns)
            need = dict(twr_ck=int(t.ck), twr_ns=float(t.ns), tck_ns=1e9 / (case["clk"] * n),
                        twr_need=max(int(t.ck), int(math.ceil(ns * int(case["clk"]) * n / Fraction(10 ** 9)))))
    else:
        tim = TimingSettings(**case["timing"]); tim.fine_refresh_mode = case.get("frm") or ("1x" if mt == "DDR4" else None)
        geom = GeomSettings(**(case.get("geom") or dict(bankbits=3, rowbits=14, colbits=10)))
    return phy, tim, geom, need


REPRESENTABLE_CL = {"SDR": {2, 3}, "DDR": {2, 3}, "LPDDR": {2, 3}, "DDR2": {3, 4, 5, 6, 7}, "DDR3": set(DDR3_CL.values()), "DDR4": set(DDR4_CL.values()),
                    "LPDDR4": set(LP4_RL[0].values())}
REPRESENTABLE_CWL = {"DDR3": set(DDR3_CWL.values()), "DDR4": set(DDR4_CWL.values()), "LPDDR4": set(LP4_WL[0].values())}


def representable(case):
    mt = case["memtype"]
    if mt == "LPDDR5":
        r = case.get("ratio", 2)
        return any(LP5_RL[r][0][i] == case["cl"] and LP5_WL[r]["A"][i] == case["cwl"] for i in range(len(LP5_NWR[r])))
    if mt == "RPC": return case["cl"] == case["cwl"] and case["cl"] - 1 in (3, 8, 10, 11, 13)
    if case["cl"] not in REPRESENTABLE_CL[mt]: return False
    if mt in REPRESENTABLE_CWL and case.get("cwl") not in REPRESENTABLE_CWL[mt]: return False
    if mt == "DDR2" and case.get("cwl") is not None and case["cwl"] != case["cl"] - 1: return False      # DDR2 cannot program WL != CL-1 (AL=0)
    return True


def expected_bl(case):
    from litedram.common import burst_lengths
    return case["nphases"] if case["memtype"] == "SDR" else burst_lengths[case["memtype"]]


def evaluate(case):
    """One grid point.  -> dict(viols=[(rule, msg, detail)], notes=[...], obligations=n, produced=bool, sample={...}, key=...)"""
    from litedram import init as I
    mt = case["memtype"]; n = case["nphases"]
    sel = case.get("sel", "override") != "override"
    V = []; notes = []; nob = 0
    base = dict(memtype=mt, nphases=n, sel=case.get("sel", "override"))
    def viol(rule, msg, **d):
        V.append((rule, msg, dict(base, **d)))
    phy, tim, geom, need = build(case)
    res = dict(viols=V, notes=notes, produced=False, sample=None)
    # ---- obligation: a selectable combination must not raise
    nob += 1
    try:
        seq, mrd = I.get_sdram_phy_init_sequence(phy, tim)
    except Exception as e:
        what = "%s: %s" % (type(e).__name__, e)
        if case.get("opt_axis"):
            notes.append("option rejected (%s): %s" % (case["opt_axis"], what))
        elif sel:
            viol("init.raises", "init sequence generator raises %s for cl=%s cwl=%s nphases=%d tWTR=%s (selected by %s)" % (what, case["cl"], case.get("cwl"), n, tim.tWTR, case["sel"]),
                 field="sequence", exc=type(e).__name__)
        else:
            notes.append("override rejected: %s" % what)
        res["obligations"] = nob; res["raised"] = what
        return res
    res["produced"] = True
    rep = representable(case)
    judge = sel or rep
    D = decode_sequence(mt, seq, ratio=case.get("ratio")) if mt != "RPC" else decode_rpc(seq)
    notes.extend(D["notes"])
    ebl = expected_bl(case)
    sample = dict(inputs={k: v for k, v in case.items()}, timing={k: getattr(tim, k, None) for k in ("tWR", "tWTR", "tCCD", "fine_refresh_mode")},
                  mr_writes=[dict(comment=c, ba=int(ba), value="%#x" % int(a)) for (c, a, ba, cmd, d) in seq if is_mrs(cmd)],
                  decoded=dict(bl=D["bl"], cl=D["cl"], cwl=D["cwl"], wr=D["wr"], al=D.get("al")), need=need)
    res["sample"] = sample
    def v2(rule, msg, **d):
        if judge: viol(rule, msg, **d)
        else: notes.append("unguarded override (JEDEC cannot encode cl=%s cwl=%s): %s: %s" % (case["cl"], case.get("cwl"), rule, msg))
    # ---- 1. BL / CL / CWL
    if mt != "RPC":
        nob += 1
        if D["bl"] != ebl: v2("mr.bl_mismatch", "mode register programs BL=%s, controller assumes %s" % (D["bl"], ebl), field="bl")
    nob += 1
    ecl = phy.cl - 1 if mt == "RPC" else phy.cl
    if D["cl"] != ecl: v2("mr.cl_mismatch", "mode register programs CL=%s, PHY/controller operate with %s (regs %s)" % (D["cl"], ecl, {k: hex(v) for k, v in D["regs"].items()}), field="cl")
    cwl_judged = mt in ("DDR3", "DDR4", "LPDDR4", "LPDDR5") or (mt == "DDR2" and case.get("cwl") is not None)
    if cwl_judged:
        nob += 1
        if D["cwl"] != phy.cwl:
            v2("mr.cwl_mismatch", "mode registers give the DRAM a write latency of %s, PHY/controller operate with %s (CL=%s)" % (D["cwl"], phy.cwl, phy.cl), field="cwl",
               sense=("controller_shorter" if D["cwl"] is not None and phy.cwl < D["cwl"] else "controller_longer"))
    # ---- 2. write recovery
    if D["wr"] is not None and need is not None and case.get("wr_check", True):
        nob += 1; res["wr_checked"] = True
        if D["wr"] < need["twr_need"]:
            v2("mr.wr_too_short", "programmed write recovery WR=%d < ceil(tWR/tCK)=%d (tWR=%sck/%sns, tCK=%.4fns; %s %s @%gMHz 1:%d; tWTR=%d cycles)" % (
                D["wr"], need["twr_need"], need["twr_ck"], need["twr_ns"], need["tck_ns"], case["module"], case.get("speedgrade") or "default", case["clk"] / 1e6, n, tim.tWTR), field="wr")
        nob += 1
        burst = ebl if mt == "SDR" else (ebl // (2 * case.get("ratio", 2)) if mt == "LPDDR5" else ebl // 2)
        wl = D["cwl"] if D["cwl"] is not None else phy.cwl
        wait = (cdiv(phy.cwl, n) + tim.tWR + (tim.tCCD or 0)) * n
        # below the JEDEC DLL-on minimum clock the smallest encodable WR legitimately exceeds any controller wait: not a selectable operating point
        dram_mhz = case["clk"] * n / 1e6
        in_range = dram_mhz >= {"DDR2": 125, "DDR3": 300, "DDR4": 625}.get(mt, 0)
        if wl + burst + D["wr"] > wait and not in_range:
            notes.append("WR exceeds the controller wait below the JEDEC minimum clock of %s (%g MHz DRAM clock): not judged" % (mt, dram_mhz))
        if wl + burst + D["wr"] > wait and in_range:
            v2("mr.wr_exceeds_controller_wait", "DRAM needs WL+burst+WR = %d+%d+%d = %d clocks from write to precharge, controller waits (%d+%d+%d)*%d = %d" % (
                wl, burst, D["wr"], wl + burst + D["wr"], cdiv(phy.cwl, n), tim.tWR, tim.tCCD or 0, n, wait), field="wr")
    # ---- 3. fields: overlap / overflow / reserved / bus width
    nob += max(D["nwrites"], 1)
    seen = set()
    for kind, text, d in D["problems"]:
        k = (kind, d.get("reg"), d.get("field"))
        if k in seen: continue
        seen.add(k)
        v2("mr.field_overflow", text, field=str(d.get("field")), reg=d.get("reg"), kind=kind)
    abits = geom.addressbits; bbits = geom.bankbits
    if mt == "LPDDR4": abits, bbits = 17, 6
    if mt == "LPDDR5": abits, bbits = 18, 7
    for (c, a, ba, cmd, d) in seq:
        nob += 1
        if not (0 <= int(a) < (1 << abits)) or not (0 <= int(ba) < (1 << bbits)):
            v2("mr.field_overflow", "step %r: address %#x / bank %d do not fit the %d-bit address / %d-bit bank bus" % (c, int(a), int(ba), abits, bbits), field="bus", reg=int(ba), kind="overflow")
            break
    # ---- electrical options: requested == decoded
    for (name, want, got) in electrical(case, D):
        nob += 1
        # termination/drive options are not among the fields the property lists (BL, CL, CWL, WR, overlap/overflow, renderings):
        # a difference is recorded as a note, never as a violation of C17
        if want != got: notes.append("electrical option %s requested %r, mode registers program %r (outside the property's field list)" % (name, want, got))
    # ---- 5. renderings
    nob += 3
    try:
        ctext = I.get_sdram_phy_c_header(phy, tim, geom); ptext = I.get_sdram_phy_py_header(phy, tim)
        cdefs, cents = tokenise_c(ctext); pdefs, pents = tokenise_py(ptext)
        for d, text in check_render(list_steps(seq), cents, pents, bool(case.get("rdimm")), bool(case.get("clam"))):
            viol("render.c_py_differ", text, field="render", **d)
        if mt in ("DDR3", "DDR4"):
            nob += 1
            if not (cdefs.get("DDRX_MR_WRLVL_RESET") == pdefs.get("ddrx_mr1") == D["regs"].get(1)):
                viol("render.c_py_differ", "write-levelling MR1 reset value: C %s, Python %s, sequence %s" % (cdefs.get("DDRX_MR_WRLVL_RESET"), pdefs.get("ddrx_mr1"), D["regs"].get(1)), field="mr1", which="wrlvl")
        for nm, want in (("SDRAM_PHY_CL", phy.cl), ("SDRAM_PHY_CWL", phy.cwl), ("SDRAM_PHY_PHASES", n)):
            nob += 1
            if cdefs.get(nm) != want: viol("render.c_py_differ", "C header %s=%s, PHY settings say %s" % (nm, cdefs.get(nm), want), field=nm, which="define")
    except Exception as e:
        if case.get("clam") and mt != "DDR4": notes.append("clam shell rejected for %s: %s" % (mt, e))
        else: viol("render.c_py_differ", "rendering failed: %s: %s" % (type(e).__name__, e), field="render", which="exception")
    res["obligations"] = nob
    return res


def decode_rpc(seq):
    """Etron RPC DRAM has one mode register; LiteDRAM carries it over DFI as address[2:0]=CL code (its own convention, decoded by the RPC PHY)."""
    w = [(int(a), int(ba)) for (_, a, ba, cmd, _) in seq if is_mrs(cmd)]
    out = dict(bl=None, cl=None, cwl=None, wr=None, al=1, regs={}, fields={}, problems=[], notes=["RPC: only the CL code is decoded (no public JEDEC definition)"], nwrites=len(w))
    if w:
        a, ba = w[-1]; out["regs"][0] = a
        out["cl"] = {0: 8, 1: 10, 2: 11, 3: 13, 6: 3}.get(a & 7)
        if a >> 11 or ba >> 2: out["problems"].append(("overflow", "RPC mode register %#x/%d exceeds its DFI encoding" % (a, ba), dict(reg=0, field="value", final=True)))
    return out


def electrical(case, D):
    """-> [(name, requested, decoded)] for every electrical option the case sets explicitly"""
    mt = case["memtype"]; F = D["fields"]; out = []
    e = case.get("elec") or {}; at = case.get("attrs") or {}
    if mt == "DDR3" and F.get(1) and F.get(2):
        if "rtt_nom" in e: out.append(("rtt_nom", e["rtt_nom"], DDR3_RTT_NOM.get(F[1]["rtt_nom"])))
        if "rtt_wr" in e: out.append(("rtt_wr", e["rtt_wr"], DDR3_RTT_WR.get(F[2]["rtt_wr"])))
        if "ron" in e: out.append(("ron", e["ron"], DDR3_ODS.get(F[1]["ods"])))
        if "tdqs" in e: out.append(("tdqs", e["tdqs"], F[1]["tdqs"]))
    if mt == "DDR4" and F.get(1) and F.get(2):
        if "rtt_nom" in e: out.append(("rtt_nom", e["rtt_nom"], DDR4_RTT_NOM.get(F[1]["rtt_nom"])))
        if "rtt_wr" in e: out.append(("rtt_wr", e["rtt_wr"], DDR4_RTT_WR.get(F[2]["rtt_wr"])))
        if "ron" in e: out.append(("ron", e["ron"], DDR4_ODI.get(F[1]["odi"])))
        if "tdqs" in e: out.append(("tdqs", e["tdqs"], F[1]["tdqs"]))
        if F.get(3) and case.get("frm"): out.append(("fine_refresh_mode", case["frm"], DDR4_FGR.get(F[3]["fgr"])))
    if mt == "LPDDR4":
        for k, ba, f in (("dq_odt", 11, "dq_odt"), ("ca_odt", 11, "ca_odt"), ("pull_down_drive_strength", 3, "pdds")):
            if k in at and F.get(ba): out.append((k, at[k], LP_RZQ.get(F[ba][f])))
        for k, ba in (("ca", 12), ("dq", 14)):
            if ("vref_" + k) in at and F.get(ba):
                rng = F[ba]["vr"]; out.append(("vref_" + k, (at.get("vref_%s_range" % k, 1), at["vref_" + k]), (rng, round((10.0, 22.0)[rng] + 0.4 * F[ba]["vref"], 1))))
    if mt == "LPDDR5":
        for k, ba, f in (("dq_odt", 11, "dq_odt"), ("ca_odt", 11, "ca_odt"), ("pull_down_drive_strength", 3, "pdds"), ("soc_odt", 17, "soc_odt"), ("wck_odt", 18, "wck_odt")):
            if k in at and F.get(ba): out.append((k, at[k], LP_RZQ.get(F[ba][f])))
        for k, ba in (("vref_ca", 12), ("vref_dq", 14)):
            if k in at and F.get(ba): out.append((k, round(at[k] * 2) / 2, 10.0 + 0.5 * F[ba]["vref"]))
        if F.get(18): out.append(("wck_ck_ratio", case.get("ratio", 2), {0: 4, 1: 2}[F[18]["ckr"]]))
    return out

# =================================================================== what the PHYs select

NPHASES = {"SDR": (1, 2), "DDR": (2,), "LPDDR": (2,), "DDR2": (2, 4), "DDR3": (2, 4, 8), "DDR4": (4,), "LPDDR4": (8,), "LPDDR5": (1, 2, 4), "RPC": (4,)}
# SDR: GENSDRPHY 1, HalfRateGENSDRPHY 2.  DDR/LPDDR: S6HalfRateDDRPHY 2.  DDR2: S6 half-rate 2, S7DDRPHY 2 or 4 (default argument 4).
# DDR3: S6 half 2 / quarter 4, ECP5/GW2/GW5 2, S7/US 4, s7ddrphy_with_ratio(2) 8.  DDR4: S7/US 4.  LPDDR4: 8.  LPDDR5: 1 x DFIRateConverter ratio.

JEDEC_MAX_MTS = {"DDR": 400, "LPDDR": 400, "DDR2": 1066, "DDR3": 2133, "DDR4": 3200}
_lp4 = []
def lpddr4_table():
    """frequency -> (cl, cwl) table of phy/lpddr4/basephy.py (a nested function there): read from the source text"""
    if not _lp4:
        import litedram.phy.lpddr4 as P
        src = open(os.path.join(os.path.dirname(P.__file__), "basephy.py")).read()
        t = [(int(f) * 1e6, int(cl), int(cwl)) for f, cl, cwl in re.findall(r"f_to_cl_cwl\[\s*(\d+)e6\]\s*=\s*\(\s*(\d+),\s*(\d+)\)", src)]
        if len(t) < 4: raise RuntimeError("cannot read the LPDDR4 latency table from basephy.py")
        _lp4.append(t)
    return _lp4[0]


def phy_choices(memtype, n, clk, ratio=None):
    """(sel, cl, cwl) the PHYs of /repo pick by themselves at this controller clock"""
    from litedram.common import get_default_cl_cwl
    tck = 1 / (n * clk)
    out = []
    # the fixed-latency PHYs do not look at the frequency: keep them inside the data rates JEDEC defines for the memory type
    if memtype in JEDEC_MAX_MTS and 2 / tck > JEDEC_MAX_MTS[memtype] * 1e6 * 1.001: return out
    def dflt(tag, tck_=tck, inc=0):
        try: cl, cwl = get_default_cl_cwl(memtype, tck_)
        except ValueError: return
        out.append((tag, cl + inc, cwl))
    if memtype == "SDR": dflt("phy_default", 1 / clk)            # HalfRateGENSDRPHY also looks the default up with 1/sys_clk_freq
    elif memtype in ("DDR", "LPDDR"): out.append(("phy_fixed_s6", 3, None))
    elif memtype == "DDR2":
        if n == 2: out.append(("phy_fixed_s6", 3, None))
        dflt("phy_default")
    elif memtype == "DDR3":
        if n in (2, 4): out.append(("phy_fixed_s6", 5, 6))
        dflt("phy_default")
        if n in (4, 8): dflt("phy_a7_cl+1", inc=1)
    elif memtype == "DDR4": dflt("phy_default")
    elif memtype == "LPDDR4":
        for f, cl, cwl in lpddr4_table():
            if tck >= 2 / f:
                out.append(("phy_table", cl, cwl)); break
    elif memtype == "LPDDR5":
        from litedram.phy.lpddr5.basephy import get_frange
        try:
            fr = get_frange(1 / (ratio * n * clk), ratio).for_set(wl_set="A", rl_set=0)
            out.append(("phy_table", fr.rl, fr.wl))
        except ValueError: pass
    elif memtype == "RPC": out.append(("phy_fixed_rpc", 9, 9))
    return out


def selectable_pairs(memtype, n, ratio=None):
    """every (cl, cwl) some PHY can pick for this memtype/nphases at any frequency -> {(cl, cwl): sel}"""
    pairs = {}
    for mhz in range(5, 2200, 1):
        for sel, cl, cwl in phy_choices(memtype, n, mhz * 1e6 if memtype == "SDR" else mhz * 1e6 / n, ratio):
            pairs.setdefault((cl, cwl), sel)
    if memtype == "LPDDR5":
        from litedram.phy.lpddr5.basephy import FREQUENCY_RANGES
        for fr in FREQUENCY_RANGES[ratio]:
            fr = fr.for_set(wl_set="A", rl_set=0); pairs.setdefault((fr.rl, fr.wl), "phy_table")
    if memtype == "LPDDR4":
        for f, cl, cwl in lpddr4_table(): pairs.setdefault((cl, cwl), "phy_table")
    return pairs


REP_MODULE = {"SDR": "MT48LC4M16", "DDR": "MT46V32M16", "LPDDR": "MT46H32M16", "DDR2": "MT47H64M16", "DDR3": "MT41K128M16", "DDR4": "EDY4016A",
              "LPDDR4": "MT53E256M16D1", "LPDDR5": "LPDDR5ExampleModule", "RPC": "EM6GA16L"}


def clocks(tier):
    return [f * 1e6 for f in range(50, 301, 25 if tier == "quick" else 1)]


# ---- case generators ------------------------------------------------------------------------------------------------

def gen_latency(memtype, n, tier, ratio=None):
    """all CL in 2..40 x CWL in 2..30 (+ 'not stated'): which raise, which are accepted, and what the accepted ones program"""
    sp = selectable_pairs(memtype, n, ratio)
    # SDR/DDR/LPDDR: init.py never looks at cwl (fixed write latency) -> 'not stated' only; DDR2: WL follows from CL, every stated cwl is tried
    cwls = [None] if memtype in ("SDR", "DDR", "LPDDR") else ([None] + list(range(2, 31)) if memtype == "DDR2" else list(range(2, 31)))
    for cl in range(2, 41):
        for cwl in cwls:
            c = dict(memtype=memtype, nphases=n, cl=cl, cwl=cwl, sel=sp.get((cl, cwl), "override"), module=REP_MODULE[memtype], clk=100e6, wr_check=False)
            if ratio: c["ratio"] = ratio
            yield c
    if memtype in ("DDR3", "DDR4"):
        # every write-recovery code init.py can emit: synthetic TimingSettings (tWTR = tWR = k controller cycles), first selectable pair
        (cl, cwl), sel = sorted(sp.items(), key=str)[0]
        for k in range(1, 11):
            yield dict(memtype=memtype, nphases=n, cl=cl, cwl=cwl, sel="override", wr_check=False, opt_axis="synthetic_timing",
                       timing=dict(tRP=3, tRCD=3, tWR=k, tWTR=k, tREFI=700, tRFC=30, tFAW=6, tCCD=max(1, 4 // n), tRRD=2, tRC=10, tRAS=7, tZQCS=16))
    for (cl, cwl), sel in sorted(sp.items(), key=str):
        if not (2 <= cl <= 40) or not (cwl is None or 2 <= cwl <= 30):
            c = dict(memtype=memtype, nphases=n, cl=cl, cwl=cwl, sel=sel, module=REP_MODULE[memtype], clk=100e6, wr_check=False)
            if ratio: c["ratio"] = ratio
            yield c


def gen_timing(memtype, n, tier, ratio=None, modules=None):
    mods = modules or library_modules(memtype)
    for name in mods:
        for sg in (speedgrades(name) if tier == "thorough" else speedgrades(name)[:1] + speedgrades(name)[-1:] if len(speedgrades(name)) > 1 else [None]):
            for clk in clocks(tier):
                for frm in ((None, "2x", "4x") if memtype == "DDR4" else (None,)):
                    for sel, cl, cwl in phy_choices(memtype, n, clk, ratio):
                        c = dict(memtype=memtype, nphases=n, cl=cl, cwl=cwl, sel=sel, module=name, speedgrade=sg, clk=clk, wr_check=True)
                        if frm: c["frm"] = frm
                        if ratio: c["ratio"] = ratio
                        yield c


def gen_options(memtype, tier):
    import itertools
    if memtype == "DDR3":
        base = dict(memtype="DDR3", nphases=4, cl=7, cwl=6, sel="phy_default", module="MT41K128M16", clk=125e6, wr_check=False)
        for rn, rw, ro, td in itertools.product([None, "disabled", "60ohm", "120ohm", "40ohm", "20ohm", "30ohm"], [None, "disabled", "60ohm", "120ohm"], [None, "40ohm", "34ohm"], [None, 0, 1]):
            e = {k: v for k, v in (("rtt_nom", rn), ("rtt_wr", rw), ("ron", ro), ("tdqs", td)) if v is not None}
            yield dict(base, elec=e, opt_axis="electrical") if e else dict(base)
        yield dict(base, clam=True, opt_axis="clam_shell")
    elif memtype == "DDR4":
        base = dict(memtype="DDR4", nphases=4, cl=9, cwl=9, sel="phy_default", module="EDY4016A", clk=125e6, wr_check=False)
        for rn, rw, ro, td in itertools.product([None] + list(DDR4_RTT_NOM.values()), [None] + list(DDR4_RTT_WR.values()), [None, "34ohm", "48ohm"], [None, 0, 1]):
            e = {k: v for k, v in (("rtt_nom", rn), ("rtt_wr", rw), ("ron", ro), ("tdqs", td)) if v is not None}
            yield dict(base, elec=e, opt_axis="electrical") if e else dict(base)
        for mod in ("MTA18ASF2G72PZ", "EDY4016A"):
            for clk in clocks(tier):
                ch = phy_choices("DDR4", 4, clk)
                if not ch: continue
                sel, cl, cwl = ch[0]
                b = dict(memtype="DDR4", nphases=4, cl=cl, cwl=cwl, sel=sel, module=mod, clk=clk, wr_check=True)
                for clam in (False, True):
                    yield dict(b, clam=clam) if clam else dict(b)
                    if mod != "MTA18ASF2G72PZ": continue
                    for byp in (False, True):
                        for drv in ((5, 5, 5), (0, 0, 0), (15, 10, 3)):
                            yield dict(b, clam=clam, rdimm=dict(tck=2 / (2 * 4 * clk), rcd_pll_bypass=byp, rcd_ca_cs_drive=drv[0], rcd_odt_cke_drive=drv[1], rcd_clk_drive=drv[2]))
    elif memtype == "LPDDR4":
        base = dict(memtype="LPDDR4", nphases=8, cl=14, cwl=8, sel="phy_table", module="MT53E256M16D1", clk=100e6, wr_check=False)
        yield dict(base)
        for k in ("dq_odt", "ca_odt", "pull_down_drive_strength"):
            for v in LP_RZQ.values():
                if k == "pull_down_drive_strength" and v == "disable": continue          # JEDEC has no such PDDS code (000 is RFU): not an option
                yield dict(base, attrs={k: v}, opt_axis=k)
        for k in ("ca", "dq"):
            for rng in (0, 1):
                for i in range(0, 81):
                    yield dict(base, attrs={"vref_%s_range" % k: rng, "vref_" + k: round(10.0 + 0.4 * i, 1)}, opt_axis="vref_" + k)
    elif memtype == "LPDDR5":
        for ratio, (cl, cwl) in ((2, (10, 6)), (4, (5, 3))):
            base = dict(memtype="LPDDR5", nphases=1, ratio=ratio, cl=cl, cwl=cwl, sel="phy_table", module="LPDDR5ExampleModule", clk=100e6, wr_check=False)
            yield dict(base)
            for k in ("dq_odt", "ca_odt", "pull_down_drive_strength", "soc_odt", "wck_odt"):
                for v in LP_RZQ.values():
                    if k == "pull_down_drive_strength" and v == "disable": continue
                    yield dict(base, attrs={k: v}, opt_axis=k)
            for k in ("vref_ca", "vref_dq"):
                for i in range(0, 128): yield dict(base, attrs={k: 10.0 + 0.5 * i}, opt_axis=k)


GEN = {"latency": gen_latency, "timing": gen_timing, "options": gen_options}


def case_key(case):
    """distinctness: everything init.py or the oracle can see (module identity only through the numbers it produces)"""
    phy, tim, geom, need = build(case)
    return json.dumps([case["memtype"], case["nphases"], case["cl"], case.get("cwl"), case.get("ratio"), case.get("sel") != "override",
                       tim.tWR, tim.tWTR, tim.tCCD, getattr(tim, "fine_refresh_mode", None), need and need["twr_need"] if case.get("wr_check", True) else None,
                       geom.addressbits, geom.bankbits, case.get("elec"), case.get("attrs"), case.get("rdimm"), bool(case.get("clam"))], sort_keys=True, default=str)


_known_cache = {}
def known(name, rule, detail):
    k = (rule, json.dumps(detail, sort_keys=True, default=str))
    if k not in _known_cache: _known_cache[k] = runner.known_filter(PROP, name, rule, detail)
    return _known_cache[k]


def job(kind, memtype, args, tier, name=None):
    t0 = time.time()
    seen = set(); nob = 0; produced = 0; generated = 0; raised = 0
    viols = []; stored = set(); by_rule = {}; examples = {}; known_hits = {}; known_entries = {}; notes = {}; vt = 0
    samples = []; accepted = []; wrc = 0
    for case in GEN[kind](memtype, *args):
        generated += 1
        try:
            key = case_key(case)
        except Exception as e:
            # the real SDRAMModule / PhySettings refuse these inputs: not a point of the grid (e.g. option API asserts)
            notes["input rejected while building settings: %s" % type(e).__name__] = notes.get("input rejected while building settings: %s" % type(e).__name__, 0) + 1
            continue
        if key in seen: continue
        seen.add(key)
        r = evaluate(case)
        nob += r["obligations"]; wrc += 1 if r.get("wr_checked") else 0
        if r["produced"]:
            produced += 1
            if kind == "latency": accepted.append((case["cl"], case.get("cwl")))
            if len(samples) < 2 or (r["viols"] and not any(s.get("violations") for s in samples)):
                s = dict(r["sample"]); s["violations"] = [v[0] for v in r["viols"]]; samples.append(s)
        else:
            raised += 1
        for nt in r["notes"]:
            nk = re.sub(r"0x[0-9a-f]+|\d+(\.\d+)?", "#", nt)[:160]; notes[nk] = notes.get(nk, 0) + 1
        for rule, msg, detail in r["viols"]:
            e = known(name, rule, detail)
            if e is not None:
                known_hits[e["id"]] = known_hits.get(e["id"], 0) + 1; known_entries[e["id"]] = e["title"]; continue
            vt += 1
            cls = "%s[%s/%s%s]" % (rule, detail["memtype"], detail.get("field"), "/" + detail["which"] if "which" in detail else "")
            by_rule[cls] = by_rule.get(cls, 0) + 1
            examples.setdefault(cls, [])
            if len(examples[cls]) < 3: examples[cls].append(dict(case={k: v for k, v in case.items()}, msg=msg))
            if cls not in stored and len(viols) < 3:
                stored.add(cls)
                viols.append(runner.enum_violation(PROP, name, "checks.c17", case, rule, msg, **detail))
    out = dict(config=name, kind=kind, memtype=memtype, args=runner.jsonable(args), generated=generated, evaluations=nob, distinct_nontrivial=produced,
               distinct_inputs=len(seen), raised_or_rejected=raised, wr_obligation_points=wrc, states=0, transitions=0, complete=True, samples=samples[:3],
               violations=viols, violations_total=vt, violations_by_class=by_rule, violation_examples=examples, known_hits=known_hits, known_entries=known_entries,
               notes=notes, wall_s=round(time.time() - t0, 2))
    if kind == "latency":
        out["accepted_cl"] = sorted(set(c for c, _ in accepted)); out["accepted_cwl"] = sorted(set(w for _, w in accepted if w is not None))
        out["accepted_pairs"] = len(accepted)
    return out


def jobs_for(tier):
    J = []
    def add(kind, mt, *args):
        nm = "%s-%s%s" % (kind, mt, "".join("-%s" % (("n%d" % a) if i == 0 else ("r%d" % a)) for i, a in enumerate(args) if isinstance(a, int)))
        gargs = (tier,) if kind == "options" else (args[0], tier) + tuple(args[1:])
        J.append((job, (kind, mt, gargs, tier), dict(name=nm)))
    for mt in ("SDR", "DDR", "LPDDR", "DDR2", "DDR3", "DDR4", "LPDDR4", "RPC"):
        for n in NPHASES[mt]:
            add("latency", mt, n)
            add("timing", mt, n)
    for n in NPHASES["LPDDR5"]:
        for ratio in (2, 4):
            add("timing", "LPDDR5", n, ratio)
    for ratio in (2, 4): add("latency", "LPDDR5", 1, ratio)
    for mt in ("DDR3", "DDR4", "LPDDR4", "LPDDR5"): add("options", mt)
    return J


def run(tier, seed, only=None):
    t0 = time.time()
    jobs = [j for j in jobs_for(tier) if not only or only in j[2]["name"]]
    jobs.sort(key=lambda j: 0 if j[2]["name"].startswith("timing-DDR3") or j[2]["name"].startswith("timing-DDR4") else 1)
    res = runner.run_jobs(jobs)
    by = {}
    for st, r in res:
        if st == "ok":
            for k, v in r.get("violations_by_class", {}).items(): by[k] = by.get(k, 0) + v
    extra = {"violations_by_class": by, "violation_instances_total": sum(by.values()),
             "memtypes": ["SDR", "DDR", "LPDDR", "DDR2", "DDR3", "DDR4", "LPDDR4", "LPDDR5", "RPC (no-raise, CL code and renderings only)"]}
    return runner.finish(PROP, tier, seed, "exploration", res, t0, ASSUME, RULE, extra=extra,
                         technique="exhaustive enumeration of memtype x latency x timing grid against independent JEDEC mode-register decoders")


def replay_case(case):
    r = evaluate(case)
    return [(rule, msg) for rule, msg, _ in r["viols"]]
