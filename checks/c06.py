"""C06 - port addresses map one-to-one onto DRAM locations (observed on the DFI of the real crossbar + controller).

Exhaustive input enumeration: for each geometry every port address (or, for large row spaces, a structured address set that
exposes any dropped/duplicated/crossed bit of a bit permutation) is driven through the real core as a read; the (rank, bank, row of
the ACTIVATE, column of the READ) seen on the DFI is recorded and compared with an independently written mapping."""
import time, math
from engine import runner, fhdl

PROP = "C06"
ASSUME = [
    "the translation is observed where the statement says: on the DFI command bus (row = address of the ACTIVATE that opened the bank, column = address of the READ with bit A10 removed)",
    "one read outstanding at a time; the second pass visits the addresses in bit-reversed order so that every address is also reached from non-initial row states",
    "small-row geometries (complete enumeration) run with refresh and auto-precharge off when the DFI address bus has no A10 (DESIGN 3.6); geometries with >= 11 row/column bits run with auto-precharge on over a structured address "
    "set (all column x bank values with rows in {0, all-ones, walking 1, walking 0} and all row values with a few column/bank values): the mapping is a bit permutation, so this set exposes any bit that is dropped, duplicated or crossed",
    "reference mapping written independently: bank bits sit at max(colbits - burst_alignment, log2(bank_byte_alignment / bytes_per_word)); rank above bank; column below; row = remaining bits",
]
RULE = ("every enumerated address is one evaluation (two passes); oracle: observed (rank,bank,row,col) == reference, map injective, image == whole device (complete geometries), column walks fastest then bank then row, "
        "A10 on READ carries no column bit (only the auto-precharge flag), ACT row == row part")


def bitrev(x, n):
    r = 0
    for i in range(n):
        if (x >> i) & 1: r |= 1 << (n - 1 - i)
    return r


def geometry_job(name="", memtype="SDR", nphases=1, bankbits=1, rowbits=2, colbits=8, nranks=1, bank_byte_alignment=0, ap=False, structured=False, databits=8, seed=0, time_limit=None):
    import time as _t
    t0 = _t.time()
    from checks.corebuild import make_core
    from litedram.common import burst_lengths
    import checks.corebuild as cb
    bl = nphases if memtype == "SDR" else burst_lengths[memtype]
    align = int(math.log2(bl))
    # build the core (corebuild asserts A10 exists; C06 deliberately also covers narrow buses with auto-precharge/refresh off)
    from migen import Module
    from litedram.common import PhySettings, GeomSettings, TimingSettings
    from litedram.core.controller import ControllerSettings, LiteDRAMController
    from litedram.core.crossbar import LiteDRAMCrossbar
    assert colbits <= 10 or rowbits > colbits, "DFI bus would truncate the column (A10 is skipped): use a real-size row space"
    has_a10 = max(rowbits, colbits) >= 11
    if not has_a10: ap = False
    phy = PhySettings(phytype="verif", memtype=memtype, databits=databits, dfi_databits=databits if memtype == "SDR" else 2 * databits, nphases=nphases,
                      rdphase=0, wrphase=0, cl=2, cwl=2, read_latency=2, write_latency=0, nranks=nranks)
    geom = GeomSettings(bankbits=bankbits, rowbits=rowbits, colbits=colbits)
    tim = TimingSettings(tRP=2, tRCD=2, tWR=2, tWTR=2, tREFI=100, tRFC=4, tFAW=None, tCCD=1, tRRD=None, tRC=5, tRAS=3, tZQCS=None)
    cs = ControllerSettings(cmd_buffer_depth=2, with_auto_precharge=ap, with_refresh=False, bank_byte_alignment=bank_byte_alignment)

    class Core(Module):
        def __init__(self):
            self.submodules.controller = LiteDRAMController(phy, geom, tim, 100e6, cs)
            self.submodules.crossbar = LiteDRAMCrossbar(self.controller.interface)
            self.port = self.crossbar.get_port()
    core = Core()
    port = core.port; phases = core.controller.dfi.phases
    keep = []
    for ph in phases: keep += [ph.cs_n, ph.ras_n, ph.cas_n, ph.we_n, ph.bank, ph.address]
    c = fhdl.compile_sim(core, observe=[port.cmd.ready, port.rdata.valid], keep=keep)
    fhdl.selfcheck(c, 40, seed)
    ii, oi = c.ii, c.oi
    g = [tuple(c.getter(getattr(ph, n)) for n in ("cs_n", "ras_n", "cas_n", "we_n", "bank", "address")) for ph in phases]
    aw = port.address_width
    dw = port.data_width
    rank_bits = int(math.log2(nranks)); bank_bits = bankbits + rank_bits
    # ---- independent reference mapping
    cshift = colbits - align
    if bank_byte_alignment:
        cshift = max(cshift, int(math.log2(bank_byte_alignment // (dw // 8))))
    def ref(a):
        bk = (a >> cshift) & ((1 << bank_bits) - 1)
        rca = (a & ((1 << cshift) - 1)) | ((a >> (cshift + bank_bits)) << cshift)
        col = (rca & ((1 << (colbits - align)) - 1)) << align
        row = rca >> (colbits - align)
        return (bk >> bankbits, bk & ((1 << bankbits) - 1), row, col)
    # ---- address sets
    if not structured:
        addrs = list(range(1 << aw))
    else:
        rows = {0, (1 << rowbits) - 1} | {1 << i for i in range(rowbits)} | {((1 << rowbits) - 1) ^ (1 << i) for i in range(rowbits)}
        lowbits = aw - rowbits
        if cshift + bank_bits <= lowbits or True:
            pass
        addrs = set()
        # all low (column x bank) values with the structured rows; rows sit in the top bits only when bank bits are below them
        allrow_mask = None
        for r in rows:
            for low in range(1 << min(lowbits, 12)):
                addrs.add(compose(low, r, cshift, bank_bits, colbits - align, rowbits))
        for r in range(1 << min(rowbits, 12)):
            for low in (0, (1 << lowbits) - 1, 0x155 & ((1 << lowbits) - 1)):
                addrs.add(compose(low, r, cshift, bank_bits, colbits - align, rowbits))
        addrs = sorted(x for x in addrs if x < (1 << aw))
    order2 = sorted(addrs, key=lambda x: bitrev(x, aw))
    # ---- run
    S = c.reset_state
    base = list(c.base_inputs)
    if port.rdata.ready in ii: base[ii[port.rdata.ready]] = 1
    i_valid, i_addr, i_we = ii[port.cmd.valid], ii[port.cmd.addr], ii[port.cmd.we]
    o_ready, o_rvalid = oi[port.cmd.ready], oi[port.rdata.valid]
    nb = nranks * (1 << bankbits)
    rows_open = [None] * nb
    csmask = (1 << nranks) - 1
    observed = {}; viols = []; evals = 0; cycles = 0; samples = []
    trace_inputs = []

    def dfi_scan(S, cur):
        for ph in range(nphases):
            cs_n, ras, cas, we, bank, adr = (f(S) for f in g[ph])
            if cs_n == csmask or (ras and cas and we): continue
            sel = [r for r in range(nranks) if not (cs_n >> r) & 1]
            if not ras and cas and we:
                b = sel[0] * (1 << bankbits) + bank; rows_open[b] = adr
            elif not ras and cas and not we:
                for r in sel:
                    for x in (range(1 << bankbits) if (adr >> 10) & 1 and has_a10 else [bank]): rows_open[r * (1 << bankbits) + x] = None
            elif ras and not cas and we:
                b = sel[0] * (1 << bankbits) + bank
                col = (adr & 0x3ff) | ((adr >> 11) << 10)
                a10 = (adr >> 10) & 1
                cur.append((sel[0], bank, rows_open[b], col, a10, len(sel)))
                if a10 and has_a10: rows_open[b] = None

    capped = None
    for pass_no, order in enumerate((addrs, order2)):
        for a in order:
            if time_limit and (evals & 255) == 0 and _t.time() - t0 > time_limit:
                capped = "wall clock %ds after %d of %d evaluations" % (time_limit, evals, 2 * len(addrs)); break
            # issue the read, hold until accepted, then wait for the data
            cur = []; accepted = False; done = False
            for _ in range(200):
                I = list(base)
                if not accepted:
                    I[i_valid] = 1; I[i_addr] = a; I[i_we] = 0
                I = tuple(I)
                S2, O = c.cycle(S, I)
                if len(trace_inputs) < 300: trace_inputs.append(I)
                dfi_scan(S, cur)
                cycles += 1
                if not accepted and O[o_ready]: accepted = True
                if O[o_rvalid]: done = True
                S = S2
                if done: break
            evals += 1
            if not done:
                viols.append(("map.read_never_completes", "address %#x: no read data within 200 cycles" % a, dict(kind="hang"))); break
            if len(cur) != 1:
                viols.append(("map.read_command_count", "address %#x produced %d READ commands" % (a, len(cur)), dict(kind="count"))); break
            rank, bank, row, col, a10, nsel = cur[0]
            want = ref(a)
            if len(samples) < 3: samples.append(dict(address=a, observed=dict(rank=rank, bank=bank, row=row, col=col, a10=a10), reference=want))
            if nsel != 1: viols.append(("map.rank_select", "address %#x selects %d ranks" % (a, nsel), dict(kind="rank"))); break
            if row is None: viols.append(("map.read_without_activate", "address %#x read with no ACTIVATE seen for the bank" % a, dict(kind="act"))); break
            if (rank, bank, row, col) != want:
                viols.append(("map.mismatch", "address %#x reached rank %d bank %d row %#x col %#x, reference rank %d bank %d row %#x col %#x" % ((a, rank, bank, row, col) + want), dict(kind="mapping"))); break
            if a10 and not ap:
                viols.append(("map.a10_used", "address %#x: READ with A10 set although auto-precharge is off" % a, dict(kind="a10"))); break
            if col >= (1 << colbits) or row >= (1 << rowbits):
                viols.append(("map.out_of_device", "address %#x reached row %#x col %#x outside the geometry" % (a, row, col), dict(kind="range"))); break
            prev = observed.get(a)
            if prev is not None and prev != (rank, bank, row, col):
                viols.append(("map.unstable", "address %#x mapped differently in the second pass" % a, dict(kind="unstable"))); break
            observed[a] = (rank, bank, row, col)
        if viols or capped: break
    if not viols:
        inv = {}
        for a, loc in observed.items():
            if loc in inv:
                viols.append(("map.not_injective", "addresses %#x and %#x reach the same burst %s" % (inv[loc], a, loc), dict(kind="injective"))); break
            inv[loc] = a
        if not viols and not structured and not capped and len(inv) != nranks * (1 << bankbits) * (1 << rowbits) * (1 << (colbits - align)):
            viols.append(("map.not_onto", "%d distinct bursts reached, device has %d" % (len(inv), nranks * (1 << bankbits) * (1 << rowbits) * (1 << (colbits - align))), dict(kind="onto")))
        if not viols and not structured and not bank_byte_alignment and not capped:
            # consecutive addresses walk columns, then banks (rank above bank), then rows
            for a in range(min(len(addrs) - 1, 1 << 14)):
                r0, b0, w0, c0 = observed[a]; r1, b1, w1, c1 = observed[a + 1]
                k0 = ((w0 * nranks + r0) * (1 << bankbits) + b0) * (1 << colbits) + c0
                k1 = ((w1 * nranks + r1) * (1 << bankbits) + b1) * (1 << colbits) + c1
                if k1 <= k0 or (c1 - c0 != (1 << align) and c1 != 0):
                    viols.append(("map.order", "addresses %#x -> %#x do not walk column, then bank, then row: %s -> %s" % (a, a + 1, observed[a], observed[a + 1]), dict(kind="order"))); break
    # conformance of the compiled step on the first cycles of this very run
    drv = fhdl.SimDriver(c); S = c.reset_state
    for I in trace_inputs:
        S2, O = c.cycle(S, I); Os = drv.cycle(I)
        if tuple(Os) != tuple(O) or drv.state() != S2: raise fhdl.EngineError("conformance mismatch in C06 run")
        S = S2
    out = dict(config=name, evaluations=evals, distinct_nontrivial=len(observed), states=0, transitions=cycles, complete=not capped, capped=capped, samples=samples, violations=[], known_hits={}, known_entries={},
               conformance_traces=1, conformance_cycles=len(trace_inputs), wall_s=round(_t.time() - t0, 2), address_width=aw, addresses=len(addrs), structured=structured)
    for rule, msg, det in viols[:1]:
        case = dict(memtype=memtype, nphases=nphases, bankbits=bankbits, rowbits=rowbits, colbits=colbits, nranks=nranks, bank_byte_alignment=bank_byte_alignment, ap=ap, structured=structured, databits=databits)
        e = runner.known_filter(PROP, name, rule, det)
        if e is not None:
            out["known_hits"][e["id"]] = 1; out["known_entries"][e["id"]] = e["title"]
        else:
            out["violations"].append(runner.enum_violation(PROP, name, "checks.c06", case, rule, msg, **det))
    return out


def compose(low, row, cshift, bank_bits, colw, rowbits):
    """address from (low = column|bank bits as they appear below the row when bank bits sit at cshift == colw; general case: interleave)"""
    # low holds colw column bits then bank bits; build rca = col | row << colw, then insert the bank bits at cshift
    col = low & ((1 << colw) - 1); bk = low >> colw
    rca = col | (row << colw)
    return (rca & ((1 << cshift) - 1)) | (bk << cshift) | ((rca >> cshift) << (cshift + bank_bits))


def replay_case(case):
    r = geometry_job(name="replay", **case)
    return [(v["rule"], v["msg"]) for v in r["violations"]]


def configs(tier):
    cs = []
    def add(**kw):
        n = "%s-x%d-b%d-r%d-c%d-rk%d%s%s%s" % (kw.get("memtype", "SDR"), kw.get("nphases", 1), kw.get("bankbits", 1), kw.get("rowbits", 2), kw.get("colbits", 8), kw.get("nranks", 1),
                                             "-bba%d" % kw["bank_byte_alignment"] if kw.get("bank_byte_alignment") else "", "-ap" if kw.get("ap") else "", "-struct" if kw.get("structured") else "")
        cs.append((n, kw))
    # complete enumerations (small row space)
    add(memtype="SDR", nphases=1, bankbits=1, rowbits=2, colbits=8)
    add(memtype="SDR", nphases=1, bankbits=2, rowbits=3, colbits=9)
    add(memtype="SDR", nphases=2, bankbits=2, rowbits=2, colbits=8)
    add(memtype="DDR2", nphases=2, bankbits=3, rowbits=2, colbits=10)
    add(memtype="DDR3", nphases=4, bankbits=3, rowbits=2, colbits=10)
    # more than 10 column bits: the column skips A10, so the DFI bus needs colbits+1 address bits - real parts have rowbits > colbits;
    # a 2-bit row space would truncate the bus (harness artefact, DESIGN 3.6), hence real-size rows and the structured set
    add(memtype="DDR3", nphases=4, bankbits=2, rowbits=13, colbits=11, structured=True)
    add(memtype="DDR3", nphases=4, bankbits=2, rowbits=13, colbits=12, ap=True, structured=True)
    add(memtype="DDR3", nphases=4, bankbits=2, rowbits=2, colbits=10, nranks=2)
    add(memtype="SDR", nphases=1, bankbits=1, rowbits=3, colbits=8, bank_byte_alignment=1 << 9)
    add(memtype="DDR3", nphases=4, bankbits=2, rowbits=3, colbits=10, bank_byte_alignment=1 << 12, databits=8)
    add(memtype="LPDDR4", nphases=8, bankbits=3, rowbits=2, colbits=10)
    # structured sets on real-size row spaces with auto-precharge
    add(memtype="SDR", nphases=1, bankbits=2, rowbits=12, colbits=8, ap=True, structured=True)
    add(memtype="DDR3", nphases=4, bankbits=3, rowbits=14, colbits=10, ap=True, structured=True)
    if tier == "thorough":
        for bb in (1, 2, 3, 4):
            for cb_ in (8, 9, 10, 11, 12):
                for (mt, nph) in (("SDR", 1), ("DDR", 2), ("DDR3", 4), ("DDR4", 4)):
                    if cb_ >= 11:
                        add(memtype=mt, nphases=nph, bankbits=bb, rowbits=13, colbits=cb_, ap=True, structured=True)
                        continue
                    if cb_ - int(math.log2(nph if mt == "SDR" else {"DDR": 4, "DDR3": 8, "DDR4": 8}[mt])) + bb + 3 > 12: continue      # complete enumeration of at most 2^12 port addresses per configuration (the 2^13 ones took hours)
                    add(memtype=mt, nphases=nph, bankbits=bb, rowbits=3, colbits=cb_)
        for bba in (1 << 8, 1 << 10, 1 << 13):
            add(memtype="DDR3", nphases=4, bankbits=3, rowbits=3, colbits=10, bank_byte_alignment=bba)
        add(memtype="DDR3", nphases=4, bankbits=3, rowbits=2, colbits=10, nranks=2, ap=False)
        add(memtype="DDR4", nphases=4, bankbits=4, rowbits=13, colbits=10, ap=True, structured=True)
        add(memtype="DDR2", nphases=2, bankbits=3, rowbits=13, colbits=11, ap=True, structured=True, nranks=2)
    # de-duplicate
    seen = set(); out = []
    for n, kw in cs:
        if n in seen: continue
        seen.add(n); out.append((n, kw))
    return out


def run(tier, seed, only=None):
    t0 = time.time()
    jobs = []
    for name, kw in configs(tier):
        if only and only not in name: continue
        jobs.append((geometry_job, (), dict(name=name, seed=seed, time_limit=(None if tier == "quick" else 1200), **kw)))
    res = runner.run_jobs(jobs)
    return runner.finish(PROP, tier, seed, "exploration", res, t0, ASSUME, RULE, technique="exhaustive enumeration of port addresses through the elaborated crossbar+controller netlist against an independent bit-permutation reference")
