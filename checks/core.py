"""Whole-core harness (C01-C05): real crossbar + controller, native-port masters, independent DRAM/DFI reference.

The DRAM reference (legality, timing ages, data of one watched byte, refresh bookkeeping) is written from the DRAM
command protocol, not from litedram/phy/model.py (which is itself under test in C19).
"""
import itertools, math
from fractions import Fraction as F
from engine import fhdl
from engine.explore import Harness, Violation
from checks.corebuild import make_core

INIT = 3          # watched byte: initial contents (byte value 0x00)
OTHER = 2         # tag carried by writes that do not target the watched location

# event flags (liveness / coverage)
EV_VPEND = 1 << 0      # victim (port 0) command offered
EV_VACC = 1 << 1       # victim command accepted this cycle
EV_OUT0 = 1 << 2       # port 0 has an accepted command not yet served
EV_SRV0 = 1 << 3       # port 0 got wdata.ready / rdata.valid this cycle
EV_REFPEND = 1 << 4    # a refresh is owed (monitor) / requested
EV_REF = 1 << 5        # REF command seen on DFI this cycle
EV_ANYPEND = 1 << 6    # some port has a command offered or outstanding
EV_ANYPROG = 1 << 7    # some port progress (accept or service)
EV_OUT1 = 1 << 8
EV_SRV1 = 1 << 9
EV_P1PEND = 1 << 10
EV_P1ACC = 1 << 11


def lane_byte(lane, tag):
    if tag == INIT: return 0
    return ((((lane + 2) << 4) | tag) & 0xff) or 0x01


class CoreHarness(Harness):
    """cfg keys (all optional): see __init__ defaults."""

    def __init__(self, **cfg):
        d = dict(nphases=1, memtype="SDR", bankbits=1, nranks=1, rowbits=11, colbits=8, databits=16, nports=1,
                 depth=2, buffered=False, ap=True, refresh=True, postponing=1, timing=None, module=None,
                 read_time=4, write_time=4, cl=2, cwl=None, RL=2, WL=0, K=2, window=0,
                 watch=None, banks=(0, 1), rows=(0, 1), cols=(0,), wes=None, queue_check=True, timing_mon=False,
                 refresh_mon=False, drivers=None, tzqcs=None, zqcs_period=None, rdphase=None, wrphase=None,
                 req=None, settle=14, wr_only=False, zq_mon=False, rd_only=False, port_width=None, chunks=None, last_always=True, phase_signals=False)
        d.update(cfg); self.cfg = d
        for k, v in d.items(): setattr(self, k, v)
        nph = self.nphases
        if self.memtype == "SDR":
            cl_sys = cwl_sys = None
            rdphase = 0 if self.rdphase is None else self.rdphase; wrphase = 0 if self.wrphase is None else self.wrphase
        else:
            from litedram.common import get_sys_latency, get_sys_phase
            cwl = self.cwl if self.cwl is not None else self.cl
            cl_sys = get_sys_latency(nph, self.cl); cwl_sys = get_sys_latency(nph, cwl)
            rdphase = get_sys_phase(nph, cl_sys, self.cl) if self.rdphase is None else self.rdphase
            wrphase = get_sys_phase(nph, cwl_sys, cwl) if self.wrphase is None else self.wrphase
        self.rdphase_v, self.wrphase_v = rdphase, wrphase
        timing = dict(self.timing or {})
        if self.tzqcs is not None: timing["tZQCS"] = self.tzqcs
        self.clk_freq = 100e6
        if self.module is not None:
            timing = self._module_timing()
        zq = {}
        if self.zqcs_period is not None:
            zq = dict(clk_freq=float(self.zqcs_period), zqcs_freq=1.0)
        self.core = core = make_core(nphases=nph, memtype=self.memtype, bankbits=self.bankbits, rowbits=self.rowbits, colbits=self.colbits,
                                     databits=self.databits, nports=self.nports, cmd_buffer_depth=self.depth, buffered=self.buffered,
                                     auto_precharge=self.ap, postponing=self.postponing, timing=timing, read_time=self.read_time,
                                     write_time=self.write_time, cl=self.cl, cwl=self.cwl, rdphase=rdphase, wrphase=wrphase,
                                     read_latency=self.RL, write_latency=self.WL, nranks=self.nranks, with_refresh=self.refresh,
                                     port_kwargs=(dict(data_width=self.port_width) if self.port_width else None), phase_signals=self.phase_signals, **zq)
        self.T = core.timing
        self.trefi = self.T.tREFI
        ports = self.ports = core.ports
        phases = self.phases = core.dfi.phases
        self.dw = ports[0].data_width; self.nlanes = self.dw // 8
        self.dfi_dw = len(phases[0].wrdata)
        obs = []
        for p in ports: obs += [p.cmd.ready, p.wdata.ready, p.rdata.valid, p.rdata.data]
        for ph in phases: obs += [ph.wrdata, ph.wrdata_mask]
        keep = []
        for ph in phases: keep += [ph.cs_n, ph.ras_n, ph.cas_n, ph.we_n, ph.bank, ph.address, ph.rddata_en, ph.wrdata_en]
        timer = core.controller.refresher.timer
        self.timer_reg = self._find_timer(timer)
        if self.refresh: keep.append(self.timer_reg)
        self.arbiters = []
        if self.nports > 1:
            self.arbiters = core.crossbar.verif_arbiters
            if len(self.arbiters) != self.nranks * (1 << self.bankbits): self.arbiters = []     # another arbitration structure: starvation lassos are then reported without a named cause
            keep += [a.grant for a in self.arbiters]
        self.c = c = fhdl.compile_sim(core, observe=obs, keep=keep)
        ii, oi = c.ii, c.oi
        self.i_valid = [ii[p.cmd.valid] for p in ports]; self.i_we = [ii[p.cmd.we] for p in ports]; self.i_addr = [ii[p.cmd.addr] for p in ports]
        self.i_wvalid = [ii.get(p.wdata.valid) for p in ports]; self.i_wdata = [ii[p.wdata.data] for p in ports]; self.i_wwe = [ii[p.wdata.we] for p in ports]
        self.i_rready = [ii.get(p.rdata.ready) for p in ports]
        self.i_last = [ii.get(p.cmd.last) for p in ports]; self.i_flush = [ii.get(p.flush) for p in ports]
        self.i_rddata = [ii[ph.rddata] for ph in phases]
        self.i_rdvalid = [ii.get(ph.rddata_valid) for ph in phases]
        self.o_ready = [oi[p.cmd.ready] for p in ports]; self.o_wready = [oi[p.wdata.ready] for p in ports]
        self.o_rvalid = [oi[p.rdata.valid] for p in ports]; self.o_rdata = [oi[p.rdata.data] for p in ports]
        self.o_wrdata = [oi[ph.wrdata] for ph in phases]; self.o_wrmask = [oi[ph.wrdata_mask] for ph in phases]
        self.g_ph = [tuple(c.getter(getattr(ph, n)) for n in "cs_n ras_n cas_n we_n bank address rddata_en wrdata_en".split()) for ph in phases]
        self.g_timer = c.getter(self.timer_reg) if self.refresh else None
        self.base = list(c.base_inputs)
        for i in self.i_rready:
            if i is not None: self.base[i] = 1
        # geometry / alphabet
        from litedram.common import burst_lengths
        bl = nph if self.memtype == "SDR" else burst_lengths[self.memtype]
        self.align = int(math.log2(bl))
        self.nb = self.nranks * (1 << self.bankbits)
        self.bank_bits = int(math.log2(self.nb))
        self.cshift = self.colbits - self.align
        self.csmask = (1 << self.nranks) - 1
        self.locs = [(b, r, col) for b in self.banks for r in self.rows for col in self.cols]
        core_addrs = [self.addr_of(*l) for l in self.locs]
        core_dw = core.controller.interface.data_width
        self.core_lanes = core_dw // 8
        # user port narrower / wider than the controller (get_port(data_width=...)): the alphabet, the watched byte and the scoreboard live
        # at the port's width, the DRAM reference at the controller's width; the two are related by the byte-address view of C07
        if self.dw < core_dw:
            R = core_dw // self.dw
            chunks = tuple(self.chunks) if self.chunks is not None else tuple(sorted({0, R - 1}))
            self.addrs = [A * R + c for A in core_addrs for c in chunks]
            self.loc_of = {A * R + c: l for A, l in zip(core_addrs, self.locs) for c in range(R)}
            def to_port(A, dl): return A * R + dl // self.nlanes, dl % self.nlanes
        elif self.dw > core_dw:
            R = self.dw // core_dw
            self.addrs = list(dict.fromkeys(A // R for A in core_addrs))
            self.loc_of = {}
            for A, l in zip(core_addrs, self.locs): self.loc_of.setdefault(A // R, l)
            def to_port(A, dl): return A // R, (A % R) * self.core_lanes + dl
        else:
            self.addrs = core_addrs
            self.loc_of = dict(zip(self.addrs, self.locs))
            def to_port(A, dl): return A, dl
        if self.watch is not None:
            self.wloc = self.locs[self.watch[0]]; self.wlane = self.watch[1]             # DRAM side: (bank,row,col) and byte lane of the controller word
            self.waddr, self.wlane_port = to_port(core_addrs[self.watch[0]], self.wlane)     # port side
            if self.waddr not in self.addrs: self.addrs.append(self.waddr)
        else:
            self.waddr = None; self.wlane = 0; self.wloc = None; self.wlane_port = 0
        self.full_we = (1 << self.nlanes) - 1
        wes = self.wes if self.wes is not None else ([self.full_we, 1 << self.wlane_port, self.full_we & ~(1 << self.wlane_port)] if self.nlanes > 1 else [1])
        alpha = [None] + ([] if self.wr_only else [("R", ad) for ad in self.addrs])
        for ad in ([] if self.rd_only else self.addrs):
            if self.watch is not None and ad == self.waddr:
                alpha += [("W", ad, t, we) for t in (0, 1) for we in wes]
            else:
                alpha += [("W", ad, OTHER, self.full_we)]
        self.alpha = alpha
        self.word_cache = {}
        # drivers: per port None (budgeted master over full alphabet) or dict(kind="adv", cmds=[...], gap=g) / dict(kind="victim")
        self.drivers = [self._resolve_driver(d) for d in (self.drivers or [None] * self.nports)]
        self._setup_timing()
        self.cov = {}
        self.idle_choice = tuple([None] * self.nports)

    # ------------------------------------------------------------------ helpers
    def _resolve_driver(self, d):
        if d is None: return None
        d = dict(d)
        def cmd(x):
            if x is None: return None
            op, li = x[0], x[1]
            ad = self.addrs[li]
            return ("R", ad) if op == "R" else ("W", ad, OTHER, self.full_we)
        if d["kind"] == "adv":
            d["cmds"] = tuple(cmd(x) for x in d["cmds"]) + ((None,) if d.get("idle") else ())
        elif d["kind"] == "victim":
            d["cmds_with_idle"] = (None,) + (tuple(cmd(x) for x in d["cmds"]) if d.get("cmds") else tuple(self.alpha[1:]))
            d.setdefault("K", 1)
        return d

    def _find_timer(self, timer):
        # the refresh timer's count register: found structurally (names are unreliable on py3.12): the only sync target of the timer module
        from migen.fhdl.tools import list_targets
        f = timer._fragment          # own statements only; get_fragment() may be called once per module (by the simulator)
        regs = [s for s in list_targets(f.sync.get("sys", []))]
        assert len(regs) == 1, regs
        return regs[0]

    def addr_of(self, bank, row, col):
        return (col >> self.align) & ((1 << self.cshift) - 1) | (bank << self.cshift) | (row << (self.cshift + self.bank_bits)) | ((col >> self.align) >> self.cshift) << (self.cshift + self.bank_bits + self.rowbits)

    def wbyte(self, tag):
        """value of the watched byte for a tag (as the master writes it on its lane)"""
        return lane_byte(self.wlane_port, tag)

    def word(self, tag):
        w = self.word_cache.get(tag)
        if w is None:
            w = 0
            for l in range(self.nlanes): w |= lane_byte(l, tag) << (8 * l)
            self.word_cache[tag] = w
        return w

    def _module_timing(self):
        """TimingSettings through LiteDRAM's own SDRAMModule from a module description (synthetic numbers or a library class);
        the requirements the monitor enforces are computed separately, straight from the datasheet numbers (_setup_timing)."""
        import litedram.modules as lm
        m = self.module
        self.clk_freq = float(m["clk"])
        rate = "1:%d" % self.nphases
        if "lib" in m:
            cls = getattr(lm, m["lib"])
        else:
            tech = m["tech"]; sp = m["speed"]
            def tup(x): return tuple(x) if isinstance(x, list) else x
            cls = type("VerifSyntheticModule", (lm.SDRAMModule,), dict(
                memtype=self.memtype, nbanks=1 << self.bankbits, nrows=1 << self.rowbits, ncols=1 << self.colbits,
                technology_timings=lm._TechnologyTimings(**{k: tup(v) for k, v in tech.items()}),
                speedgrade_timings={"default": lm._SpeedgradeTimings(**{k: tup(v) for k, v in sp.items()})}))
        self.mod = mod = cls(self.clk_freq, rate, speedgrade=m.get("speedgrade"))
        assert mod.memtype == self.memtype
        ts = mod.timing_settings
        if m.get("trefi_override") is not None:
            ts.tREFI = m["trefi_override"]       # C03 does not judge the refresh interval (C04/C16 do); keeps the timer near its minimum
        if m.get("no_zqcs", True):
            ts.tZQCS = None
        return ts

    def _setup_timing(self):
        """Requirements in DRAM clocks for the timing monitor (C03).  Either explicit `req` (already in DRAM clocks), or derived
        from the TimingSettings given in controller cycles (synthetic configs: requirement = cycles*nphases is NOT used; see checks/c03)."""
        self.REQ = self.req
        if self.module is not None and self.timing_mon:
            from litedram.common import burst_lengths
            mod = self.mod
            tck = F(10 ** 9) / F(int(self.clk_freq) * self.nphases)          # DRAM clock period in ns
            def need(name, key=None):
                t = mod.get(name, key) if key else mod.get(name)
                if t is None: return None
                v = max(t.ck, math.ceil(F(repr(float(t.ns))) / tck))
                return v or None
            frm = getattr(mod.timing_settings, "fine_refresh_mode", None)
            R = dict(tRCD=need("tRCD"), tRP=need("tRP"), tRAS=need("tRAS"), tRRD=need("tRRD"), tFAW=need("tFAW"), tCCD=need("tCCD"),
                     tRFC=need("tRFC", frm), tZQCS=need("tZQCS") if self.T.tZQCS is not None else None)
            tras, trp = mod.get("tRAS"), mod.get("tRP")
            R["tRC"] = None if tras is None else max(tras.ck + trp.ck, math.ceil((F(repr(float(tras.ns))) + F(repr(float(trp.ns)))) / tck))
            if self.memtype == "SDR":
                burst_tail = 0                      # BL=1: data is sampled with the command; recovery counts from that clock
            else:
                cwl = self.cwl if self.cwl is not None else self.cl
                burst_tail = cwl + burst_lengths[self.memtype] // 2
            twr, twtr = need("tWR"), need("tWTR")
            R["tWR"] = None if twr is None else burst_tail + twr
            R["tWTR"] = None if twtr is None else burst_tail + twtr
            self.REQ = {k: v for k, v in R.items() if v}
        if self.REQ:
            self.SAT = max(v for v in self.REQ.values() if v) + 1

    def env0(self):
        ports = tuple((None, (self.K if dr is None else dr.get("K", 1)), (), (), 0) for dr in self.drivers)
        rows = tuple([-1] * self.nb)
        dram = (rows, (), (), INIT, 0)
        reqq = tuple(() for _ in range(self.nb)) if self.queue_check else None
        ages = () if self.timing_mon else None
        refm = (0, 0, 0, 99, 0) if self.refresh_mon else None       # (period_cnt, owed, refs_in_group, prea_age, zq_cnt)
        return (ports, dram, INIT, reqq, ages, refm)

    def initial(self):
        return [(self.c.reset_state, self.env0())]

    def in_window(self, S):
        if not self.window or not self.refresh: return True
        cnt = self.g_timer(S)
        return cnt <= self.window or cnt >= self.trefi - 1 - self.settle

    def menu(self, S, E):
        ports = E[0]
        win = self.in_window(S)
        opts = []
        for k, (pend, bud, wq, rq, cool) in enumerate(ports):
            dr = self.drivers[k]
            if pend is not None: opts.append((None,))
            elif dr is None:
                opts.append(self.alpha if (bud > 0 and win) else (None,))
            elif dr["kind"] == "victim":
                opts.append(dr["cmds_with_idle"] if bud > 0 else (None,))
            else:   # adversary: unbounded, own tiny alphabet, forced gap after each acceptance
                opts.append(dr["cmds"] if cool == 0 else (None,))
        if len(opts) == 1: return [(x,) for x in opts[0]]
        return list(itertools.product(*opts))

    def describe(self, ch):
        out = []
        for x in ch:
            if x is None: out.append("-")
            elif x[0] == "R": out.append("R b%d r%d c%d" % self.loc_of[x[1]])
            else: out.append("W b%d r%d c%d tag%d we=%x" % (self.loc_of[x[1]] + (x[2], x[3])))
        return out if any(o != "-" for o in out) else "idle"

    # ------------------------------------------------------------------ drive
    def drive(self, S, E, ch):
        ports, dram = E[0], E[1]
        I = list(self.base)
        for k, (pend, bud, wq, rq, cool) in enumerate(ports):
            cmd = pend if pend is not None else ch[k]
            if cmd is not None:
                I[self.i_valid[k]] = 1; I[self.i_addr[k]] = cmd[1]
                if cmd[0] == "W": I[self.i_we[k]] = 1
                if self.i_last[k] is not None and self.last_always: I[self.i_last[k]] = 1
            elif self.i_flush[k] is not None: I[self.i_flush[k]] = 1
            if pend is None and ch[k] is not None and ch[k][0] == "W":
                wq = wq + ((ch[k][2], ch[k][3]),)       # data offered together with the command
            if wq:
                if self.i_wvalid[k] is not None: I[self.i_wvalid[k]] = 1
                I[self.i_wdata[k]] = self.word(wq[0][0]); I[self.i_wwe[k]] = wq[0][1]
        rpipe = dram[2]
        if rpipe and rpipe[0][0] == 0:
            d = rpipe[0][1]
            w = self.dfi_dw; m = (1 << w) - 1
            for p, i in enumerate(self.i_rddata):
                I[i] = (d >> (w * p)) & m
                if self.i_rdvalid[p] is not None: I[self.i_rdvalid[p]] = 1
        return tuple(I)

    # ------------------------------------------------------------------ observe
    def observe(self, S, E, ch, I, O, S2):
        ports, dram, refv, reqq, ages, refm = E
        rows, wpend, rpipe, dval, wfl = dram
        ev = 0
        cov = self.cov
        nph = self.nphases
        # ---- DFI commands visible this cycle (registered outputs held in S)
        rows = list(rows)
        newage = None
        if ages is not None:
            agesd = dict(ages); newage = {}
        saw_ref = saw_prea = saw_zq = saw_act = False
        ncmd_cycle = 0
        if reqq is not None: reqq = list(reqq)
        for ph in range(nph):
            g = self.g_ph[ph]
            cs_n = g[0](S); ras_n = g[1](S); cas_n = g[2](S); we_n = g[3](S)
            rden = g[6](S); wren = g[7](S)
            iscmd = cs_n != self.csmask and not (ras_n and cas_n and we_n)
            if not iscmd:
                if rden or wren: raise Violation("dfi.enable_without_command", "rddata_en/wrdata_en without a command on phase %d" % ph, phase=ph)
                continue
            ncmd_cycle += 1
            bank = g[4](S); adr = g[5](S)
            sel = [r for r in range(self.nranks) if not (cs_n >> r) & 1]
            a10 = (adr >> 10) & 1
            if not ras_n and cas_n and we_n:                                  # ACT
                saw_act = True
                if len(sel) != 1: raise Violation("dfi.rank_select", "ACT with chip-selects %s" % bin(cs_n), cmd="ACT")
                b = sel[0] * (1 << self.bankbits) + bank
                if rows[b] != -1: raise Violation("dram.act_open_bank", "ACT to bank %d which has row %d open" % (b, rows[b]), cmd="ACT", bank=b)
                if reqq is not None:
                    # an activate that no request asked for (or of another row) is wasteful but legal: the statement judges the RD/WR that follows
                    if not reqq[b] or reqq[b][0][1] != adr: cov["ACT_not_for_oldest_request"] = cov.get("ACT_not_for_oldest_request", 0) + 1
                if newage is not None: self._t_act(agesd, newage, b, ph)
                rows[b] = adr; cov["ACT"] = cov.get("ACT", 0) + 1
            elif not ras_n and cas_n and not we_n:                            # PRE / PREA
                if a10:
                    saw_prea = True
                    bl = [r * (1 << self.bankbits) + x for r in sel for x in range(1 << self.bankbits)]
                    cov["PREA"] = cov.get("PREA", 0) + 1
                else:
                    if len(sel) != 1: raise Violation("dfi.rank_select", "PRE with chip-selects %s" % bin(cs_n), cmd="PRE")
                    bl = [sel[0] * (1 << self.bankbits) + bank]
                    cov["PRE"] = cov.get("PRE", 0) + 1
                for b in bl:
                    if newage is not None: self._t_pre(agesd, newage, b, ph, rows[b] != -1, a10)
                    rows[b] = -1
            elif ras_n and not cas_n:                                          # RD / WR
                if len(sel) != 1: raise Violation("dfi.rank_select", "RD/WR with chip-selects %s" % bin(cs_n), cmd="RDWR")
                b = sel[0] * (1 << self.bankbits) + bank
                iswr = not we_n
                if rows[b] == -1: raise Violation("dram.rdwr_closed_bank", "%s to bank %d with no open row" % ("WR" if iswr else "RD", b), cmd="RDWR", bank=b)
                col = adr & 0x3ff | ((adr >> 11) << 10)
                if iswr:
                    if ph != self.wrphase_v: raise Violation("dfi.wr_phase", "WR on phase %d, PHY write phase is %d" % (ph, self.wrphase_v))
                    if not wren or rden: raise Violation("dfi.wr_enable", "WR with wrdata_en=%d rddata_en=%d" % (wren, rden))
                else:
                    if ph != self.rdphase_v: raise Violation("dfi.rd_phase", "RD on phase %d, PHY read phase is %d" % (ph, self.rdphase_v))
                    if not rden or wren: raise Violation("dfi.rd_enable", "RD with rddata_en=%d wrdata_en=%d" % (rden, wren))
                if reqq is not None:
                    if not reqq[b]: raise Violation("dram.rdwr_without_request", "RD/WR bank %d with no outstanding request" % b, bank=b)
                    hw, hrow, hcol = reqq[b][0]
                    if hw != iswr or hrow != rows[b] or hcol != col:
                        raise Violation("dram.rdwr_mismatch", "%s bank %d row %d col %d but oldest request is %s row %d col %d" % ("WR" if iswr else "RD", b, rows[b], col, "WR" if hw else "RD", hrow, hcol), bank=b)
                    reqq[b] = reqq[b][1:]
                if a10 and not self.ap: raise Violation("dram.unexpected_autoprecharge", "A10 set on RD/WR with auto-precharge disabled")
                loc = (b, rows[b], col)
                if newage is not None: self._t_col(agesd, newage, b, ph, iswr, a10)
                if iswr:
                    wpend = wpend + ((self.WL, loc == self.wloc),)
                    cov["WR"] = cov.get("WR", 0) + 1
                else:
                    watched = loc == self.wloc
                    if watched and any(w for _, w in wpend):
                        raise Violation("dram.read_overtakes_write_data", "RD issued to the watched location while its write data has not reached the DRAM yet")
                    d = (self.wbyte(dval) << (8 * self.wlane)) if watched else 0
                    rpipe = rpipe + ((self.RL, d),)
                    cov["RD"] = cov.get("RD", 0) + 1
                if a10:
                    rows[b] = -1; cov["AP"] = cov.get("AP", 0) + 1
            elif not ras_n and not cas_n and we_n:                            # REF
                saw_ref = True
                if len(sel) != self.nranks: raise Violation("dfi.rank_select", "REF does not select all ranks (cs_n=%s)" % bin(cs_n), cmd="REF")
                if any(r != -1 for r in rows): raise Violation("dram.ref_open_bank", "REF with open bank(s) %s" % [i for i, r in enumerate(rows) if r != -1], cmd="REF")
                if self.memtype in ("LPDDR4", "LPDDR5") and not (adr >> 10) & 1:
                    # the LPDDR4/LPDDR5 PHYs translate DFI REF with A10 low into a PER-BANK refresh of the bank on the bank lines: the other banks
                    # are then never refreshed (for the other memory types A10 is a don't-care on REF and is not judged)
                    self.report("refresh.per_bank_only", "REF with A10 low on %s: the PHY emits a per-bank refresh, the all-bank refresh rate is zero" % self.memtype, cmd="REF")
                if newage is not None: self._t_ref(agesd, newage, ph)
                cov["REF"] = cov.get("REF", 0) + 1
            elif ras_n and cas_n and not we_n:                                 # ZQCS (ras=1 cas=1 we=0)
                saw_zq = True
                if any(r != -1 for r in rows): raise Violation("dram.zq_open_bank", "ZQCS with open bank(s)", cmd="ZQCS")
                if newage is not None: self._t_zq(agesd, newage, ph)
                cov["ZQCS"] = cov.get("ZQCS", 0) + 1
            else:
                raise Violation("dfi.unknown_command", "unexpected command encoding ras_n=%d cas_n=%d we_n=%d on phase %d" % (ras_n, cas_n, we_n, ph))
        # ---- write data landing
        if wpend:
            nw = []
            for due, watched in wpend:
                if due == 0:
                    if watched:
                        data = 0; mask = 0
                        for p in range(nph):
                            data |= O[self.o_wrdata[p]] << (self.dfi_dw * p); mask |= O[self.o_wrmask[p]] << ((self.dfi_dw // 8) * p)
                        if not (mask >> self.wlane) & 1:
                            bt = (data >> (8 * self.wlane)) & 0xff
                            v = [x for x in (0, 1, OTHER) if self.wbyte(x) == bt]
                            if not v: raise Violation("data.garbage_to_dram", "DRAM received byte %02x for the watched lane (no master offered it there)" % bt)
                            dval = v[0]
                            if wfl > 0: wfl -= 1
                else:
                    nw.append((due - 1, watched))
            wpend = tuple(nw)
        if rpipe:
            if rpipe[0][0] == 0: rpipe = rpipe[1:]
            rpipe = tuple((d - 1, x) for d, x in rpipe)
        # ---- ages
        if ages is not None:
            SAT = self.SAT
            a2 = {}
            for k, v in agesd.items():
                if v + nph < SAT: a2[k] = v + nph
            for k, v in newage.items():
                if v + nph < SAT: a2[k] = v + nph
            ages = tuple(sorted(a2.items()))
        # ---- refresh monitor
        if refm is not None:
            refm = self._refresh_mon(refm, saw_ref, saw_prea, saw_zq, saw_act)
            if refm[1] > 0: ev |= EV_REFPEND
        if saw_ref: ev |= EV_REF
        # ---- ports
        new_ports = []
        anypend = anyprog = False
        for k, (pend, bud, wq, rq, cool) in enumerate(ports):
            cmd = pend if pend is not None else ch[k]
            if pend is None and ch[k] is not None:
                if self.drivers[k] is None or self.drivers[k]["kind"] == "victim": bud -= 1
                if ch[k][0] == "W": wq = wq + ((ch[k][2], ch[k][3]),)
            acc = False
            if cmd is not None:
                if O[self.o_ready[k]]:
                    acc = True
                    ad = cmd[1]
                    if cmd[0] == "W":
                        if ad == self.waddr and (cmd[3] >> self.wlane_port) & 1:
                            refv = cmd[2]; wfl += 1          # one enabled write to the watched byte is now in flight
                    else:
                        rq = rq + ((refv if ad == self.waddr else -1),)
                    if reqq is not None:
                        b, row, col = self.loc_of[ad]
                        reqq[b] = reqq[b] + ((cmd[0] == "W", row, col),)
                        if len(reqq[b]) > self.depth + 3: raise Violation("core.too_many_accepted", "bank %d accepted more requests than it can buffer" % b)
                    cmd = None
                    dr = self.drivers[k]
                    cool = dr.get("gap", 0) if dr else 0
            elif cool: cool -= 1
            srv = False
            if O[self.o_wready[k]]:
                if wq:
                    wq = wq[1:]; srv = True
                elif not self.port_width:
                    # a native crossbar port strobes wdata.ready exactly once per accepted write; a width-converted port is an ordinary
                    # stream (ready may be high while nothing is offered)
                    raise Violation("port.wdata_ready_without_data", "wdata.ready on port %d with no write data outstanding" % k, port=k)
            if O[self.o_rvalid[k]]:
                if not rq: raise Violation("port.rdata_without_read", "rdata.valid on port %d without an outstanding read" % k, port=k)
                exp = rq[0]; rq = rq[1:]; srv = True
                if exp != -1:
                    got = (O[self.o_rdata[k]] >> (8 * self.wlane_port)) & 0xff
                    if got != self.wbyte(exp):
                        self.report("data.read_mismatch", "port %d read byte %02x, expected %02x (last write accepted before this read)" % (k, got, self.wbyte(exp)), port=k)
                    cov["rd_compared"] = cov.get("rd_compared", 0) + 1
            if not self.port_width and len(rq) + len(wq) > self.depth + (1 if self.buffered else 0) + self.RL + self.WL + 12:
                # the crossbar confines a port to one bank at a time (lock); a bank machine stores depth (+1 buffered) + 1 commands, reads stay
                # outstanding for the read latency of PHY and crossbar, writes for the write latency; 10 more for register stages a maintainer
                # may add anywhere on the way.  Beyond that a command was accepted without being stored anywhere (the count grows without bound)
                raise Violation("port.accepted_exceeds_storage", "port %d has %d reads and %d writes accepted and not served: more than one bank machine can hold (command buffer depth %d): a command was accepted by the crossbar without entering a bank machine" % (k, len(rq), len(wq), self.depth), port=k)
            offered = pend is not None or ch[k] is not None
            # accepted commands not yet served at the start of this cycle
            pre_r = len(ports[k][3]); pre_w = len(ports[k][2]) - (1 if (pend is not None and pend[0] == "W") else 0)
            if k < 2:
                sh = 8 * k if k else 0
                if k == 0:
                    if offered: ev |= EV_VPEND
                    if acc: ev |= EV_VACC
                    if pre_r or pre_w: ev |= EV_OUT0
                    if srv: ev |= EV_SRV0
                else:
                    if offered: ev |= EV_P1PEND
                    if acc: ev |= EV_P1ACC
                    if pre_r or pre_w: ev |= EV_OUT1
                    if srv: ev |= EV_SRV1
            if offered or pre_r or pre_w: anypend = True
            if acc or srv: anyprog = True
            new_ports.append((cmd, bud, wq, rq, cool))
        if anypend: ev |= EV_ANYPEND
        if anyprog: ev |= EV_ANYPROG
        # ---- memory consistency at every instant where no write to the watched location is in flight
        if self.watch is not None and wfl == 0 and dval != refv:
            self.report("data.memory_mismatch", "DRAM holds %s at the watched byte, last accepted enabled write was %s" % (dval, refv))
        if reqq is not None: reqq = tuple(reqq)
        E2 = (tuple(new_ports), (tuple(rows), wpend, rpipe, dval, wfl), refv, reqq, ages, refm)
        return E2, ev

    # ------------------------------------------------------------------ timing monitor (C03): ages in DRAM clocks at phase 0 of the current cycle
    def _age(self, agesd, newage, k, ph):
        v = newage.get(k)
        if v is not None: return v + ph
        v = agesd.get(k)
        return self.SAT if v is None else min(self.SAT, v + ph)

    def _need(self, agesd, newage, k, ph, rule, what, **detail):
        req = self.REQ.get(rule)
        if req is None: return
        v = self._age(agesd, newage, k, ph)
        key = "tight:" + rule
        if v == req: self.cov[key] = self.cov.get(key, 0) + 1
        self.cov["armed:" + rule] = self.cov.get("armed:" + rule, 0) + 1
        if v < self.SAT:
            sk = "minslack:" + rule
            if v - req < self.cov.get(sk, 1 << 30): self.cov[sk] = v - req
        if v < req:
            self.report("timing." + rule, "%s: %d DRAM clocks, %d required" % (what, v, req), timing=rule, second=detail.get("second"), got=v, need=req)

    def _t_act(self, A, N, b, ph):
        self._need(A, N, ("pre", b), ph, "tRP", "PRE->ACT bank %d" % b, second="ACT")
        self._need(A, N, ("act", b), ph, "tRC", "ACT->ACT bank %d" % b, second="ACT")
        self._need(A, N, ("ref", -1), ph, "tRFC", "REF->ACT", second="ACT")
        self._need(A, N, ("zq", -1), ph, "tZQCS", "ZQCS->ACT", second="ACT")
        self._need(A, N, ("actany", -1), ph, "tRRD", "ACT->ACT (other bank)", second="ACT")
        if self.REQ.get("tFAW"):
            v = self._age(A, N, ("act4", -1), ph)
            self.cov["armed:tFAW"] = self.cov.get("armed:tFAW", 0) + 1
            if v == self.REQ["tFAW"]: self.cov["tight:tFAW"] = self.cov.get("tight:tFAW", 0) + 1
            if v < self.REQ["tFAW"]: self.report("timing.tFAW", "5th ACT %d DRAM clocks after the 1st, %d required" % (v, self.REQ["tFAW"]), timing="tFAW", second="ACT", got=v, need=self.REQ["tFAW"])
            # shift ACT history: act4 <- act3 <- act2 <- act1 <- now
            for a, bname in ((("act4", -1), ("act3", -1)), (("act3", -1), ("act2", -1)), (("act2", -1), ("act1", -1))):
                v = N.get(bname, A.get(bname))
                if v is None:
                    A.pop(a, None); N.pop(a, None)
                else:
                    N[a] = v
            N[("act1", -1)] = -ph
        N[("act", b)] = -ph; N[("actany", -1)] = -ph

    def _t_pre(self, A, N, b, ph, was_open, prea):
        sec = "PREA" if prea else "PRE"
        if was_open:
            self._need(A, N, ("act", b), ph, "tRAS", "ACT->%s bank %d" % (sec, b), second=sec)
            self._need(A, N, ("wr", b), ph, "tWR", "WR->%s bank %d (CWL+BL/2+tWR)" % (sec, b), second=sec)
        self._need(A, N, ("ref", -1), ph, "tRFC", "REF->%s" % sec, second=sec)
        self._need(A, N, ("zq", -1), ph, "tZQCS", "ZQCS->%s" % sec, second=sec)
        # a precharge of an already-precharged bank (PREA by the refresher) does not restart tRP for that bank if it is older
        if was_open or self._age(A, N, ("pre", b), ph) >= self.SAT:
            N[("pre", b)] = -ph
        if prea: N[("prea", -1)] = -ph

    def _t_col(self, A, N, b, ph, iswr, ap):
        sec = "WR" if iswr else "RD"
        self._need(A, N, ("act", b), ph, "tRCD", "ACT->%s bank %d" % (sec, b), second=sec)
        self._need(A, N, ("col", -1), ph, "tCCD", "column->column", second=sec)
        self._need(A, N, ("ref", -1), ph, "tRFC", "REF->%s" % sec, second=sec)
        self._need(A, N, ("zq", -1), ph, "tZQCS", "ZQCS->%s" % sec, second=sec)
        if not iswr:
            self._need(A, N, ("wrany", -1), ph, "tWTR", "WR->RD (CWL+BL/2+tWTR)", second="RD")
        N[("col", -1)] = -ph
        if iswr:
            N[("wr", b)] = -ph; N[("wrany", -1)] = -ph
        if ap:
            # auto-precharge: the bank precharges itself no earlier than ACT+tRAS and (after a write) WR+CWL+BL/2+tWR; the
            # least demanding reading is used: the internal precharge happens at the earliest instant the datasheet allows.
            eff = 0
            ra = self.REQ.get("tRAS")
            if ra is not None: eff = max(eff, ra - self._age(A, N, ("act", b), ph))
            rw = self.REQ.get("tWR")
            if rw is not None:
                wv = self._age(A, N, ("wr", b), ph)
                if wv < self.SAT: eff = max(eff, rw - wv)
            N[("pre", b)] = -(ph + eff)

    def _t_ref(self, A, N, ph):
        for b in range(self.nb):
            self._need(A, N, ("pre", b), ph, "tRP", "PRE->REF bank %d" % b, second="REF")
        self._need(A, N, ("ref", -1), ph, "tRFC", "REF->REF", second="REF")
        self._need(A, N, ("zq", -1), ph, "tZQCS", "ZQCS->REF", second="REF")
        N[("ref", -1)] = -ph

    def _t_zq(self, A, N, ph):
        for b in range(self.nb):
            self._need(A, N, ("pre", b), ph, "tRP", "PRE->ZQCS bank %d" % b, second="ZQCS")
        self._need(A, N, ("ref", -1), ph, "tRFC", "REF->ZQCS", second="ZQCS")
        N[("zq", -1)] = -ph

    # ------------------------------------------------------------------ refresh monitor (C04)
    def _refresh_mon(self, refm, saw_ref, saw_prea, saw_zq, saw_act):
        period, owed, grp, prea_age, zqc = refm
        period += 1
        if period >= self.trefi:
            period = 0; owed += 1
        if saw_prea: prea_age = 0
        elif prea_age < 90: prea_age += 1
        if saw_act and prea_age < 90 and grp == 0:
            # ACT between the precharge-all and its refresh: handled by legality (REF with open bank); nothing to do
            pass
        if saw_ref:
            owed -= 1
            self.cov["ref_owed_max"] = max(self.cov.get("ref_owed_max", 0), owed + 1)
            if prea_age >= 90:
                self.report("refresh.no_precharge_all", "REF not preceded by a precharge-all")
        if self.zq_mon:
            bound = self.zqcs_period + (self.postponing + 1) * self.trefi + 60
            if saw_zq:
                self.cov["zq_interval_max"] = max(self.cov.get("zq_interval_max", 0), zqc); zqc = 0
            elif zqc <= bound:
                zqc += 1
                if zqc > bound:
                    self.report("refresh.zqcs_missing", "no ZQCS for %d cycles (period %d cycles, refresh interval %d, postponing %d)" % (zqc, self.zqcs_period, self.trefi, self.postponing), kind="zqcs_period")
        if owed > self.postponing + self.ref_slack:
            self.report("refresh.starved", "%d refreshes owed (postponing=%d)" % (owed, self.postponing), owed=owed)
            owed = self.postponing + self.ref_slack
        if owed < -self.postponing:
            # refreshing ahead of schedule is allowed (the statement bounds the rate from below only): counted, not reported
            self.cov["refreshes_ahead_of_schedule"] = self.cov.get("refreshes_ahead_of_schedule", 0) + 1
            owed = -self.postponing
        return (period, owed, grp, prea_age, zqc)

    ref_slack = 0

    def lasso_detail(self, label, cycle_states, loop_choices):
        """Fingerprint of a starvation lasso: which port waits, for which bank, and whether in *every* state of the cycle that
        bank's crossbar arbiter is parked on another port (the known crossbar re-arbitration finding) - anything else is new."""
        d = {"obligation": label}
        if not self.arbiters: return d
        k = 1 if "port 1" in label else 0
        banks = set(); held = True
        for (S, E) in cycle_states:
            pend = E[0][k][0]
            if pend is None:
                held = False; continue
            b = self.loc_of[pend[1]][0]; banks.add(b)
            g = self.c.get(S, self.arbiters[b].grant)
            if g == k: held = False
        d["waiting_port"] = k
        d["cause"] = "bank_arbiter_parked_on_other_port" if (held and len(banks) == 1) else "other"
        return d

    def coverage(self):
        return dict(sorted(self.cov.items()))


def build(**cfg):
    return CoreHarness(**cfg)
