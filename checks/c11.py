"""C11 - Avalon-MM port: bursts and single accesses keep memory semantics.

DUT: the real LiteDRAMAvalonMM2Native (with the LiteDRAMNativePortConverter it instantiates when the widths differ) over the
native-port responder (checks/responder.py).  Above it a legal Avalon-MM master that plays a fixed short list of accesses
(scenario) under every timing: idle cycles before each access, idle cycles between the beats of a write burst, the bridge's own
waitrequest, cmd.ready stalls and memory latencies of the responder.

Oracle (byte-addressed reference, updated when a write beat is accepted = write & ~waitrequest at the clock edge):
  * a byte of memory may only ever be changed to a value that some beat of the scenario writes to *that* byte with its byte
    enable set (every beat carries its ordinal and the lane in every byte, so beats, words and lanes are distinguishable);
  * a read burst of n returns exactly n readdatavalid beats, beat i = reference[A+i] as of the acceptance of the request;
  * no readdatavalid without an outstanding read;
  * when everything is done and nothing is outstanding (fixed point), memory == reference;
  * under a cooperative environment the scenario completes (no lasso without progress).
"""
import time
from engine import runner, fhdl
from engine.explore import Harness, Violation
from checks.responder import Responder

PROP = "C11"
ASSUME = [
    "legal Avalon-MM master (Avalon Interface Specifications, 'Avalon Memory-Mapped Interfaces'): read and write are never asserted together; a request (read/write, address, burstcount, byteenable, "
    "writedata) is held unchanged while waitrequest is high; a beat is transferred at the clock edge where read|write is high and waitrequest is low",
    "bursts: burstcount 1..max_burst_length; address and burstcount are valid on the first beat of a burst only; a write burst of n is n data beats with write asserted per beat, the master may deassert "
    "write for any number of cycles between beats (configurations *-nogap never do); a read burst is one request beat followed by n readdatavalid beats; byteenable may differ per write beat and takes "
    "only the legal aligned power-of-two patterns; reads use all byte enables",
    "don't-care lines: whenever the master is not presenting the first beat of a burst, address/burstcount (and, while idle, byteenable/writedata) carry the configured don't-care value: "
    "'same' (what was driven last), 'zero' or 'ones' - all three are legal, the slave must not sample them",
    "ordered use: accesses of a scenario are issued in order; sequential configurations issue the next request after the previous access is complete (last write beat accepted / last readdatavalid), "
    "pipelined (*-pipe) ones as soon as the previous request beat(s) were accepted; a read is first presented only when the memory below holds no accepted-but-unfinished write "
    "(raw='drained'; raw='ordered' drops this and relies on acceptance order alone)",
    "memory below the bridge = native-port responder restricted to real-core behaviour (wdata strobe >= 3, read data >= 6 cycles after acceptance, in order; strobes ignore valid/ready as the crossbar does; "
    "cmd.ready free every cycle)",
    "narrow words are packed little-endian in wide words (converter built with reverse=False, as the bridge does)",
]
RULE = ("per configuration (Avalon/port width, max_burst_length, base address, scenario, don't-care value), BFS over all master idle gaps (before accesses, between write-burst beats) x waitrequest (the DUT's) x "
        "cmd.ready stalls x memory latencies; oracle: byte-addressed reference updated at beat acceptance; every memory byte change must be the value an accepted-able beat of the scenario writes to that byte; "
        "n readdatavalid beats per read burst with reference data in order; none without an outstanding read; memory == reference at every quiescent fixed point; "
        "liveness: no progress-free cycle under a cooperative environment while anything is outstanding")

EV_OUT = 1; EV_PROG = 2

LEGAL_BE = {1: (1,), 2: (3, 1, 2), 4: (15, 3, 12, 1, 2, 4, 8)}


def init_byte(x): return x & 0x7f


def wbyte(ordinal, lane): return 0x80 | ((ordinal & 0x1f) << 2) | (lane & 3)


class AvalonHarness(Harness):
    def __init__(self, aw=32, pw=32, mbl=4, base_address=0, acc=(), dc="same", gaps=True, pipelined=False, raw="drained", wmin=3, rmin=6, qmax=3,
                 nwords=8, adr_width=8, port_aw=8, burst_increment=1, decoupled=False):
        from litedram.common import LiteDRAMNativePort
        from litedram.frontend.avalon import LiteDRAMAvalonMM2Native
        from litex.soc.interconnect.avalon import AvalonMMInterface
        assert dc in ("same", "zero", "ones") and raw in ("drained", "ordered")
        self.avl = avl = AvalonMMInterface(data_width=aw, adr_width=adr_width)
        self.port = port = LiteDRAMNativePort("both", port_aw, pw)
        self.dut = dut = LiteDRAMAvalonMM2Native(avl, port, max_burst_length=mbl, base_address=base_address, burst_increment=burst_increment)
        rd = Responder.reads([port]) + [avl.waitrequest, avl.readdatavalid, avl.readdata]
        # the bridge's FSM state is read for the *detail* of liveness reports only (fingerprints), never for a verdict
        self.fsm_names = None; fsm_state = None
        try:
            dut.finalize()                      # FSM state registers exist only after finalization
            fsm_state = dut.fsm.state; self.fsm_names = {v: k for k, v in dut.fsm.encoding.items()}
            rd.append(fsm_state)
        except Exception:
            pass
        self.c = c = fhdl.compile_harness(dut, rd)
        self.r_fsm = c.rd(fsm_state) if fsm_state is not None else None
        self.aw, self.pw, self.mbl = aw, pw, mbl
        self.ab = ab = aw // 8; self.pb = pb = pw // 8
        assert ab in LEGAL_BE
        self.base_word = base_address // ab
        assert base_address % ab == 0 and self.base_word + nwords <= (1 << adr_width)
        self.dc, self.gaps, self.pipelined, self.raw = dc, bool(gaps), bool(pipelined), raw
        self.nwords = nwords; self.nbytes = nwords * ab
        assert self.nbytes % pb == 0
        self.resp = Responder(c, [port], wmin=wmin, rmin=rmin, qmax=qmax, mem_init=self.mem_init, decoupled=decoupled)
        ii = c.ii
        self.i_addr = ii.get(avl.address); self.i_wd = ii.get(avl.writedata); self.i_be = ii.get(avl.byteenable)
        self.i_rd = ii[avl.read]; self.i_wr = ii[avl.write]; self.i_bc = ii.get(avl.burstcount)
        self.r_wait = c.rd(avl.waitrequest); self.r_rdv = c.rd(avl.readdatavalid); self.r_rdata = c.rd(avl.readdata)
        self.m_addr = (1 << len(avl.address)) - 1; self.m_bc = (1 << len(avl.burstcount)) - 1
        self.m_be = (1 << ab) - 1; self.m_wd = (1 << aw) - 1
        self.base = list(c.base_inputs)
        # ---- scenario: ("W", word offset, [byteenable per beat])  /  ("R", word offset, n)
        self.acc = []
        for a in acc:
            if a[0] == "W":
                bes = tuple(a[2]); n = len(bes)
                assert all(be in LEGAL_BE[ab] for be in bes), "illegal Avalon byteenable pattern"
            else:
                bes = None; n = a[2]
            assert 1 <= n, "burstcount must be >= 1"      # may exceed max_burst_length: that parameter is the depth of the write FIFOs, the burstcount field is wider
            assert 0 <= a[1] and a[1] + n <= nwords
            self.acc.append((a[0], a[1], n, bes))
        self.NA = len(self.acc)
        # static tables
        self.beats = []                  # per access: list of (ordinal, byteenable, data word)
        self.ref_after = []              # reference bytes after j accepted beats (beats are accepted in scenario order)
        self.legal = [set() for _ in range(self.nbytes)]
        ref = [init_byte(x) for x in range(self.nbytes)]
        self.ref_after.append(tuple(ref))
        self.beats_before = []; self.reads_before = []
        o = 0; nr = 0
        self.exp = []                    # per access: expected read words
        for (kind, off, n, bes) in self.acc:
            self.beats_before.append(o); self.reads_before.append(nr)
            if kind == "W":
                bl = []
                for i in range(n):
                    d = 0
                    for l in range(ab): d |= wbyte(o, l) << (8 * l)
                    bl.append((o, bes[i], d))
                    for l in range(ab):
                        if (bes[i] >> l) & 1:
                            x = (off + i) * ab + l
                            ref[x] = wbyte(o, l); self.legal[x].add(wbyte(o, l))
                    o += 1
                    self.ref_after.append(tuple(ref))
                self.beats.append(bl); self.exp.append(None)
            else:
                nr += 1
                self.beats.append(None)
                self.exp.append([sum(ref[(off + i) * ab + l] << (8 * l) for l in range(ab)) for i in range(n)])
        self.beats_before.append(o); self.reads_before.append(nr)
        self.total_beats = o; self.total_reads = nr
        self.read_idx = [k for k, a in enumerate(self.acc) if a[0] == "R"]
        self.final_ref = self.ref_after[-1]
        self.ratio = "%d/%d" % (aw, pw)
        self.static = dict(ratio=self.ratio, upconvert=aw < pw, downconvert=aw > pw, dont_care=dc, pipelined=self.pipelined)
        self._hist = dict(self.static)
        self.cov = {}

    # ---------------------------------------------------------------- memory helpers (port words <-> bytes)
    def mem_init(self, a):
        return sum(init_byte(a * self.pb + l) << (8 * l) for l in range(self.pb))

    def ref_byte(self, ref, x):
        return ref[x] if 0 <= x < self.nbytes else init_byte(x)

    # ---------------------------------------------------------------- master
    # env: (k, b, hold, rd, rbeat, hgap, rs)
    #   k access being issued / next to issue, b write beats of access k accepted, hold = request presented and stalled,
    #   rd reads completed, rbeat beats of read #rd received, hgap = sticky history flag, rs = responder state
    def env0(self):
        return (0, 0, 0, 0, 0, 0, self.resp.init())

    def may_present(self, E):
        k, b, hold, rd, rbeat, hgap, rs = E
        if hold: return (1,)
        if k >= self.NA: return (0,)
        if b > 0:                                   # inside a write burst
            return (1, 0) if self.gaps else (1,)
        if not self.pipelined and rd < self.reads_before[k]: return (0,)
        if self.acc[k][0] == "R" and self.raw == "drained" and any(e[1] for e in rs[0]): return (0,)
        return (1, 0)

    def menu(self, S, E):
        go = self.may_present(E)
        rm = self.resp.menu(E[6])
        return [(g, r) for g in go for r in rm]

    def describe(self, ch):
        g, rch = ch; rb, serve = rch[0], rch[1]
        return "%s | cmd.ready=%d serve=%s" % ("request" if g else "idle   ", rb, list(serve))

    def last_driven(self, k, b):
        """(address, burstcount, byteenable, writedata) of the beat presented last before position (k, b)"""
        if b > 0:
            kind, off, n, bes = self.acc[k]; o, be, d = self.beats[k][b - 1]
            return (self.base_word + off, n, be, d)
        if k > 0:
            kind, off, n, bes = self.acc[k - 1]
            if kind == "W":
                o, be, d = self.beats[k - 1][-1]
                return (self.base_word + off, n, be, d)
            return (self.base_word + off, n, self.m_be, 0)
        return (0, 0, 0, 0)

    def dont_care(self, k, b):
        if self.dc == "zero": return (0, 0, 0, 0)
        if self.dc == "ones": return (self.m_addr, self.m_bc, self.m_be, self.m_wd)
        return self.last_driven(k, b)

    def legal_choice(self, E, ch):
        """A recorded choice list replayed on a *different* tree (after a repair, under a mutation) can ask for something that is
        not in the menu of the state reached there; project it onto the menu so that the master and the memory stay legal.
        On the tree the trace was found on this is the identity."""
        g, rch = ch; rb, serve = rch[0], rch[1]
        opts = self.may_present(E)
        if g not in opts: g = opts[0]
        cq = E[6][0]
        el = self.resp.eligible(cq, E[6][2] if self.resp.decoupled else None)
        serve = tuple(i for i in serve if i in el)[:1]
        if len(cq) >= self.resp.qmax: rb = 0
        return g, ((rb, serve) + tuple(rch[2:]))

    def drive(self, S, E, ch):
        k, b, hold, rd, rbeat, hgap, rs = E
        g, rch = self.legal_choice(E, ch)
        I = list(self.base)
        addr, bc, be, wd = self.dont_care(k, b)
        if g:
            kind, off, n, bes = self.acc[k]
            if kind == "W":
                I[self.i_wr] = 1
                o, be, wd = self.beats[k][b]
                if b == 0: addr, bc = self.base_word + off, n          # first beat: address and burstcount are valid
            else:
                I[self.i_rd] = 1
                addr, bc, be = self.base_word + off, n, self.m_be
        if self.i_addr is not None: I[self.i_addr] = addr
        if self.i_bc is not None: I[self.i_bc] = bc
        if self.i_be is not None: I[self.i_be] = be
        if self.i_wd is not None: I[self.i_wd] = wd
        self.resp.drive(rs, rch, I)
        return tuple(I)

    def set_hist(self, hgap):
        self._hist = dict(self.static, gap_inside_write_burst=bool(hgap))

    def observe(self, S, E, ch, I, O, S2):
        k, b, hold, rd, rbeat, hgap, rs = E
        ch = self.legal_choice(E, ch)
        g, rch = ch
        cov = self.cov
        if not g and b > 0: hgap = 1
        self.set_hist(hgap)
        try:
            rs2, evs = self.resp.observe(rs, rch, S, I, O)
        except Violation as v:
            v.detail.update(self._hist, kind=v.rule.split(".")[-1]); raise
        prog = bool(evs)
        # ---- memory side: every byte change must be a value some beat of the scenario writes to that byte
        for e in evs:
            if e[0] != "w": continue
            _, p, a, d, m = e
            old = self.resp.mem_get(rs[1], a)
            for l in range(self.pb):
                if not (m >> l) & 1: continue
                v = (d >> (8 * l)) & 0xff
                if v == (old >> (8 * l)) & 0xff: continue
                x = a * self.pb + l
                if not (0 <= x < self.nbytes) or v not in self.legal[x]:
                    self.report("avalon.write_misplaced", "memory byte 0x%x (Avalon word offset %d, lane %d) overwritten with 0x%02x = beat #%d lane %d; no beat of the scenario writes that value there"
                                % (x, x // self.ab, x % self.ab, v, (v >> 2) & 0x1f, v & 3), kind="write_misplaced", in_window=0 <= x < self.nbytes)
                    break
            cov["mem_writes"] = cov.get("mem_writes", 0) + 1
        # ---- Avalon request channel
        wait = self.r_wait(S, I, O)
        if g:
            if wait:
                hold = 1; cov["stalled_beats"] = cov.get("stalled_beats", 0) + 1
            else:
                hold = 0; prog = True
                kind, off, n, bes = self.acc[k]
                if kind == "W":
                    b += 1
                    if b == n: k += 1; b = 0
                else:
                    k += 1
        # ---- Avalon read data channel
        if self.r_rdv(S, I, O):
            prog = True
            if rd >= self.reads_before[k]:
                raise Violation("avalon.readdatavalid_extra", "readdatavalid although no read is outstanding (%d read requests accepted, %d completed)" % (self.reads_before[k], rd),
                                kind="rdv_extra", **self._hist)
            ka = self.read_idx[rd]; kind, off, n, bes = self.acc[ka]
            got = self.r_rdata(S, I, O); exp = self.exp[ka][rbeat]
            if got != exp:
                self.report("avalon.read_data", "read #%d (offset %d, burst of %d) beat %d: readdata %0*x, expected %0*x (reference at acceptance of the request)"
                            % (rd, off, n, rbeat, self.ab * 2, got, self.ab * 2, exp), kind="r_data", burst=n > 1)
            cov["r_beats"] = cov.get("r_beats", 0) + 1
            rbeat += 1
            if rbeat == n: rd += 1; rbeat = 0
        done = k == self.NA and rd == self.total_reads
        E2 = (k, b, hold, rd, rbeat, hgap, rs2)
        # ---- quiescence: everything done, nothing outstanding below, and the closed system does not move any more
        if done and not rs2[0] and ch == (0, (1, ())) and S2 == S and E2 == E:
            cov["quiescent_fixed_points"] = cov.get("quiescent_fixed_points", 0) + 1
            bad = self.memory_diff(rs2[1])
            if bad:
                stale = all(got == self.ref_byte(self.ref_after[0], x) for (x, got, want) in bad)      # accepted beats that never reached memory
                self.report("avalon.final_memory", "all accesses done and nothing outstanding, but memory != reference: " +
                            ", ".join("byte 0x%x = %02x (expected %02x)" % t for t in bad[:6]), kind="final_memory", only_unwritten_bytes=stale,
                            bridge_fsm=self.fsm_names.get(self.r_fsm(S, I, O), "?") if self.r_fsm is not None else None)
        ev = 0
        coop = ch == (self.may_present(E)[0], self.resp.default_choice(rs))
        if coop and (not done or rs[0]): ev |= EV_OUT
        if prog: ev |= EV_PROG
        return E2, ev

    def memory_diff(self, mem):
        """list of (byte address, memory value, reference value) over the scenario window and every word ever written"""
        words = set(range(self.nbytes // self.pb)) | {a for a, _ in mem}
        bad = []
        for a in sorted(words):
            w = self.resp.mem_get(mem, a)
            for l in range(self.pb):
                x = a * self.pb + l
                got = (w >> (8 * l)) & 0xff; want = self.ref_byte(self.final_ref, x)
                if got != want: bad.append((x, got, want))
        return bad

    def report(self, rule, msg, **detail):
        d = dict(self._hist); d.update(detail)
        Harness.report(self, rule, msg, **d)

    def lasso_detail(self, label, cycle_states, loop_choices):
        S, E = cycle_states[0]
        k, b, hold, rd, rbeat, hgap, rs = E
        d = dict(self.static, gap_inside_write_burst=bool(hgap), kind="hang")
        if rd < self.reads_before[k]:
            ka = self.read_idx[rd]; kind, off, n, bes = self.acc[ka]
            r = self.pb // self.ab if self.ab < self.pb else 1
            d.update(waiting_for="readdatavalid", burst=n > 1, beats_received=rbeat, beats_expected=n,
                     read_ends_inside_wide_word=bool(r > 1 and (off + n) % r != 0))
        elif k < self.NA:
            d.update(waiting_for="request_accept", access=self.acc[k][0], burst=self.acc[k][2] > 1,
                     previous_access_write_burst=bool(k > 0 and b == 0 and self.acc[k - 1][0] == "W" and self.acc[k - 1][2] > 1))
        else:
            d.update(waiting_for="memory")
        if self.r_fsm is not None:
            d["bridge_fsm"] = self.fsm_names.get(self.r_fsm(S, None, None), "?")
        return d

    def coverage(self): return dict(self.cov)


def build(**kw): return AvalonHarness(**kw)


LIVE = [("scenario completes (cooperative environment)", EV_OUT, EV_PROG)]

F = 15
# scenarios for a 4-byte Avalon word (32/32, 32/16); byte enables are re-mapped for narrower words
SCEN = {
    "w1-r1":        [("W", 1, [3]), ("R", 1, 1)],
    "wb2-rb2":      [("W", 2, [F, 12]), ("R", 2, 2)],
    "wb3-rb3":      [("W", 1, [F, 3, 4]), ("R", 1, 3)],
    "wb4-rb4":      [("W", 0, [F, 12, 1, F]), ("R", 0, 4)],
    "wb2-r1-r1":    [("W", 3, [F, F]), ("R", 4, 1), ("R", 3, 1)],
    "w1-w1-rb2":    [("W", 1, [F]), ("W", 0, [12]), ("R", 0, 2)],
    "rb3":          [("R", 2, 3)],
    "wb3":          [("W", 5, [8, F, 3])],
    "wb2-wb2-rb3":  [("W", 0, [F, F]), ("W", 1, [3, F]), ("R", 0, 3)],
    "r1-w1-r1":     [("R", 2, 1), ("W", 2, [12]), ("R", 2, 1)],
    "rb2-wb2-rb2":  [("R", 1, 2), ("W", 1, [3, F]), ("R", 1, 2)],
    "rb2-rb2":      [("R", 0, 2), ("R", 1, 2)],
    "wb2-w1-rb3":   [("W", 0, [F, F]), ("W", 2, [F]), ("R", 0, 3)],
    "mix4":         [("W", 4, [F, F]), ("W", 5, [3, 12]), ("R", 4, 3), ("W", 4, [1])],
    "mix5":         [("W", 0, [F]), ("R", 0, 2), ("W", 1, [12, F, 3]), ("R", 2, 1), ("R", 0, 4)],
    # narrow bus on a wide port: positions relative to the wide word matter (4 or 2 narrow words per wide word)
    "n-wb2-rb4":    [("W", 0, [F, F]), ("R", 0, 4)],          # write burst inside one wide word, read of the whole wide word
    "n-wb3x-r1":    [("W", 3, [F, F, F]), ("R", 4, 1)],       # write burst crossing a wide-word boundary
    "n-rb2":        [("R", 0, 2)],                            # read burst that ends inside a wide word
    "n-rb2x":       [("R", 3, 2)],                            # read burst crossing a wide-word boundary (8/32), ending inside
    "n-rb4":        [("R", 0, 4)],                            # ends on a wide-word boundary for 8/32 and 16/32
    "n-wb4-rb4":    [("W", 4, [F, F, F, F]), ("R", 4, 4)],
    "n-w1-rb4":     [("W", 2, [F]), ("R", 0, 4)],
    "n-wb2-w1-r1":  [("W", 0, [F, F]), ("W", 1, [F]), ("R", 1, 1)],
    # scenarios that end with a write: the data must reach memory without any further access (quiescence comparison)
    "n-wb3x":       [("W", 3, [F, F, F])],                    # crossing a wide-word boundary
    "n-wb2-lo":     [("W", 1, [F, F])],                       # inside wide word 0
    "n-wb2-hi":     [("W", 5, [F, F])],                       # inside wide word 1 (8/32) / 2 (16/32)
    "n-w1-w1":      [("W", 2, [F]), ("W", 1, [F])],           # descending single writes inside one wide word
}


def scen(name, ab):
    """re-map the 4-lane byte enables of SCEN onto an Avalon word of `ab` bytes (keeping full/partial character)"""
    out = []
    for a in SCEN[name]:
        if a[0] == "W":
            bes = []
            for be in a[2]:
                if ab == 4: bes.append(be)
                elif ab == 2: bes.append(3 if be == F else (1 if be in (1, 3, 4) else 2))
                else: bes.append(1)
            out.append(["W", a[1], bes])
        else:
            out.append(["R", a[1], a[2]])
    return out


def configs(tier):
    cs = []
    def add(ratio, s, mbl=4, ms=2_000_000, **kw):
        aw, pw = ratio
        name = "%d-%d-mbl%d-%s" % (aw, pw, mbl, s)
        for key in ("dc", "base_address"):
            if key in kw: name += "-%s" % (kw[key] if key == "dc" else "base0x%x" % kw[key])
        if kw.get("gaps") is False: name += "-nogap"
        if kw.get("pipelined"): name += "-pipe"
        if kw.get("raw") == "ordered": name += "-ordered"
        if kw.get("decoupled"): name += "-streamport"
        d = dict(aw=aw, pw=pw, mbl=mbl, acc=scen(s, aw // 8)); d.update(kw)
        cs.append((name, d, ms))
    R11, R14, R12, R21 = (32, 32), (8, 32), (16, 32), (32, 16)
    if tier == "quick":
        # same width: every burst shape, the three don't-care values, gaps allowed
        add(R11, "w1-r1", mbl=2)
        add(R11, "wb2-rb2", mbl=2, dc="same"); add(R11, "wb2-rb2", mbl=2, dc="zero"); add(R11, "wb2-rb2", mbl=2, dc="ones")
        add(R11, "wb3-rb3", mbl=3, dc="ones")
        add(R11, "wb4-rb4", mbl=4, dc="zero")
        add(R11, "wb2-r1-r1", mbl=2, base_address=0x40)
        add(R11, "r1-w1-r1", mbl=2)
        # pipelined master (legal Avalon-MM): the next request is presented as soon as the previous one was accepted, also while a read is outstanding
        add(R11, "r1-w1-r1", mbl=2, pipelined=True, raw="ordered"); add(R11, "rb2-wb2-rb2", mbl=2, gaps=False, pipelined=True, raw="ordered"); add(R21, "r1-w1-r1", mbl=2, pipelined=True, raw="ordered")
        add(R11, "wb3-rb3", mbl=3, dc="zero", decoupled=True); add(R14, "wb2-rb2", mbl=2, decoupled=True); add(R21, "wb2-rb2", mbl=2, decoupled=True)
        # the same without idle cycles inside write bursts (everything else free)
        add(R11, "wb3-rb3", mbl=3, gaps=False); add(R11, "wb4-rb4", mbl=4, gaps=False); add(R11, "wb2-wb2-rb3", mbl=3, gaps=False)
        add(R11, "w1-w1-rb2", mbl=2, gaps=False); add(R11, "rb2-wb2-rb2", mbl=2, gaps=False, base_address=0x40)
        # bursts longer than the write FIFOs (max_burst_length is their depth, not the limit of burstcount): back-pressure from either FIFO
        add(R11, "wb3-rb3", mbl=2, gaps=False); add(R11, "wb4-rb4", mbl=2, gaps=False); add(R11, "wb4-rb4", mbl=3, dc="zero"); add(R11, "wb3-rb3", mbl=2, decoupled=True)
        # down-conversion
        add(R21, "wb2-rb2", mbl=2, gaps=False); add(R21, "wb3-rb3", mbl=3, gaps=False); add(R21, "w1-r1", mbl=2); add(R21, "wb2-rb2", mbl=2, dc="zero")
        # up-conversion
        add(R14, "w1-r1", mbl=2); add(R14, "n-wb2-rb4", mbl=4, gaps=False); add(R14, "n-wb3x-r1", mbl=3, gaps=False); add(R14, "n-rb4", mbl=4)
        add(R14, "n-rb2", mbl=2); add(R14, "n-wb2-w1-r1", mbl=2, gaps=False)
        add(R12, "n-wb2-rb4", mbl=4, gaps=False); add(R12, "n-rb2", mbl=2); add(R12, "rb3", mbl=3); add(R12, "wb3", mbl=3, gaps=False)
        add(R12, "wb2-rb2", mbl=2, dc="ones")
    else:
        for dc in ("same", "zero", "ones"):
            for s, m in (("w1-r1", 2), ("wb2-rb2", 2), ("wb3-rb3", 3), ("wb4-rb4", 4), ("wb2-r1-r1", 2), ("w1-w1-rb2", 2), ("wb3", 3), ("wb2-wb2-rb3", 3), ("r1-w1-r1", 2), ("rb2-wb2-rb2", 2), ("wb2-w1-rb3", 3)):
                add(R11, s, mbl=m, dc=dc)
        for s, m in (("w1-r1", 2), ("wb2-rb2", 2), ("wb3-rb3", 3), ("wb4-rb4", 4), ("wb2-r1-r1", 2), ("w1-w1-rb2", 2), ("wb3", 3), ("rb3", 3), ("wb2-wb2-rb3", 3), ("r1-w1-r1", 2),
                     ("rb2-wb2-rb2", 2), ("rb2-rb2", 2), ("wb2-w1-rb3", 3)):
            add(R11, s, mbl=m, gaps=False)
            add(R11, s, mbl=m, gaps=False, pipelined=True, raw="ordered")
            add(R21, s, mbl=m, gaps=False)
            add(R12, s, mbl=m, gaps=False)
            add(R14, s, mbl=m, gaps=False)
        for s in ("wb3-rb3", "wb4-rb4", "wb3", "wb2-wb2-rb3", "wb2-w1-rb3"):     # bursts longer than the write FIFOs
            for r in (R11, R21, R12):
                add(r, s, mbl=2, gaps=False); add(r, s, mbl=2, dc="zero"); add(r, s, mbl=2, decoupled=True)
        add(R11, "wb4-rb4", mbl=3, gaps=False); add(R11, "wb4-rb4", mbl=3, decoupled=True)
        for s, m in (("wb2-rb2", 2), ("wb3-rb3", 3), ("rb2-wb2-rb2", 2)):
            add(R11, s, mbl=m, base_address=0x40, dc="zero")
            add(R11, s, mbl=m, pipelined=True, dc="ones")
            add(R21, s, mbl=m, dc="zero"); add(R21, s, mbl=m, gaps=False, pipelined=True, base_address=0x80)
            add(R12, s, mbl=m, dc="same"); add(R14, s, mbl=m, dc="ones")
        for s, m in (("mix4", 3), ("mix5", 4)):
            for r in (R11, R21, R12, R14):
                add(r, s, mbl=m, gaps=False, ms=4_000_000); add(r, s, mbl=m, gaps=False, pipelined=True, raw="ordered", ms=4_000_000)
            add(R11, s, mbl=m, dc="zero", ms=4_000_000); add(R21, s, mbl=m, dc="ones", base_address=0x40, ms=4_000_000)
        for s, m in (("n-wb2-rb4", 4), ("n-wb3x-r1", 3), ("n-rb2", 2), ("n-rb2x", 2), ("n-rb4", 4), ("n-wb4-rb4", 4), ("n-w1-rb4", 4), ("n-wb2-w1-r1", 2),
                     ("n-wb3x", 3), ("n-wb2-lo", 2), ("n-wb2-hi", 2), ("n-w1-w1", 2)):
            add(R14, s, mbl=m, gaps=False); add(R12, s, mbl=m, gaps=False)
            add(R14, s, mbl=m, gaps=False, pipelined=True, raw="ordered")
    return cs


def run(tier, seed, only=None):
    t0 = time.time()
    jobs = []
    for name, kw, ms in configs(tier):
        if only and only not in name: continue
        jobs.append((runner.mc_run, (PROP, "checks.c11", "build", kw), dict(name=name, tier=tier, seed=seed, max_states=ms, liveness=LIVE)))
    res = runner.run_jobs(jobs)
    return runner.finish(PROP, tier, seed, "model_checking", res, t0, ASSUME, RULE,
                         technique="explicit-state BFS of the elaborated Avalon-MM bridge netlist (with its width converter) per access scenario, byte-addressed reference memory")
