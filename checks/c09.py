"""C09 - AXI port: protocol-correct responses and memory semantics.

DUT: LiteDRAMAXI2Native (write + read bridges + arbiter, optional read-modify-write) over the native-port responder.
The AXI master is legal by construction: once valid is raised on AW/W/AR it and its payload are held until ready."""
import time
from engine import runner, fhdl
from engine.explore import Harness, Violation
from checks.responder import Responder

PROP = "C09"
ASSUME = [
    "legal AXI4 master: valid and payload held until ready on AW/W/AR; W may lead or lag AW; WLAST on the last beat; strobes only inside the beat's byte window",
    "B and R ready are free choices every cycle; AW/W/AR presentation times are free choices",
    "a read that overlaps a write of the scenario is issued only after that write's B response, and a write is issued only when no overlapping earlier read is outstanding (the statement promises nothing for races)",
    "memory below the bridge = native-port responder restricted to real-core behaviour (wdata strobe >= 3, read data >= 6 cycles after acceptance; strobes ignore valid/ready as the crossbar does)",
    "scenarios: a fixed set of write/read bursts (FIXED/INCR/WRAP, 1-4 beats, full and narrow size, two IDs, partial strobes, non-zero base address), each explored under every timing",
]
RULE = ("per scenario, BFS over all 5-channel timings x cmd.ready stalls x memory latencies; oracle: AXI-level reference memory (own FIXED/INCR/WRAP beat address computation); one B per write burst, "
        "with its ID, in order, not before its last data beat was taken by the native port; R beats: count, ID, LAST, data (lanes of the beat window), request order; read after B sees the write; "
        "final memory == reference at quiescence; drain liveness under a cooperative environment")

EV_OUT = 1; EV_PROG = 2
FIXED, INCR, WRAP = 0, 1, 2
NW = 8      # words of memory addressed by the scenarios (after subtracting the base address)


def beat_addrs(addr, burst, ln, size):
    """AXI4 beat addresses (spec A3.4.1) for a burst of ln+1 beats of 2**size bytes"""
    n = ln + 1; nb = 1 << size
    aligned = (addr // nb) * nb
    out = []
    if burst == FIXED:
        return [addr] * n
    if burst == INCR:
        return [addr] + [aligned + i * nb for i in range(1, n)]
    assert addr == aligned, "WRAP bursts start aligned"
    total = nb * n; wb = (addr // total) * total
    a = addr
    for i in range(n):
        out.append(a)
        a += nb
        if a == wb + total: a = wb
    return out


def lanes(addr, size, nbytes=4):
    """byte lanes (within the data bus) a beat at `addr` may use"""
    b = 1 << size
    lo = addr % nbytes
    hi = ((addr // b) * b + b - 1) % nbytes if b < nbytes else nbytes - 1
    if b >= nbytes: return list(range(lo, nbytes))
    return list(range(lo, hi + 1))


class AxiHarness(Harness):
    def __init__(self, writes=(), reads=(), rmw=False, depth=2, base_address=0, wmin=3, rmin=6, qmax=3, decoupled=False):
        from litedram.common import LiteDRAMNativePort
        from litedram.frontend.axi import LiteDRAMAXIPort, LiteDRAMAXI2Native
        self.axi = axi = LiteDRAMAXIPort(data_width=32, address_width=8, id_width=1)
        self.port = port = LiteDRAMNativePort("both", 6, 32)
        dut = LiteDRAMAXI2Native(axi, port, w_buffer_depth=depth, r_buffer_depth=depth, base_address=base_address, with_read_modify_write=rmw)
        rd = Responder.reads([port]) + [axi.aw.ready, axi.w.ready, axi.ar.ready, axi.b.valid, axi.b.id, axi.b.resp, axi.r.valid, axi.r.data, axi.r.id, axi.r.last, axi.r.resp]
        self.c = c = fhdl.compile_harness(dut, rd)
        self.base_address = base_address; self.rmw = bool(rmw); self._hist = {}; self.depth = depth
        self.resp = Responder(c, [port], wmin=wmin, rmin=rmin, qmax=qmax, mem_init=self.mem_init, addr_ok=lambda p, a: a < NW, decoupled=decoupled)
        ii = c.ii
        def idx(ep, names): return {n: ii.get(getattr(ep, n)) for n in names}
        self.i_aw = idx(axi.aw, ["valid", "addr", "burst", "len", "size", "id"]); self.i_ar = idx(axi.ar, ["valid", "addr", "burst", "len", "size", "id"])
        self.i_w = idx(axi.w, ["valid", "data", "strb", "last"]); self.i_bready = ii[axi.b.ready]; self.i_rready = ii[axi.r.ready]
        R = c.rd
        self.r_awready = R(axi.aw.ready); self.r_wready = R(axi.w.ready); self.r_arready = R(axi.ar.ready)
        self.r_bvalid = R(axi.b.valid); self.r_bid = R(axi.b.id); self.r_bresp = R(axi.b.resp)
        self.r_rvalid = R(axi.r.valid); self.r_rdata = R(axi.r.data); self.r_rid = R(axi.r.id); self.r_rlast = R(axi.r.last); self.r_rresp = R(axi.r.resp)
        # scenario ---------------------------------------------------------------------------------------------------
        # write: (addr, burst, len, size, id, strbs)   read: (addr, burst, len, size, id)
        self.writes = [tuple(w[:5]) + (tuple(w[5]),) for w in writes]; self.reads = [tuple(r) for r in reads]
        self.wbeats = []        # flattened W channel beats: (write index, beat index, data, strb, last)
        self.w_addrs = []
        self.cum_beats = []
        tot = 0
        for j, (addr, burst, ln, size, wid, strbs) in enumerate(self.writes):
            ads = beat_addrs(addr, burst, ln, size); self.w_addrs.append(ads)
            assert len(strbs) == ln + 1
            for i, a in enumerate(ads):
                legal = lanes(a, size)
                sb = strbs[i]
                assert all(((sb >> l) & 1) == 0 or l in legal for l in range(4)), "strobe outside the beat window"
                self.wbeats.append((j, i, self.wdata(j, i), sb, i == ln))
            tot += ln + 1; self.cum_beats.append(tot)
        self.r_addrs = [beat_addrs(a, b, l, s) for (a, b, l, s, i) in self.reads]
        # reference memory after writes 0..j (writes are applied in AW order)
        self.mem_after = []
        mem = [self.mem_init(k) for k in range(NW)]
        for j, (addr, burst, ln, size, wid, strbs) in enumerate(self.writes):
            for i, a in enumerate(self.w_addrs[j]):
                wa = (a - base_address) // 4
                for l in range(4):
                    if (strbs[i] >> l) & 1:
                        mem[wa] = (mem[wa] & ~(0xff << (8 * l))) | (self.wdata(j, i) & (0xff << (8 * l)))
            self.mem_after.append(tuple(mem))
        self.mem0 = tuple(self.mem_init(k) for k in range(NW))
        def words(ads): return {(a - base_address) // 4 for a in ads}
        # dependencies: read k needs B of every overlapping write; expected data = memory after the last overlapping write (or all
        # earlier-than-needed writes: non-overlapping writes do not touch the words read)
        self.r_needs = []
        self.r_exp_mem = []
        for k in range(len(self.reads)):
            need = [j for j in range(len(self.writes)) if words(self.w_addrs[j]) & words(self.r_addrs[k])]
            self.r_needs.append(need)
            self.r_exp_mem.append(self.mem_after[max(need)] if need else self.mem0)
        # a write may be presented only when no overlapping read is outstanding
        self.w_blockers = [[k for k in range(len(self.reads)) if words(self.w_addrs[j]) & words(self.r_addrs[k])] for j in range(len(self.writes))]
        self.base = list(c.base_inputs)
        self.cov = {}

    def mem_init(self, a):
        return 0xE0E0E000 | ((a * 0x11) & 0xff) | 0x0F00

    def wdata(self, j, i):
        t = (j << 2) | i
        return (0xA0 | t) | ((0xB0 | t) << 8) | ((0xC0 | t) << 16) | ((0xD0 | t) << 24)

    # env: (aw_next, aw_hold, w_next, w_hold, ar_next, ar_hold, b_got, r_burst, r_beat, nwd, rs, final_checked)
    def env0(self):
        return (0, 0, 0, 0, 0, 0, 0, 0, 0, 0, self.resp.init(), 0, 0, 0)

    def _read_outstanding(self, E, k):
        arn, rb = E[4], E[7]
        return k < arn and k >= rb          # AR accepted, not all R beats received

    def opts(self, E):
        """presentable options per channel, most cooperative first"""
        awn, awh, wn, wh, arn, arh, bg, rb, rbeat, nwd, rs, h_lead, h_behind, h_resp = E
        aw_opts = (1,) if awh else (0,)
        if not awh and awn < len(self.writes) and not any(self._read_outstanding(E, k) for k in self.w_blockers[awn]):
            aw_opts = (1, 0)
        w_opts = (1,) if wh else (0,)
        if not wh and wn < len(self.wbeats):
            j = self.wbeats[wn][0]
            if not any(self._read_outstanding(E, k) for k in self.w_blockers[j]): w_opts = (1, 0)
        ar_opts = (1,) if arh else (0,)
        if not arh and arn < len(self.reads) and all(bg > j for j in self.r_needs[arn]):
            ar_opts = (1, 0)
        return aw_opts, w_opts, ar_opts

    def menu(self, S, E):
        aw_opts, w_opts, ar_opts = self.opts(E)
        rm = self.resp.menu(E[10])
        return [(a, w, r, br, rr, x) for a in aw_opts for w in w_opts for r in ar_opts for br in (1, 0) for rr in (1, 0) for x in rm]

    def describe(self, ch):
        a, w, r, br, rr, rch = ch; rb, serve = rch[0], rch[1]
        return "aw=%d w=%d ar=%d bready=%d rready=%d | cmd.ready=%d serve=%s" % (a, w, r, br, rr, rb, list(serve))

    def drive(self, S, E, ch):
        awn, awh, wn, wh, arn, arh, bg, rb, rbeat, nwd, rs, h_lead, h_behind, h_resp = E
        a, w, r, br, rr, rch = ch
        I = list(self.base)
        if a:
            addr, burst, ln, size, wid, strbs = self.writes[awn]
            d = self.i_aw; I[d["valid"]] = 1; I[d["addr"]] = addr; I[d["burst"]] = burst; I[d["len"]] = ln; I[d["size"]] = size; I[d["id"]] = wid
        if w:
            j, i, data, sb, last = self.wbeats[wn]
            d = self.i_w; I[d["valid"]] = 1; I[d["data"]] = data; I[d["strb"]] = sb; I[d["last"]] = 1 if last else 0
        if r:
            addr, burst, ln, size, rid = self.reads[arn]
            d = self.i_ar; I[d["valid"]] = 1; I[d["addr"]] = addr; I[d["burst"]] = burst; I[d["len"]] = ln; I[d["size"]] = size; I[d["id"]] = rid
        I[self.i_bready] = br; I[self.i_rready] = rr
        self.resp.drive(rs, rch, I)
        return tuple(I)

    def observe(self, S, E, ch, I, O, S2):
        awn, awh, wn, wh, arn, arh, bg, rb, rbeat, nwd, rs, h_lead, h_behind, h_resp = E
        a, w, r, br, rr, rch = ch
        # history flags used to fingerprint the two recorded read-modify-write findings (sticky)
        if w:
            j, i, data, sb, last = self.wbeats[wn]
            if sb != 0xf:
                if awn <= j and not a: h_lead = 1                        # partial-strobe data presented before its address
                if nwd < wn: h_behind = 1                                 # ... while earlier beats are still buffered in the bridge
        # completed-but-unanswered write bursts beyond what the response buffer holds (master stalls B): from then on the recorded
        # "response pushed without checking for room" finding is in effect (lost, overwritten or mis-identified responses)
        if sum(1 for cb in self.cum_beats if nwd >= cb) - bg > self.depth: h_resp = 1
        self._hist = dict(rmw=self.rmw, w_led_aw=bool(h_lead), partial_behind_buffered=bool(h_behind), b_stalled_beyond_resp_buffer=bool(h_resp))
        try:
            rs2, evs = self.resp.observe(rs, rch, S, I, O)
        except Violation as v:
            v.detail.update(self._hist); raise
        prog = bool(evs)
        for e in evs:
            # "handed to the memory": the data strobe of the memory itself, or - on a port behind stream buffering - the hand-over of the beat
            # to the port's write-data stream (the port keeps command and data order, so a read issued after B still sees the data)
            if e[0] == ("wbeat" if self.resp.decoupled else "w"): nwd += 1
        awh, wh, arh = a, w, r
        if a and self.r_awready(S, I, O): awn += 1; awh = 0; prog = True
        if w and self.r_wready(S, I, O): wn += 1; wh = 0; prog = True
        if r and self.r_arready(S, I, O): arn += 1; arh = 0; prog = True
        if self.r_bvalid(S, I, O) and br:
            prog = True
            if bg >= len(self.writes): raise Violation("axi.b_extra", "write response without a write burst outstanding")
            wid = self.writes[bg][4]
            if self.r_bid(S, I, O) != wid: self.report("axi.b_id", "B response carries id %d, burst %d was issued with id %d" % (self.r_bid(S, I, O), bg, wid), kind="b_id")
            if self.r_bresp(S, I, O) != 0: self.report("axi.b_resp", "B response not OKAY")
            if nwd < self.cum_beats[bg]:
                self.report("axi.b_early", "B for burst %d although only %d of its %d data beats were handed to the memory" % (bg, nwd, self.cum_beats[bg]), kind="b_early")
            if wn < self.cum_beats[bg]:
                self.report("axi.b_before_wlast", "B for burst %d before its last W beat was accepted" % bg, kind="b_early")
            bg += 1
        if self.r_rvalid(S, I, O) and rr:
            prog = True
            if rb >= len(self.reads) or rb >= E[4] + (1 if (r and self.r_arready(S, I, O)) else 0):
                raise Violation("axi.r_extra", "R beat without an outstanding read burst")
            addr, burst, ln, size, rid = self.reads[rb]
            ba = self.r_addrs[rb][rbeat]
            wa = (ba - self.base_address) // 4
            exp = self.r_exp_mem[rb][wa]; got = self.r_rdata(S, I, O)
            m = 0
            for l in lanes(ba, size): m |= 0xff << (8 * l)
            if (got ^ exp) & m:
                self.report("axi.r_data", "read burst %d beat %d (addr 0x%02x): data %08x, expected %08x (lanes %08x)" % (rb, rbeat, ba, got, exp, m), kind="r_data")
            if self.r_rid(S, I, O) != rid: self.report("axi.r_id", "R beat id %d, burst issued with id %d" % (self.r_rid(S, I, O), rid), kind="r_id")
            if self.r_rlast(S, I, O) != (1 if rbeat == ln else 0): self.report("axi.r_last", "RLAST=%d on beat %d of %d" % (self.r_rlast(S, I, O), rbeat, ln + 1), kind="r_last")
            if self.r_rresp(S, I, O) != 0: self.report("axi.r_resp", "R response not OKAY")
            self.cov["r_beats"] = self.cov.get("r_beats", 0) + 1
            rbeat += 1
            if rbeat > ln: rb += 1; rbeat = 0
        done = awn == len(self.writes) and wn == len(self.wbeats) and arn == len(self.reads) and bg == len(self.writes) and rb == len(self.reads)
        if done and not rs2[0]:
            mem = tuple(self.resp.mem_get(rs2[1], k) for k in range(NW))
            fin = self.mem_after[-1] if self.writes else self.mem0
            if mem != fin:
                self.report("axi.final_memory", "memory after all bursts %s, expected %s" % (["%08x" % x for x in mem], ["%08x" % x for x in fin]), kind="final_memory")
            self.cov["completed"] = self.cov.get("completed", 0) + 1
        ev = 0
        ao, wo, ro = self.opts(E)
        coop = ch == (ao[0], wo[0], ro[0], 1, 1, self.resp.default_choice(rs))
        if coop and not done: ev |= EV_OUT
        if prog: ev |= EV_PROG
        return (awn, awh, wn, wh, arn, arh, bg, rb, rbeat, nwd, rs2, h_lead, h_behind, h_resp), ev

    def lasso_detail(self, label, cycle_states, loop_choices):
        """fingerprint of a hang: which channel is owed what"""
        S, E = cycle_states[0]
        awn, awh, wn, wh, arn, arh, bg, rb, rbeat, nwd = E[:10]
        d = dict(rmw=self.rmw, w_led_aw=bool(E[11]), partial_behind_buffered=bool(E[12]), b_stalled_beyond_resp_buffer=bool(E[13]))
        all_data_in_memory = awn == len(self.writes) and wn == len(self.wbeats) and nwd >= len(self.wbeats)
        if all_data_in_memory and bg < len(self.writes):
            d["cause"] = "b_response_lost"; d["write_bursts_exceed_buffer_depth"] = len(self.writes) > self.depth
        elif rb < arn: d["cause"] = "r_beats_missing"
        else: d["cause"] = "other"
        return d

    def report(self, rule, msg, **detail):
        detail.update(self._hist)
        Harness.report(self, rule, msg, **detail)

    def coverage(self): return dict(self.cov)


def build(**kw): return AxiHarness(**kw)

LIVE = [("all bursts complete (cooperative environment)", EV_OUT, EV_PROG)]

F = 0xf
SCEN = {
    "incr2":        dict(writes=[(0x00, INCR, 1, 2, 1, (F, F))], reads=[(0x00, INCR, 1, 2, 0)]),
    "incr4-strb":   dict(writes=[(0x04, INCR, 3, 2, 1, (F, 0x3, 0xc, F))], reads=[(0x04, INCR, 3, 2, 1)]),
    "wrap4":        dict(writes=[(0x08, WRAP, 3, 2, 0, (F, F, F, F))], reads=[(0x0c, WRAP, 3, 2, 1)]),
    "fixed2":       dict(writes=[(0x04, FIXED, 1, 2, 1, (F, 0x1))], reads=[(0x04, FIXED, 1, 2, 0)]),
    "single-partial": dict(writes=[(0x00, INCR, 0, 2, 1, (0x5,))], reads=[(0x00, INCR, 0, 2, 1)]),
    "narrow-incr4": dict(writes=[(0x00, INCR, 3, 1, 1, (0x3, 0xc, 0x3, 0xc))], reads=[(0x00, INCR, 3, 1, 0)]),
    "narrow-wrap2": dict(writes=[(0x06, WRAP, 1, 1, 0, (0xc, 0x3))], reads=[(0x04, INCR, 0, 2, 1)]),
    "unaligned-incr2": dict(writes=[(0x02, INCR, 1, 2, 1, (0xc, F))], reads=[(0x00, INCR, 1, 2, 0)]),
    "2w2r":         dict(writes=[(0x00, INCR, 1, 2, 1, (F, F)), (0x10, INCR, 0, 2, 0, (F,))], reads=[(0x00, INCR, 1, 2, 0), (0x10, INCR, 0, 2, 1)]),
    "2w2r-overlap": dict(writes=[(0x00, INCR, 1, 2, 1, (F, 0x3)), (0x04, INCR, 0, 2, 0, (0xc,))], reads=[(0x04, INCR, 0, 2, 1), (0x00, INCR, 1, 2, 0)]),
    "r-then-w":     dict(writes=[(0x08, INCR, 1, 2, 1, (F, F))], reads=[(0x0c, INCR, 1, 2, 0), (0x08, INCR, 0, 2, 1)]),
    "full-then-partial": dict(writes=[(0x00, INCR, 1, 2, 1, (F, 0x1))], reads=[(0x00, INCR, 1, 2, 0)]),
    "partial-then-full": dict(writes=[(0x00, INCR, 1, 2, 0, (0x6, F))], reads=[(0x00, INCR, 1, 2, 1)]),
    "3w3r":         dict(writes=[(0x00, INCR, 1, 2, 1, (F, F)), (0x10, WRAP, 1, 2, 0, (F, 0x9)), (0x08, FIXED, 1, 2, 1, (0x3, 0xc))],
                         reads=[(0x00, INCR, 1, 2, 0), (0x14, WRAP, 1, 2, 1), (0x08, INCR, 0, 2, 0)]),
}


def configs(tier):
    cs = []
    def add(name, scen, max_states=3_000_000, **kw):
        d = dict(SCEN[scen]); d.update(kw); cs.append((name + "-" + scen, d, max_states))
    if tier == "quick":
        for s in ("incr2", "incr4-strb", "wrap4", "fixed2", "single-partial", "narrow-incr4", "narrow-wrap2", "2w2r", "r-then-w"):
            add("d2", s)
        add("d2-base0x40", "incr2", base_address=0x40)
        add("d2-streamport", "incr4-strb", decoupled=True)
        add("d2-streamport", "2w2r", decoupled=True)
        for s in ("incr2", "single-partial", "full-then-partial", "partial-then-full", "fixed2"):
            add("rmw-d2", s, rmw=True)
        add("d2-base0x10", "2w2r", base_address=0x10)                                # second burst lies beyond 2*base (base bit clear in its address)
        add("d1", "incr4-strb", depth=1); add("d1", "2w2r", depth=1); add("rmw-d1", "full-then-partial", depth=1, rmw=True)     # minimal buffers (a stream.Buffer, not a FIFO)
        add("rmw-d2-base0x40", "single-partial", rmw=True, base_address=0x40)       # base bit inside the native address range
        add("rmw-d2-base0x40", "full-then-partial", rmw=True, base_address=0x40)
    else:
        for s in SCEN:
            add("d2", s)
            add("rmw-d2", s, rmw=True)
        for s in ("incr4-strb", "2w2r", "3w3r"):
            add("d4", s, depth=4)
            add("rmw-d4", s, depth=4, rmw=True)
        add("d2-base0x40", "2w2r", base_address=0x40)
        for s in ("incr4-strb", "narrow-incr4", "unaligned-incr2", "2w2r-overlap"):
            add("rmw-d2-base0x40", s, rmw=True, base_address=0x40)
        add("d2-fastmem", "incr4-strb", wmin=1, rmin=1)
        for sc in ("wrap4", "narrow-incr4", "3w3r", "r-then-w"):
            add("d1", sc, depth=1)
        add("rmw-d2-base0x10", "2w2r-overlap", rmw=True, base_address=0x10); add("d2-base0x10", "3w3r", base_address=0x10)
    # base address shifts the scenario's AXI addresses
    out = []
    for name, d, ms in cs:
        b = d.get("base_address", 0)
        if b:
            d = dict(d); d["writes"] = [(w[0] + b,) + tuple(w[1:]) for w in d["writes"]]; d["reads"] = [(r[0] + b,) + tuple(r[1:]) for r in d["reads"]]
        out.append((name, d, ms))
    return out


def run(tier, seed, only=None):
    t0 = time.time()
    jobs = []
    for name, kw, ms in configs(tier):
        if only and only not in name: continue
        jobs.append((runner.mc_run, (PROP, "checks.c09", "build", kw), dict(name=name, tier=tier, seed=seed, max_states=ms, liveness=LIVE)))
    res = runner.run_jobs(jobs)
    return runner.finish(PROP, tier, seed, "model_checking", res, t0, ASSUME, RULE, technique="explicit-state BFS of the elaborated AXI bridge netlist per burst scenario, AXI-level reference memory")
