"""C20 - LPDDR4 / LPDDR5 PHY command encoding: every DFI command is emitted as the JEDEC CS/CA sequence that decodes to the same
operation and operands at the slot of its phase; only commands overlapping a multi-slot command in flight are suppressed.

DUT (LPDDR4): the per-phase DFIPhaseAdapters + CommandsPipeline wired exactly as LPDDR4PHY does (8 phases, span 4).
Oracle: an independent decoder of the serialized pin stream written from the JESD209-4 command truth table."""
import time, itertools
from engine import runner, fhdl
from engine.explore import Harness, Violation

PROP = "C20"
ASSUME = [
    "PHY variants: the adapter + CommandsPipeline netlist as LPDDR4PHY instantiates it, the same path inside the real single-rate LPDDR4SimPHY (lp4-simphy-*), and the real DoubleRateLPDDR4SimPHY "
    "(lp4-doublerate-*: its double-rate CS/CA pins must carry slots 0..3 then 4..7 of the single-rate word of the previous controller cycle; both clocks phase aligned, first edge after reset is a "
    "sys2x-only edge - the alignment serdes_reset_cnt = 0 is chosen for)",
    "LPDDR4: 8 DFI phases, CS/CA serialised 8 slots per controller cycle, commands span at most 4 slots (as LPDDR4PHY instantiates the adapters and the pipeline); masked-write selectable",
    "DFI encodings as documented by the adapters: ACT/RD/WR/PRE/REF/MRS standard; DFI ZQC with bank 0 = MPC (op = address[6:0]), bank 1 = MRR (MA = address[5:0]); MRW: MA = bank[5:0], OP = address[7:0]",
    "decoder written from the JEDEC truth table (CS-high cycle / CS-low cycle, CA0..CA5); 'V' (valid, don't care) bits are not compared",
    "slot rule: a command on phase p of cycle c occupies slots p..p+3 of the pin stream word c+1 (one register of latency); two-slot commands (PRECHARGE, REFRESH, MPC) sit on slots p+2, p+3",
    "suppression reference = the statement: a command is dropped iff a command that was actually sent started in one of the previous three slots",
    "operand coverage: all-zero, all-one, walking-1 and walking-0 over bank and address bits for every command type on every phase; slot coverage: every placement of up to 2 (quick) / 3 (thorough) commands per cycle, all pairs of consecutive cycles (the pipeline's state is a function of the previous cycle)",
]
RULE = ("BFS whose transitions are controller cycles: the choice is the DFI pattern of the cycle; the graph closes because the pipeline registers hold one cycle; every transition decodes the pin-stream word and compares the "
        "set of (slot, small command, operands) with the reference")

NPH = 8
TYPES = ("ACT", "RD", "WR", "PRE", "REF", "MRW", "MPC", "MRR", "ZQX", "NOPX")
# DFI encoding (cas_n, ras_n, we_n) and bank override
DFI = {"ACT": (1, 0, 1), "RD": (0, 1, 1), "WR": (0, 1, 0), "PRE": (1, 0, 0), "REF": (0, 0, 1), "MRW": (0, 0, 0), "MPC": (1, 1, 0), "MRR": (1, 1, 0), "ZQX": (1, 1, 0), "NOPX": (1, 1, 1)}


def bits(v, idx): return tuple((v >> i) & 1 for i in idx)


def expected_smalls(typ, bank, addr, masked):
    """JEDEC small commands a DFI command must produce: list of (slot offset, name, fields)"""
    ba = bits(bank, (0, 1, 2))
    if typ == "ACT":
        return [(0, "ACT-1", dict(ba=ba, r=bits(addr, (12, 13, 14, 15, 16, 10, 11)))), (2, "ACT-2", dict(r=bits(addr, range(0, 10))))]
    if typ == "RD":
        return [(0, "READ-1", dict(ba=ba, c9=(addr >> 9) & 1, ap=(addr >> 10) & 1)), (2, "CAS-2", dict(c=bits(addr, range(2, 9))))]
    if typ == "WR":
        return [(0, "MASK WRITE-1" if masked else "WRITE-1", dict(ba=ba, c9=(addr >> 9) & 1, ap=(addr >> 10) & 1)), (2, "CAS-2", dict(c=bits(addr, range(2, 9))))]
    if typ == "PRE": return [(2, "PRECHARGE", dict(ab=(addr >> 10) & 1, ba=ba))]
    if typ == "REF": return [(2, "REFRESH", dict(ab=(addr >> 10) & 1, ba=ba))]
    if typ == "MRW": return [(0, "MRW-1", dict(ma=bits(bank, range(6)), op7=(addr >> 7) & 1)), (2, "MRW-2", dict(op=bits(addr, range(0, 7))))]
    if typ == "MPC": return [(2, "MPC", dict(op=bits(addr, range(0, 7))))]
    if typ == "MRR": return [(0, "MRR-1", dict(ma=bits(addr, range(6)))), (2, "CAS-2", None)]       # CAS-2 operands are don't-care for MRR
    return []


def decode_small(hi, lo):
    """JESD209-4 command truth table: hi = CA[5:0] in the CS-high cycle, lo = CA[5:0] in the following CS-low cycle"""
    c = [(hi >> i) & 1 for i in range(6)]; d = [(lo >> i) & 1 for i in range(6)]
    if c[0] == 1:
        if c[1] == 0: return "ACT-1", dict(ba=tuple(d[0:3]), r=(c[2], c[3], c[4], c[5], d[3], d[4], d[5]))
        return "ACT-2", dict(r=(d[0], d[1], d[2], d[3], d[4], d[5], c[2], c[3], c[4], c[5]))
    key = tuple(c[0:5])
    if key == (0, 1, 1, 0, 0): return "MRW-1", dict(ma=tuple(d), op7=c[5])
    if key == (0, 1, 1, 0, 1): return "MRW-2", dict(op=tuple(d) + (c[5],))
    if key == (0, 1, 1, 1, 0): return "MRR-1", dict(ma=tuple(d))
    if key == (0, 0, 0, 1, 0): return "REFRESH", dict(ab=c[5], ba=tuple(d[0:3]))
    if key == (0, 0, 1, 0, 0): return "WRITE-1", dict(ba=tuple(d[0:3]), c9=d[4], ap=d[5])
    if key == (0, 0, 1, 1, 0): return "MASK WRITE-1", dict(ba=tuple(d[0:3]), c9=d[4], ap=d[5])
    if key == (0, 1, 0, 0, 0): return "READ-1", dict(ba=tuple(d[0:3]), c9=d[4], ap=d[5])
    if key == (0, 1, 0, 0, 1): return "CAS-2", dict(c=tuple(d) + (c[5],))
    if key == (0, 0, 0, 0, 1): return "PRECHARGE", dict(ab=c[5], ba=tuple(d[0:3]))
    if key == (0, 0, 0, 0, 0): return "MPC", dict(op=tuple(d) + (c[5],))
    return "UNKNOWN(%s)" % "".join(map(str, c)), {}


class Lp4Harness(Harness):
    def __init__(self, mode="slots", maxcmds=2, masked=True, extended=False, types=("ACT", "RD", "PRE"), phases=None, simphy=False):
        from migen import Module
        from litedram.phy.dfi import Interface as DFIInterface
        from litedram.phy.lpddr4.commands import DFIPhaseAdapter
        from litedram.phy.utils import CommandsPipeline
        self.masked = bool(masked); self.extended = bool(extended); self.mode = mode
        if simphy:
            # the command path inside the real single-rate LPDDR4SimPHY (DFI -> adapters -> CommandsPipeline -> out.cs/out.ca as the PHY wires it)
            from litedram.phy.lpddr4.simphy import LPDDR4SimPHY
            phy = LPDDR4SimPHY(sys_clk_freq=100e6, masked_write=bool(masked), extended_overlaps_check=bool(extended))
            phy.finalize()
            dfi = phy.dfi
            class _P: pass
            pipe = _P(); pipe.cs = phy.out.cs; pipe.ca = list(phy.out.ca)
            reads = [pipe.cs] + list(pipe.ca)
            self.c = c = fhdl.compile_harness(phy, reads, clocks={d: 10 for d in sorted(phy._fragment.sync.keys())}, ticksets=[("sys",)])
        else:
            dfi = DFIInterface(17, 6, 1, 16, nphases=NPH)

            class Top(Module):
                def __init__(s):
                    ad = [DFIPhaseAdapter(p, masked_write=bool(masked)) for p in dfi.phases]; s.submodules += ad
                    s.submodules.pipe = CommandsPipeline(ad, cs_ser_width=8, ca_ser_width=8, ca_nbits=6, cmd_nphases_span=4, extended_overlaps_check=bool(extended))
            top = Top()
            pipe = top.pipe
            reads = [pipe.cs] + list(pipe.ca)
            self.c = c = fhdl.compile_harness(top, reads)
        self.dfi = dfi
        ii = c.ii
        self.i_ph = [{f: ii[getattr(ph, f)] for f in ("cs_n", "ras_n", "cas_n", "we_n", "bank", "address")} for ph in dfi.phases]
        self.r_cs = c.rd(pipe.cs); self.r_ca = [c.rd(x) for x in pipe.ca]
        self.base = list(c.base_inputs)
        for d in self.i_ph:
            self.base[d["cs_n"]] = 1; self.base[d["ras_n"]] = 1; self.base[d["cas_n"]] = 1; self.base[d["we_n"]] = 1
        # alphabet of cycle patterns: tuple of (phase, type, bank, address)
        pats = [()]
        if mode == "operands":
            opsets = [(0, 0), (0x3f, 0x1ffff)] + [(1 << i, 0) for i in range(6)] + [(0, 1 << i) for i in range(17)] + [(0x3f ^ (1 << i), 0x1ffff) for i in range(6)] + [(0x3f, 0x1ffff ^ (1 << i)) for i in range(17)]
            for p in range(NPH):
                for t in TYPES:
                    for (b, a) in opsets:
                        if t == "MPC": b = 0
                        if t == "MRR": b = 1
                        if t == "ZQX": b = 2 | (b & 0x3c)
                        pats.append(((p, t, b, a),))
            pats = list(dict.fromkeys(pats))
        else:
            fixed = {"ACT": (5, 0x15a5a), "RD": (2, 0x00664), "WR": (3, 0x00298), "PRE": (6, 0x00400), "REF": (1, 0x00000), "MRW": (0x2a, 0x000c3), "MPC": (0, 0x4f), "MRR": (1, 0x11)}
            for k in range(1, maxcmds + 1):
                for phs in itertools.combinations(tuple(phases) if phases is not None else range(NPH), k):
                    for ts in itertools.product(types, repeat=k):
                        pats.append(tuple((p, t) + fixed[t] for p, t in zip(phs, ts)))
        self.pats = pats
        self.cov = {}

    # env: (prev pattern index, reference 'sent' flags of prev, 'masked only by the default rule' flags of prev,
    #       spill: expected small commands of older cycles that fall into the coming word (pos, name, fields, overmasked),
    #       carry slot (cs, ca) of the last output word, budget)
    def env0(self):
        return (0, (), (), (), (0, 0), 1 if self.mode == "operands" else -1, 0)

    def menu(self, S, E):
        if E[5] == 0: return [0]
        return list(range(len(self.pats)))

    def describe(self, ch):
        return [("ph%d %s bank=%x addr=%x" % x) for x in self.pats[ch]] or "idle"

    def drive(self, S, E, ch):
        I = list(self.base)
        for (p, t, b, a) in self.pats[ch]:
            d = self.i_ph[p]; cas, ras, we = DFI[t]
            I[d["cs_n"]] = 0; I[d["cas_n"]] = cas; I[d["ras_n"]] = ras; I[d["we_n"]] = we; I[d["bank"]] = b; I[d["address"]] = a
        return tuple(I)

    @staticmethod
    def real(t): return t not in ("ZQX", "NOPX")

    def sent_flags(self, pat, prev_pat, prev_sent):
        """reference suppression rule (the statement): a command is sent unless a command that was actually sent started in one of the
        previous three slots.  DFI codes that are no LPDDR4 command (ZQC with another bank code, DFI NOP) never count."""
        sent_at = {}
        for (p, t, b, a), s in zip(prev_pat, prev_sent):
            if s: sent_at[p - NPH] = True
        out = []
        for (p, t, b, a) in pat:
            ok = self.real(t) and not any(sent_at.get(q) for q in (p - 1, p - 2, p - 3))
            if ok: sent_at[p] = True
            out.append(ok)
        return tuple(out)

    def default_rule(self, pat, prev_pat):
        """what the pipeline does without extended_overlaps_check: masked if ANY DFI command (sent or not) was valid in the previous three phases"""
        val = {p - NPH for (p, t, b, a) in prev_pat if self.real(t)} | {p for (p, t, b, a) in pat if self.real(t)}
        return tuple(self.real(t) and not any((q in val) for q in (p - 1, p - 2, p - 3)) for (p, t, b, a) in pat)

    def observe(self, S, E, ch, I, O, S2):
        pi, ps, pover, spill, carry, bud, wm = E
        prev = self.pats[pi]
        cs = self.r_cs(S, I, O); ca = [r(S, I, O) for r in self.r_ca]
        slots = [((cs >> k) & 1, sum(((ca[b] >> k) & 1) << b for b in range(6))) for k in range(8)]
        # ---- decode the stream: carry slot (position -1) followed by slots 0..6; slot 7 is carried to the next cycle
        stream = [carry] + slots
        got = set()
        for k in range(0, 8):
            if stream[k][0]:
                name, f = decode_small(stream[k][1], stream[k + 1][1])
                if stream[k + 1][0]:
                    self.report("lp4.cs_high_twice", "CS high on two consecutive slots (%d, %d): two commands overlap on the pins" % (k - 1, k), kind="stream",
                                extended=self.extended, window_forgets_older_suppression=bool(wm))
                got.add((k - 1, name, tuple(sorted(f.items()))))
        # ---- reference: small commands of the commands sent in the previous cycle (slots p..p+3 of this word) + spill of older ones
        exp = {}
        nspill = []
        for (p, t, b, a), s, ov in zip(prev, ps, pover):
            if not s: continue
            for off, name, f in expected_smalls(t, b, a, self.masked):
                pos = p + off; ff = None if f is None else tuple(sorted(f.items()))
                if pos <= 6: exp[(pos, name, ff)] = ov
                else: nspill.append((pos - 8, name, ff, ov))
        for (pos, name, ff, ov) in spill: exp[(pos, name, ff)] = ov
        gotn = set()
        for (pos, name, f) in got:
            gotn.add((pos, name, None) if (pos, name, None) in exp else (pos, name, f))      # CAS-2 after MRR-1: operands are don't-care
        if gotn != set(exp):
            missing = sorted(set(exp) - gotn, key=repr); extra = sorted(gotn - set(exp), key=repr)
            only_over = bool(missing) and not extra and not self.extended and all(exp[m] for m in missing)
            self.report("lp4.stream_mismatch", "pin stream differs from the reference: missing %s, unexpected %s" % (missing[:3], extra[:3]),
                        kind="suppressed_after_suppressed_command" if only_over else "other", extended=self.extended, window_forgets_older_suppression=bool(wm))
        self.cov["small_commands_decoded"] = self.cov.get("small_commands_decoded", 0) + len(got)
        # ---- advance
        pat = self.pats[ch]
        sent = self.sent_flags(pat, prev, ps)
        dflt = self.default_rule(pat, prev)
        over = tuple(bool(s and not d) for s, d in zip(sent, dflt))
        if any(not s and self.real(t) for (p, t, b, a), s in zip(pat, sent)): self.cov["suppressed_by_reference"] = self.cov.get("suppressed_by_reference", 0) + 1
        if any(over): self.cov["masked_only_by_default_rule"] = self.cov.get("masked_only_by_default_rule", 0) + 1
        # extended_overlaps_check re-derives "was sent" for the previous cycle from that cycle's valid bits alone; when the truth depended on
        # a command two cycles back the two differ (history flag for the recorded finding; cleared by a cycle without commands)
        if not pat and not prev: wm = 0
        elif self.extended and self.sent_flags(prev, (), ()) != ps: wm = 1
        return (ch, sent, over, tuple(nspill), slots[7], bud - 1 if bud > 0 else bud, wm), 0

    def coverage(self): return dict(self.cov, patterns=len(self.pats))


# ================================================================================================ LPDDR4, double-rate variant

class Lp4DoubleRateHarness(Harness):
    """The real DoubleRateLPDDR4SimPHY: the single-rate command words (`_out.cs/_out.ca`, 8 slots per controller cycle - the stream the
    reference decoder of Lp4Harness judges) go through one 16:8-style serialisation stage clocked at twice the controller clock.  Oracle: the
    double-rate pins carry, one controller cycle later (Serializer.LATENCY), first slots 0..3 and then slots 4..7 of each word, on CS and on every
    CA line.  Clock convention: both clocks are phase aligned and the first edge after reset is a sys2x-only edge (serdes_reset_cnt = 0, the
    PHY's default, is chosen for exactly this alignment)."""
    multiclock = True

    def __init__(self, masked=True, types=("ACT", "PRE"), phases=(0, 3, 4, 7), maxcmds=2):
        from litedram.phy.lpddr4.simphy import DoubleRateLPDDR4SimPHY
        phy = DoubleRateLPDDR4SimPHY(sys_clk_freq=100e6, masked_write=bool(masked))
        phy.finalize()
        self.sigs2 = [phy.out.cs] + list(phy.out.ca); self.sigs1 = [phy._out.cs] + list(phy._out.ca)
        assert all(len(a) * 2 == len(b) for a, b in zip(self.sigs2, self.sigs1))
        self.half = len(phy.out.cs)
        self.c = c = fhdl.compile_harness(phy, self.sigs1 + self.sigs2, clocks={d: 10 for d in sorted(phy._fragment.sync.keys())}, ticksets=[("sys2x",), ("sys", "sys2x")])
        ii = c.ii
        self.i_ph = [{f: ii[getattr(ph, f)] for f in ("cs_n", "ras_n", "cas_n", "we_n", "bank", "address")} for ph in phy.dfi.phases]
        self.r2 = [c.rd(x) for x in self.sigs2]; self.r1 = [c.rd(x) for x in self.sigs1]
        self.base = list(c.base_inputs)
        for d in self.i_ph:
            self.base[d["cs_n"]] = 1; self.base[d["ras_n"]] = 1; self.base[d["cas_n"]] = 1; self.base[d["we_n"]] = 1
        fixed = {"ACT": (5, 0x15a5a), "RD": (2, 0x00664), "WR": (3, 0x00298), "PRE": (6, 0x00400), "REF": (1, 0x00000), "MRW": (0x2a, 0x000c3), "MPC": (0, 0x4f), "MRR": (1, 0x11)}
        pats = [()]
        for k in range(1, maxcmds + 1):
            for phs in itertools.combinations(tuple(phases), k):
                for ts in itertools.product(types, repeat=k):
                    pats.append(tuple((p, t) + fixed[t] for p, t in zip(phs, ts)))
        self.pats = pats; self.cov = {}

    # env: (half of the controller cycle: 0 = after the common edge, 1 = after the sys2x-only edge; pattern held this cycle; words latched at the last common edge)
    def env0(self): return (0, 0, tuple(0 for _ in self.sigs1))

    def menu(self, S, E):
        return list(range(len(self.pats))) if E[0] == 0 else [E[1]]

    def describe(self, ch): return [("ph%d %s bank=%x addr=%x" % x) for x in self.pats[ch]] or "idle"

    def drive(self, S, E, ch):
        I = list(self.base)
        for (p, t, b, a) in self.pats[ch]:
            d = self.i_ph[p]; cas, ras, we = DFI[t]
            I[d["cs_n"]] = 0; I[d["cas_n"]] = cas; I[d["ras_n"]] = ras; I[d["we_n"]] = we; I[d["bank"]] = b; I[d["address"]] = a
        return tuple(I), (("sys2x",) if E[0] == 0 else ("sys", "sys2x"))

    def observe(self, S, E, ch, I, O, S2):
        half, pat, latched = E
        m = (1 << self.half) - 1
        for k, r in enumerate(self.r2):
            got = r(S, I, O); want = (latched[k] >> (self.half * half)) & m
            if got != want:
                self.report("lp4.double_rate_mismatch", "%s at double rate carries %x in the %s half of the cycle, the single-rate word of the previous cycle is %02x (slots %s expected)" % (
                    "CS" if k == 0 else "CA%d" % (k - 1), got, "second" if half else "first", latched[k], "4..7" if half else "0..3"), kind="double_rate")
                break
        if half == 1:
            latched = tuple(r(S, I, O) for r in self.r1)      # the words the serialisers latch at the coming common edge
            if any(latched): self.cov["nonidle_words"] = self.cov.get("nonidle_words", 0) + 1
        return (1 - half, ch, latched), 0

    def coverage(self): return dict(self.cov, patterns=len(self.pats))


def build_dr(**kw):
    if "types" in kw: kw["types"] = tuple(kw["types"])
    if kw.get("phases") is not None: kw["phases"] = tuple(kw["phases"])
    return Lp4DoubleRateHarness(**kw)


# ================================================================================================ LPDDR5

def lp5_expected(typ, bank, addr, masked):
    """JESD209-5 commands a DFI command must produce: (first CK cycle, second CK cycle); None = DESELECT"""
    ba = bits(bank, (0, 1, 2, 3)); col = lambda: dict(ba=ba, c=bits(addr, (4, 5, 6, 7, 8, 9)), ap=(addr >> 10) & 1)
    if typ == "ACT": return (("ACT-1", dict(ba=ba, r=bits(addr, (14, 15, 16, 17, 11, 12, 13)))), ("ACT-2", dict(r=bits(addr, range(0, 11)))))
    if typ == "RD": return (("CAS", None), ("RD16", col()))
    if typ == "WR": return (("CAS", None), ("MWR" if masked else "WR16", col()))
    if typ == "PRE": return (None, ("PRE", dict(ba=ba, ab=(addr >> 10) & 1)))
    if typ == "REF": return (None, ("REF", dict(ba=ba[:3], ab=(addr >> 10) & 1)))
    if typ == "MRW": return (("MRW-1", dict(ma=bits(bank, range(7)))), ("MRW-2", dict(op=bits(addr, range(8)))))
    if typ == "MPC": return (None, ("MPC", dict(op=bits(addr if (addr & 0x3ffff) else 0b10000110, range(8)))))
    if typ == "MRR": return (("CAS", None), ("MRR", dict(ma=bits(addr, range(7)))))
    if typ == "NOP5": return (None, ("NOP", {}))
    return None


def lp5_decode(p, n):
    """JESD209-5 command truth table: p = CA[6:0] at the CK rising edge, n = CA[6:0] at the falling edge (CS high)"""
    c = [(p >> i) & 1 for i in range(7)]; d = [(n >> i) & 1 for i in range(7)]
    if c[0:3] == [1, 1, 1]: return "ACT-1", dict(ba=tuple(d[0:4]), r=(c[3], c[4], c[5], c[6], d[4], d[5], d[6]))
    if c[0:3] == [1, 1, 0]: return "ACT-2", dict(r=tuple(d) + (c[3], c[4], c[5], c[6]))
    colf = lambda: dict(ba=tuple(d[0:4]), c=(c[3], d[4], d[5], c[4], c[5], c[6]), ap=d[6])
    if c[0:3] == [0, 1, 0]: return "MWR", colf()
    if c[0:3] == [0, 1, 1]: return "WR16", colf()
    if c[0:3] == [1, 0, 0]: return "RD16", colf()
    if c[0:3] == [1, 0, 1]: return "RD32", colf()
    if c[0:4] == [0, 0, 1, 1]: return "CAS", {}
    if c[0:4] == [0, 0, 1, 0]: return "WR32", {}
    key = tuple(c)
    if key == (0, 0, 0, 1, 1, 1, 1): return "PRE", dict(ba=tuple(d[0:4]), ab=d[6])
    if key == (0, 0, 0, 1, 1, 1, 0): return "REF", dict(ba=tuple(d[0:3]), ab=d[6])
    if key[0:6] == (0, 0, 0, 0, 1, 1): return "MPC", dict(op=tuple(d) + (c[6],))
    if key == (0, 0, 0, 1, 1, 0, 1): return "MRW-1", dict(ma=tuple(d))
    if key[0:6] == (0, 0, 0, 1, 0, 0): return "MRW-2", dict(op=tuple(d) + (c[6],))
    if key == (0, 0, 0, 1, 1, 0, 0): return "MRR", dict(ma=tuple(d))
    if key == (0, 0, 0, 0, 0, 0, 0): return "NOP", {}
    return "UNKNOWN(%s)" % "".join(map(str, c)), {}


LP5_DFI = dict(DFI, NOP5=(1, 1, 0))
LP5_TYPES = ("ACT", "RD", "WR", "PRE", "REF", "MRW", "MPC", "MRR", "NOP5", "ZQX", "NOPX")


class Lp5Harness(Harness):
    """LPDDR5SimPHY command path (DFI phase adapter + the PHY's command buffer); one DFI phase, one CK cycle per controller cycle"""

    def __init__(self, mode="operands", masked=True, types=("ACT", "RD", "PRE", "MRW")):
        from litedram.phy.lpddr5.simphy import LPDDR5SimPHY
        phy = LPDDR5SimPHY(sys_clk_freq=100e6, masked_write=bool(masked))
        phy.finalize()
        self.masked = bool(masked); self.mode = mode
        clocks = {d: 10 for d in sorted(phy._fragment.sync.keys())}
        reads = [phy.out.cs] + list(phy.out.ca)
        self.c = c = fhdl.compile_harness(phy, reads, clocks=clocks, ticksets=[("sys",)])
        p0 = phy.dfi.p0; ii = c.ii
        self.i = {f: ii[getattr(p0, f)] for f in ("cs_n", "ras_n", "cas_n", "we_n", "bank", "address")}
        self.r_cs = c.rd(phy.out.cs); self.r_ca = [c.rd(x) for x in phy.out.ca]
        self.base = list(c.base_inputs)
        for f in ("cs_n", "ras_n", "cas_n", "we_n"): self.base[self.i[f]] = 1
        pats = [None]
        if mode == "operands":
            opsets = [(0, 0), (0x7f, 0x3ffff)] + [(1 << i, 0) for i in range(7)] + [(0, 1 << i) for i in range(18)] + [(0x7f ^ (1 << i), 0x3ffff) for i in range(7)] + [(0x7f, 0x3ffff ^ (1 << i)) for i in range(18)]
            for t in LP5_TYPES:
                for (b, a) in opsets:
                    if t == "MPC": b = 0
                    if t == "MRR": b = 1
                    if t == "NOP5": b = 2
                    if t == "ZQX": b = 3 | (b & 0x78)
                    pats.append((t, b, a))
            pats = list(dict.fromkeys(pats))
        else:
            fixed = {"ACT": (5, 0x2d5a5), "RD": (9, 0x00664), "WR": (3, 0x00298), "PRE": (6, 0x00400), "REF": (1, 0x00000), "MRW": (0x55, 0x000c3), "MPC": (0, 0x85), "MRR": (1, 0x2b), "NOP5": (2, 0)}
            pats += [(t,) + fixed[t] for t in types]
        self.pats = pats
        self.cov = {}

    # env: (second half owed from the previous cycle: (name, fields) / None / "none-owed", was a command sent in the previous cycle, budget)
    def env0(self):
        return ((), 0, 1 if self.mode == "operands" else -1)

    def menu(self, S, E):
        if E[2] == 0: return [0]
        return list(range(len(self.pats)))

    def describe(self, ch):
        x = self.pats[ch]
        return "idle" if x is None else "%s bank=%x addr=%x" % x

    def drive(self, S, E, ch):
        I = list(self.base)
        x = self.pats[ch]
        if x is not None:
            t, b, a = x; cas, ras, we = LP5_DFI[t]
            I[self.i["cs_n"]] = 0; I[self.i["cas_n"]] = cas; I[self.i["ras_n"]] = ras; I[self.i["we_n"]] = we; I[self.i["bank"]] = b; I[self.i["address"]] = a
        return tuple(I)

    def observe(self, S, E, ch, I, O, S2):
        owed, busy, bud = E
        cs = self.r_cs(S, I, O); ca = [r(S, I, O) for r in self.r_ca]
        p = sum((ca[b] & 1) << b for b in range(7)); n = sum(((ca[b] >> 1) & 1) << b for b in range(7))
        got = lp5_decode(p, n) if cs else None
        x = self.pats[ch]
        exp_pair = None
        if x is not None and not busy:
            exp_pair = lp5_expected(x[0], x[1], x[2], self.masked)       # None for DFI codes that are no LPDDR5 command
        # what must be on the pins now: the second half of the command sent in the previous cycle, else the first half of a command starting now
        if busy: want = owed[0] if owed else None
        else: want = exp_pair[0] if exp_pair else None
        def same(g, w):
            if w is None: return g is None
            if g is None: return False
            return g[0] == w[0] and (w[1] is None or all(g[1].get(k) == v for k, v in dict(w[1]).items()))
        if not same(got, want):
            self.report("lp5.stream_mismatch", "CK cycle carries %s, reference %s" % (got, want), kind="suppressed" if (x is not None and busy and False) else "other")
        if got: self.cov["commands_decoded"] = self.cov.get("commands_decoded", 0) + 1
        if busy:
            if x is not None: self.cov["ignored_second_cycle"] = self.cov.get("ignored_second_cycle", 0) + 1
            nowed, nbusy = (), 0
        elif exp_pair:
            nm, f = exp_pair[1]
            nowed, nbusy = ((nm, None if f is None else tuple(sorted(f.items()))),), 1
        else:
            nowed, nbusy = (), 0
        return (nowed, nbusy, bud - 1 if bud > 0 else bud), 0

    def coverage(self): return dict(self.cov, patterns=len(self.pats))


def build5(**kw):
    if "types" in kw: kw["types"] = tuple(kw["types"])
    return Lp5Harness(**kw)


def build(**kw):
    if "types" in kw: kw["types"] = tuple(kw["types"])
    if kw.get("phases") is not None: kw["phases"] = tuple(kw["phases"])
    return Lp4Harness(**kw)


def configs(tier):
    cs = []
    def add(name, max_states=3_000_000, fac="build", **kw): cs.append((name, kw, max_states, fac))
    add("lp5-operands-masked", fac="build5", mode="operands", masked=True)
    add("lp5-operands-unmasked", fac="build5", mode="operands", masked=False)
    add("lp5-sequences", fac="build5", mode="seq", types=["ACT", "RD", "WR", "PRE", "REF", "MRW", "MPC", "MRR", "NOP5"])
    add("lp4-operands-masked", mode="operands", masked=True)
    add("lp4-operands-unmasked", mode="operands", masked=False)
    add("lp4-slots-2cmds-act", mode="slots", maxcmds=2, types=["ACT"])
    add("lp4-slots-2cmds-act-extended", mode="slots", maxcmds=2, types=["ACT"], extended=True)
    add("lp4-slots-2cmds-pre", mode="slots", maxcmds=2, types=["PRE"])
    add("lp4-slots-2cmds-act-pre-5phases", mode="slots", maxcmds=2, types=["ACT", "PRE"], phases=[0, 1, 3, 5, 7])
    add("lp4-slots-2cmds-rd-mrw-5phases", mode="slots", maxcmds=2, types=["RD", "MRW"], phases=[0, 2, 4, 6, 7], extended=True)
    # the same reference on the command path inside the real single-rate sim PHY, and the serialisation stage of the double-rate PHY
    add("lp4-simphy-operands-masked", mode="operands", masked=True, simphy=True)
    add("lp4-simphy-slots-2cmds-act-pre-5phases", mode="slots", maxcmds=2, types=["ACT", "PRE"], phases=[0, 1, 3, 5, 7], simphy=True)
    add("lp4-doublerate-act-pre", fac="build_dr", types=["ACT", "PRE"], phases=[0, 3, 4, 7], maxcmds=2)
    add("lp4-doublerate-rd-mrw-unmasked", fac="build_dr", types=["RD", "MRW"], phases=[1, 2, 5, 6], maxcmds=2, masked=False)
    if tier == "thorough":
        add("lp4-doublerate-wr-ref-mpc", fac="build_dr", types=["WR", "REF", "MPC"], phases=[0, 2, 4, 6, 7], maxcmds=2)
        add("lp4-simphy-slots-2cmds-rd-mrw-extended", mode="slots", maxcmds=2, types=["RD", "MRW"], phases=[0, 2, 4, 6, 7], extended=True, simphy=True)
        # the pipeline holds two cycles of history, so a slot graph has about P^2 states and P^3 transitions for P cycle patterns: the
        # alphabets below keep P near 130 (about 2.1M transitions each); each job also has a wall-clock cap (reported as CAPPED if hit)
        add("lp4-slots-2cmds-act-pre", mode="slots", maxcmds=2, types=["ACT", "PRE"])
        add("lp4-slots-2cmds-act-pre-extended", mode="slots", maxcmds=2, types=["ACT", "PRE"], extended=True)
        add("lp4-slots-2cmds-rd-mrw", mode="slots", maxcmds=2, types=["RD", "MRW"])
        add("lp4-slots-2cmds-wr-ref", mode="slots", maxcmds=2, types=["WR", "REF"])
        add("lp4-slots-2cmds-mpc-mrr-extended", mode="slots", maxcmds=2, types=["MPC", "MRR"], extended=True)
        add("lp4-slots-3cmds-act-pre-6phases", mode="slots", maxcmds=3, types=["ACT", "PRE"], phases=[0, 1, 2, 4, 6, 7])
        add("lp4-slots-3cmds-act-6phases-extended", mode="slots", maxcmds=3, types=["ACT"], phases=[0, 1, 3, 4, 5, 7], extended=True)
    return cs


def run(tier, seed, only=None):
    t0 = time.time()
    jobs = []
    for name, kw, ms, fac in configs(tier):
        if only and only not in name: continue
        jobs.append((runner.mc_run, (PROP, "checks.c20", fac, kw), dict(name=name, tier=tier, seed=seed, max_states=ms, time_limit=(None if tier == "quick" else 1500))))
    res = runner.run_jobs(jobs)
    return runner.finish(PROP, tier, seed, "model_checking", res, t0, ASSUME, RULE, technique="explicit-state BFS of the elaborated adapter+pipeline netlist with an independent JEDEC pin-stream decoder")
