"""Builds the whole memory core (real LiteDRAMCrossbar + LiteDRAMController from /repo) for small configurations."""
from migen import *
from litedram.common import *
from litedram.core.controller import ControllerSettings, LiteDRAMController
from litedram.core.crossbar import LiteDRAMCrossbar


def make_core(nphases=1, memtype="SDR", bankbits=1, rowbits=11, colbits=8, databits=16, nports=1,
              cmd_buffer_depth=2, buffered=False, auto_precharge=True, postponing=1,
              timing=None, read_time=4, write_time=4, cl=2, cwl=None, rdphase=0, wrphase=0,
              read_latency=2, write_latency=0, nranks=1, with_refresh=True, zqcs_freq=1e0, clk_freq=100e6,
              bank_byte_alignment=0, port_kwargs=None, phase_signals=False):
    assert max(rowbits, colbits) >= 11, "A10 must exist on the DFI address bus (DESIGN 3.6)"
    if phase_signals:
        # PHYs with software-programmable read/write phases (S7DDRPHY, USDDRPHY) hand the controller Signals (CSR storage), not ints: the
        # multiplexer then elaborates its dynamic-phase branch.  Undriven here, so they hold their reset value.
        rdphase = Signal(max=max(nphases, 2), reset=rdphase); wrphase = Signal(max=max(nphases, 2), reset=wrphase)
    phy = PhySettings(phytype="verif", memtype=memtype, databits=databits,
                      dfi_databits=databits if memtype == "SDR" else 2 * databits,
                      nphases=nphases, rdphase=rdphase, wrphase=wrphase, cl=cl, cwl=cwl,
                      read_latency=read_latency, write_latency=write_latency, nranks=nranks)
    geom = GeomSettings(bankbits=bankbits, rowbits=rowbits, colbits=colbits)
    t = dict(tRP=2, tRCD=2, tWR=2, tWTR=2, tREFI=100, tRFC=4, tFAW=None, tCCD=1, tRRD=None, tRC=5, tRAS=3, tZQCS=None)
    if isinstance(timing, TimingSettings):
        tim = timing
    else:
        if timing: t.update(timing)
        tim = TimingSettings(**t)
    cs = ControllerSettings(cmd_buffer_depth=cmd_buffer_depth, cmd_buffer_buffered=buffered, read_time=read_time,
                            write_time=write_time, with_auto_precharge=auto_precharge, refresh_postponing=postponing,
                            with_refresh=with_refresh, refresh_zqcs_freq=zqcs_freq, bank_byte_alignment=bank_byte_alignment)

    class Core(Module):
        def __init__(self):
            self.submodules.controller = LiteDRAMController(phy, geom, tim, clk_freq, cs)
            self.submodules.crossbar = LiteDRAMCrossbar(self.controller.interface)
            self.ports = [self.crossbar.get_port(**(port_kwargs or {})) for _ in range(nports)]
            # harness-side only: remember the per-bank arbiters the crossbar creates while finalizing (they are anonymous submodules)
            xb = self.crossbar; orig = xb.do_finalize
            def do_finalize_and_capture():
                orig()
                # duck-typed (any arbiter implementation with request/grant/ce signals, in creation order = bank order); used only to name the
                # cause of a starvation lasso, never by an oracle
                xb.verif_arbiters = [m for (_, m) in xb._submodules if all(hasattr(m, a) for a in ("request", "grant", "ce"))]
            xb.do_finalize = do_finalize_and_capture
            xb.finalize()
            self.dfi = self.controller.dfi
            self.phy_settings = phy; self.geom = geom; self.timing = tim; self.csettings = cs
    return Core()
