#!/venv/bin/python
"""Independent demonstration (plain migen simulation) of the C09 defect repaired by the /repo commit
"fix: AXI write path works with a one-entry write buffer".

LiteDRAMAXI2Native(w_buffer_depth=1): LiteX builds a 1-deep stream.SyncFIFO as a plain Buffer whose `level` is a constant 0, and the write
path only issues a native command while `w_buffer.level > commands already issued` - so with a one-entry buffer no write command is ever
issued: the first AXI write hangs for ever (the data beat sits in the buffer, no B response).  Depth 2 works.
usage: c09_w_buffer_depth1_demo.py [repo_dir]    exit 0 = every depth completes its writes and reads them back."""
import sys
sys.path.insert(0, sys.argv[1] if len(sys.argv) > 1 else "/repo")
from migen import *
from litedram.common import LiteDRAMNativePort
from litedram.frontend.axi import LiteDRAMAXIPort, LiteDRAMAXI2Native


def run(depth):
    axi = LiteDRAMAXIPort(data_width=32, address_width=16, id_width=2); port = LiteDRAMNativePort("both", 14, 32)
    dut = LiteDRAMAXI2Native(axi, port, w_buffer_depth=depth, r_buffer_depth=depth)
    mem = {}; got = []; state = dict(b=0)

    def master():
        for k in range(3):
            yield axi.aw.valid.eq(1); yield axi.aw.addr.eq(4 * k); yield axi.aw.len.eq(0); yield axi.aw.size.eq(2); yield axi.aw.burst.eq(1); yield axi.aw.id.eq(k + 1)
            yield axi.w.valid.eq(1); yield axi.w.data.eq(0x1000 + k); yield axi.w.strb.eq(15); yield axi.w.last.eq(1)
            aw = w = False
            for _ in range(200):
                yield
                if not aw and (yield axi.aw.ready): aw = True; yield axi.aw.valid.eq(0)
                if not w and (yield axi.w.ready): w = True; yield axi.w.valid.eq(0)
                if aw and w: break
            yield axi.aw.valid.eq(0); yield axi.w.valid.eq(0)
            for _ in range(200):
                if state["b"] > k: break
                yield
        for k in range(3):
            yield axi.ar.valid.eq(1); yield axi.ar.addr.eq(4 * k); yield axi.ar.len.eq(0); yield axi.ar.size.eq(2); yield axi.ar.burst.eq(1)
            for _ in range(200):
                yield
                if (yield axi.ar.ready): break
            yield axi.ar.valid.eq(0)
            for _ in range(200):
                if len(got) > k: break
                yield

    from migen.sim import passive
    @passive
    def responses():
        yield axi.b.ready.eq(1); yield axi.r.ready.eq(1)
        while True:
            yield
            if (yield axi.b.valid): state["b"] += 1
            if (yield axi.r.valid): got.append((yield axi.r.data))

    @passive
    def memory():
        q = []
        yield port.cmd.ready.eq(1)
        while True:
            yield
            yield port.wdata.ready.eq(0); yield port.rdata.valid.eq(0)
            if (yield port.cmd.valid) and (yield port.cmd.ready): q.append([(yield port.cmd.we), (yield port.cmd.addr), 4])
            for e in q: e[2] -= 1
            if q and q[0][2] <= 0:
                we, a, _ = q[0]
                if we:
                    yield port.wdata.ready.eq(1); yield
                    mem[a] = (yield port.wdata.data); q.pop(0); yield port.wdata.ready.eq(0)
                else:
                    yield port.rdata.valid.eq(1); yield port.rdata.data.eq(mem.get(a, 0)); q.pop(0)

    run_simulation(dut, [master(), responses(), memory()])
    return state["b"], got


ok = True
for depth in (1, 2, 4, 16):
    b, got = run(depth)
    good = b == 3 and got == [0x1000, 0x1001, 0x1002]
    print("w/r buffer depth %2d: %d of 3 write responses, read back %s -> %s" % (depth, b, [hex(x) for x in got], "ok" if good else "WRONG"))
    ok &= good
print("PASS" if ok else "FAIL")
sys.exit(0 if ok else 1)
