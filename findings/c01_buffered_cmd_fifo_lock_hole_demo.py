#!/usr/bin/env python3
# Demo for mutation 2 (C01: every read returns the last bytes written to that address, whole core).
#
# Whole memory core = LiteDRAMCrossbar + LiteDRAMController (bank machines, multiplexer, refresher)
# + the repository's own DFI-level SDRAM model (litedram.phy.model.SDRAMPHYModel), SDR 1:1.
# One native port; the master holds every command until accepted, offers write data ahead of the
# write command and always accepts read data.  All read data are compared with a trivial
# reference memory that is updated in command acceptance order.
#
# Prints PASS / exits 0 when all reads match, prints FAIL / exits 1 otherwise.

import os
import sys

sys.path.insert(0, "/repo")
os.chdir("/repo")

from migen import *

import litedram
assert litedram.__file__.startswith("/repo/"), litedram.__file__

from litedram.modules import SDRModule, _TechnologyTimings, _SpeedgradeTimings


class TinySDR(SDRModule):
    # Small SDR SDRAM (timings of MT48LC4M16) so that the simulation memory stays small.
    # 2048 rows -> 11 address bits, i.e. A10 exists on the address bus as on any real SDRAM.
    nbanks = 4
    nrows  = 2048
    ncols  = 16
    technology_timings = _TechnologyTimings(tREFI=64e6/8192, tWTR=(2, None), tCCD=(1, None), tRRD=None)
    speedgrade_timings = {"default": _SpeedgradeTimings(tRP=15, tRCD=15, tWR=14, tRFC=(None, 66), tFAW=None, tRAS=None)}
from litedram.phy.model import SDRAMPHYModel
from litedram.core.controller import ControllerSettings, LiteDRAMController
from litedram.core.crossbar import LiteDRAMCrossbar


class DUT(Module):
    def __init__(self, **controller_kwargs):
        clk_freq = 100e6
        module   = TinySDR(clk_freq, "1:1")  # SDR, 4 banks, 2048 rows, 16 cols
        self.geom = module.geom_settings
        self.submodules.phy = phy = SDRAMPHYModel(module, data_width=16, clk_freq=clk_freq)
        self.submodules.controller = controller = LiteDRAMController(
            phy_settings        = phy.settings,
            geom_settings       = module.geom_settings,
            timing_settings     = module.timing_settings,
            clk_freq            = clk_freq,
            controller_settings = ControllerSettings(**controller_kwargs))
        self.comb += controller.dfi.connect(phy.dfi)
        self.submodules.crossbar = crossbar = LiteDRAMCrossbar(controller.interface)
        self.port = crossbar.get_port()

    def addr(self, bank, row, col):
        # ROW_BANK_COL mapping, SDR 1:1 -> no burst alignment bits.
        cb, bb = self.geom.colbits, self.geom.bankbits
        return (row << (cb + bb)) | (bank << cb) | col


def run(ops, timeout=3000, **controller_kwargs):
    """ops: list of dicts(we, bank, row, col, data, be, idle)

    idle=N: before presenting this command wait until everything issued before has completed
    and then keep the command interface idle for N more cycles.
    """
    dut  = DUT(**controller_kwargs)
    port = dut.port
    nbytes = len(port.wdata.we)

    wqueue   = [(op["data"], op.get("be", 2**nbytes - 1)) for op in ops if op["we"]]
    n_writes = len(wqueue)
    n_reads  = len([op for op in ops if not op["we"]])
    reads    = []   # data returned by the core, in order
    expected = []   # data expected by the reference memory, in command acceptance order
    ref      = {}   # reference memory: address -> list of bytes
    state    = {"wdone": 0, "cmds_done": False}

    def ref_access(op):
        a = dut.addr(op["bank"], op["row"], op["col"])
        cur = ref.setdefault(a, [0]*nbytes)  # the model's initial contents are 0
        if op["we"]:
            be = op.get("be", 2**nbytes - 1)
            for i in range(nbytes):
                if (be >> i) & 1:
                    cur[i] = (op["data"] >> (8*i)) & 0xff
        else:
            expected.append(sum(b << (8*i) for i, b in enumerate(cur)))

    def cmd_gen():
        issued_w = issued_r = 0
        for op in ops:
            if op.get("idle") is not None:
                yield port.cmd.valid.eq(0)
                yield
                while state["wdone"] < issued_w or len(reads) < issued_r:
                    yield
                for _ in range(op["idle"]):
                    yield
            yield port.cmd.valid.eq(1)
            yield port.cmd.we.eq(op["we"])
            yield port.cmd.addr.eq(dut.addr(op["bank"], op["row"], op["col"]))
            yield
            while not (yield port.cmd.ready):   # hold the command until it is accepted
                yield
            ref_access(op)
            if op["we"]:
                issued_w += 1
            else:
                issued_r += 1
        yield port.cmd.valid.eq(0)
        state["cmds_done"] = True
        while state["wdone"] < n_writes or len(reads) < n_reads:
            yield
        for _ in range(20):
            yield

    @passive
    def wdata_gen():
        # Write data are offered (in command order) before the commands and held until taken.
        while True:
            if wqueue:
                data, be = wqueue[0]
                yield port.wdata.valid.eq(1)
                yield port.wdata.data.eq(data)
                yield port.wdata.we.eq(be)
                yield
                while not (yield port.wdata.ready):
                    yield
                wqueue.pop(0)
                state["wdone"] += 1
                if not wqueue:
                    yield port.wdata.valid.eq(0)
            else:
                yield

    @passive
    def rdata_gen():
        yield port.rdata.ready.eq(1)            # always accept read data
        while True:
            if (yield port.rdata.valid):
                reads.append((yield port.rdata.data))
            yield

    @passive
    def timeout_gen():
        for _ in range(timeout):
            yield
        raise TimeoutError("simulation timeout: reads=%d/%d writes=%d/%d" % (
            len(reads), n_reads, state["wdone"], n_writes))

    run_simulation(dut, [cmd_gen(), wdata_gen(), rdata_gen(), timeout_gen()])
    return reads, expected


def main():
    W = lambda bank, row, col, data, **kw: dict(we=1, bank=bank, row=row, col=col, data=data, **kw)
    R = lambda bank, row, col, **kw:       dict(we=0, bank=bank, row=row, col=col, data=None, **kw)
    ops = [
        # Open row 0 of bank 1 and row 0 of bank 2 and leave them open.
        W(1, 0, 0, 0x1111),
        W(2, 0, 0, 0x2222, idle=4),
        # Back-to-back writes to two different banks: the first one needs an ACTIVATE (bank 0 is
        # closed, slow), the second one hits the open row of bank 1 (fast).
        W(0, 3, 0, 0xaaaa, idle=16),
        W(1, 0, 1, 0xbbbb),
        # Read everything back (one at a time).
        R(0, 3, 0, idle=16),
        R(1, 0, 1, idle=4),
        R(1, 0, 0, idle=4),
        # Back-to-back reads to two different banks: first a row miss in bank 0 (PRECHARGE +
        # ACTIVATE, slow), then a row hit in bank 2 (fast).  Data must come back in command order.
        W(0, 9, 2, 0xcccc, idle=4),
        W(0, 3, 1, 0xdddd, idle=16),
        R(0, 9, 2, idle=16),
        R(2, 0, 0),
    ]
    ok = True
    for kwargs in [dict(), dict(cmd_buffer_buffered=True), dict(cmd_buffer_buffered=True, cmd_buffer_depth=4)]:
        try:
            reads, expected = run(ops, **kwargs)
        except TimeoutError as e:
            print("settings", kwargs, ":", e)
            ok = False
            continue
        print("settings", kwargs)
        print("  read data :", ["0x%04x" % d for d in reads])
        print("  expected  :", ["0x%04x" % d for d in expected])
        if reads != expected:
            ok = False
    print("PASS" if ok else "FAIL")
    sys.exit(0 if ok else 1)


if __name__ == "__main__":
    main()
