"""Independent demonstration (plain migen.sim, the repository's own FIFODUT + DRAMMemory from test/): a stream whose length is
not a multiple of the width ratio (4) comes out of LiteDRAMFIFO(with_bypass=True) with extra all-zero words.
run:  cd /repo && /venv/bin/python /verif/findings/c13_fifo_partial_word_demo.py"""
import sys
sys.path.insert(0, "/repo")
from migen import *
from test.test_fifo import FIFODUT
from test.common import *


def run(nwords, stall):
    dut = FIFODUT(base=16, depth=32, data_width=8, with_bypass=True)
    out = []
    def gen(dut):
        for i in range(nwords):
            yield from dut.write(0x10 + i)
    def chk(dut):
        for i in range(stall): yield
        yield dut.fifo.source.ready.eq(1)
        yield
        for i in range(300):
            if (yield dut.fifo.source.valid):
                out.append((yield dut.fifo.source.data))
            yield
    run_simulation(dut, [gen(dut), chk(dut), dut.memory.write_handler(dut.write_port), dut.memory.read_handler(dut.read_port), timeout_generator(1000)])
    return out

bad = 0
for n in (40, 41, 42, 43, 44, 45):
    o = run(n, 150)
    exp = [0x10 + i for i in range(n)]
    ok = o == exp
    bad += not ok
    print(n, "words in:", "OK" if ok else "MISMATCH: %d words out, tail %s" % (len(o), [hex(x) for x in o[n - 2:]]))
sys.exit(1 if bad else 0)
