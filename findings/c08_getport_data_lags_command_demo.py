#!/usr/bin/env python3
"""Independent demonstration of known finding C08-getport-data-lags-command (plain migen.sim, the repository own CrossbarDUT/ControllerStub/NativePortDriver).
different from the controller's one must keep plain memory semantics.

The port is obtained through the public API (LiteDRAMCrossbar.get_port(data_width=..,
clock_domain=..)), driven from its own clock domain with the repository's NativePortDriver and
backed by the repository's ControllerStub (extended with an actual memory so that read data is
meaningful).  What is written through the port is read back through the same port and compared
with a trivial Python model; the accesses seen by the controller are checked as well.

Exit code 0 + "PASS" on correct code, exit code 1 + "FAIL" otherwise.
"""
import sys
sys.path.insert(0, "/repo")

import random

from migen import *
from migen.sim import passive

from test.common import NativePortDriver, timeout_generator
from test.test_crossbar import CrossbarDUT, ControllerStub


class MemControllerStub(ControllerStub):
    """ControllerStub whose read data comes from what has been written (per bank/address)."""
    def __init__(self, *args, **kwargs):
        ControllerStub.__init__(self, *args, **kwargs)
        self.mem = {}

    def default(self, bank, addr):
        return ((bank << 56) | (addr << 24) | 0xC0FFEE) ^ 0x5a5a5a5a5a5a5a5a

    @passive
    def data_handler(self):
        nbytes = len(self.interface.wdata_we)
        while True:
            available = [w for w in self._waiting if w.delay == 0]
            for a in available:
                current = self._waiting.pop(self._waiting.index(a)).data
                key = (current.bank, current.addr)
                if isinstance(current, self.W):
                    data, we = (yield self.interface.wdata), (yield self.interface.wdata_we)
                    current = current._replace(data=data, we=we)
                    mask = sum(0xff << (8*i) for i in range(nbytes) if we & (1 << i))
                    old  = self.mem.get(key, self.default(*key))
                    self.mem[key] = (old & ~mask) | (data & mask)
                else:
                    current = current._replace(data=self.mem.get(key, self.default(*key)))
                    yield self.interface.rdata.eq(current.data)
                self.data.append(current)
            for i, w in enumerate(self._waiting):
                self._waiting[i] = w._replace(delay=w.delay - 1)
            yield


def run_scenario(name, user_data_width, clocks, seed, n_words=10):
    prng = random.Random(seed)
    dut  = CrossbarDUT()
    ctrl_dw = dut.interface.data_width  # 64
    port = dut.crossbar.get_port(data_width=user_data_width, clock_domain="user")
    assert port.clock_domain == "user" and port.data_width == user_data_width
    driver     = NativePortDriver(port)
    controller = MemControllerStub(dut.interface, cmd_delay=(lambda: CMD_DELAY),
        write_latency = dut.settings.phy.write_latency,
        read_latency  = dut.settings.phy.read_latency)

    # User accesses: ascending addresses inside bank 0 / row 1 (addresses in user words).
    base_ctrl = dut.addr_port(bank=0, row=1, col=0)        # in controller words
    if user_data_width < ctrl_dw:
        ratio = ctrl_dw // user_data_width
        base  = base_ctrl * ratio
    else:
        ratio = user_data_width // ctrl_dw
        base  = base_ctrl // ratio
    full_we = 2**(user_data_width//8) - 1
    writes  = []
    for i in range(n_words):
        data = prng.getrandbits(user_data_width)
        we   = full_we if i % 4 != 3 else prng.randrange(1, full_we)
        writes.append((base + i, data, we))

    # Python model of the memory as seen through the user port.
    model = {}
    def model_read(addr):
        return model.get(addr)
    for addr, data, we in writes:
        mask = sum(0xff << (8*i) for i in range(user_data_width//8) if we & (1 << i))
        old  = model.get(addr, None)
        model[addr] = (data, mask) if old is None else (((old[0] & ~mask) | (data & mask)), old[1] | mask)

    down = user_data_width > ctrl_dw

    def main_generator():
        for i, (addr, data, we) in enumerate(writes):
            last = int(i == len(writes) - 1)
            # (with data_with_cmd the driver cannot also wait for the data: it may already be gone)
            yield from driver.write(addr, data, we=we, last=last, data_with_cmd=down, wait_data=not down)
        yield from driver.wait_all()
        for _ in range(100):  # let the writes land in the controller
            yield
        for i, (addr, _, _) in enumerate(writes):
            last = int(i == len(writes) - 1)
            yield from driver.read(addr, last=last, wait_data=False)
        yield from driver.wait_all()
        for _ in range(50):
            yield

    generators = {
        "user": [main_generator(), *driver.generators()],
        "sys":  [*controller.generators(), timeout_generator(40000)],
    }
    errors = []
    try:
        run_simulation(dut, generators, clocks=clocks)
    except Exception as e:  # timeout (lost command/word -> the driver waits forever), stub asserts
        errors.append("simulation aborted: %s: %s" % (type(e).__name__, e))

    # 1) Read back through the port: every read word, once, in order, with the written content.
    if len(driver.rdata) != len(writes):
        errors.append("user got %d read words, expected %d" % (len(driver.rdata), len(writes)))
    for i, ((addr, _, _), got) in enumerate(zip(writes, driver.rdata)):
        exp, mask = model[addr]
        if (got & mask) != (exp & mask):
            errors.append("read #%d @0x%x: got 0x%x, expected 0x%x (mask 0x%x)" % (i, addr, got, exp, mask))
            break

    # 2) Controller-side view: written bytes are exactly the bytes the user wrote.
    ctrl_mem = {}
    for (bank, addr), value in controller.mem.items():
        ctrl_mem[(bank, addr)] = value
    for addr, _, _ in writes:
        exp, mask = model[addr]
        for b in range(user_data_width//8):
            if not (mask >> (8*b)) & 0xff:
                continue
            byte_addr  = addr*(user_data_width//8) + b          # byte address in the port space
            ctrl_word  = byte_addr // (ctrl_dw//8)
            ctrl_byte  = byte_addr %  (ctrl_dw//8)
            col        = ctrl_word - base_ctrl                  # bank 0 / row 1, small columns
            key        = (0, dut.addr_iface(row=1, col=0) + col)
            word       = controller.mem.get(key)
            got        = None if word is None else (word >> (8*ctrl_byte)) & 0xff
            if got != (exp >> (8*b)) & 0xff:
                errors.append("controller memory byte 0x%x: got %s, expected 0x%02x" % (
                    byte_addr, "nothing" if got is None else hex(got), (exp >> (8*b)) & 0xff))
                break
        else:
            continue
        break
    n_wr = sum(1 for d in controller.data if isinstance(d, ControllerStub.W))
    n_rd = sum(1 for d in controller.data if isinstance(d, ControllerStub.R))
    n_ctrl_words = (n_words * user_data_width + ctrl_dw - 1) // ctrl_dw
    if down:
        if n_wr != n_ctrl_words or n_rd != n_ctrl_words:
            errors.append("controller saw %d writes / %d reads, expected %d / %d" % (
                n_wr, n_rd, n_ctrl_words, n_ctrl_words))
    else:
        # Up-conversion may or may not merge neighbours, but can never need more than one access
        # per user access nor fewer than one per controller word.
        if not (n_ctrl_words <= n_wr <= n_words and n_ctrl_words <= n_rd <= n_words):
            errors.append("controller saw %d writes / %d reads for %d user accesses" % (n_wr, n_rd, n_words))

    print("[%s] %s" % ("ok" if not errors else "KO", name))
    for e in errors:
        print("     - " + e)
    return not errors


CMD_DELAY = 3      # controller-side latency between accepting a command and strobing its data: the minimum of the real core (3 + write_latency)

def main():
    """A user port in a slower clock domain AND with a narrower data width: the up-converter queues the write data one or two user cycles
    after the command; both cross the CDC through separate FIFOs; the controller strobes the data a fixed number of sys cycles after the
    command, before the data has arrived."""
    results = []
    for ratio in (2, 4, 8, 16):
        ok = run_scenario("narrow (32-bit) port, user clock %dx slower than sys, controller data strobe %d cycles after the command" % (ratio, CMD_DELAY),
                          32, {"sys": 10, "user": 10 * ratio}, seed=7)
        results.append(ok)
    print("PASS" if all(results) else "FAIL")
    sys.exit(0 if all(results) else 1)


if __name__ == "__main__":
    main()
