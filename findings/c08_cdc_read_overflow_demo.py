#!/venv/bin/python
"""Independent demonstration (plain migen simulation, no /verif machinery) of the C08 defect repaired by the /repo commit
"fix: clock-domain-crossing port bounds reads in flight to the read-data FIFO depth".

A user port in another clock domain (LiteDRAMNativePortCDC, default FIFO depths as LiteDRAMCrossbar.get_port uses them) issues 40 reads and
stalls its read-data channel for a while (legal back-pressure).  The sys side behaves like the real crossbar: it takes commands whenever
offered and returns each word as a one-cycle rdata.valid pulse a few cycles later, ignoring rdata.ready (core/crossbar.py never reads it).
Before the repair words are lost as soon as more than rdata_depth of them are waiting; after it every word arrives exactly once, in order.
usage: c08_cdc_read_overflow_demo.py [repo_dir]   exit 0 = every read word delivered once and in order."""
import sys
sys.path.insert(0, sys.argv[1] if len(sys.argv) > 1 else "/repo")
from migen import *
from litedram.common import LiteDRAMNativePort
from litedram.frontend.adapter import LiteDRAMNativePortCDC

N = 40


def run(stall_until):
    pf = LiteDRAMNativePort("read", 8, 16, clock_domain="user"); pt = LiteDRAMNativePort("read", 8, 16)
    dut = LiteDRAMNativePortCDC(pf, pt)
    got = []; dropped = []

    def user_cmd():
        for a in range(N):
            yield pf.cmd.valid.eq(1); yield pf.cmd.addr.eq(a); yield pf.cmd.we.eq(0)
            yield
            while not (yield pf.cmd.ready): yield
        yield pf.cmd.valid.eq(0)
        for _ in range(400): yield

    def user_rdata():
        t = 0
        while True:
            yield pf.rdata.ready.eq(1 if t >= stall_until else 0)
            yield
            if (yield pf.rdata.valid) and (yield pf.rdata.ready): got.append((yield pf.rdata.data))
            t += 1

    def core():
        pipe = []
        yield pt.cmd.ready.eq(1)
        while True:
            yield
            if pipe and pipe[0][0] == 0:
                if not (yield pt.rdata.ready): dropped.append(pipe[0][1])
            pipe = [(d - 1, a) for d, a in pipe if d > 0]
            if (yield pt.cmd.valid): pipe.append((3, (yield pt.cmd.addr)))
            if pipe and pipe[0][0] == 0:
                yield pt.rdata.valid.eq(1); yield pt.rdata.data.eq(0x100 + pipe[0][1])
            else:
                yield pt.rdata.valid.eq(0)

    import migen.sim.core as _c
    gens = {"user": [user_cmd(), _passive(user_rdata())], "sys": [_passive(core())]}
    run_simulation(dut, gens, clocks={"sys": 10, "user": 13})
    return got, dropped


def _passive(g):
    from migen.sim import passive
    @passive
    def w():
        yield from g
    return w()


ok = True
for stall in (0, 30, 120):
    got, dropped = run(stall)
    good = got == [0x100 + a for a in range(N)]
    print("user stalls read data for %3d cycles: %d of %d words delivered, %s%s" % (stall, len(got), N, "in order" if good else "WRONG",
          "; words lost at the FIFO input: %s" % dropped[:6] if dropped else ""))
    ok &= good
print("PASS" if ok else "FAIL")
sys.exit(0 if ok else 1)
