"""Harness-side compatibility shims (process-local; nothing in /repo is touched).

The pinned environment pairs litedram 2026.4 with litex 2024.12 on Python 3.12:
 (a) migen's tracer cannot recover variable names from 3.12 byte-code, so anonymous CSRStorage()/CSRStatus() raise;
 (b) litex 2024.12's CSR has `re`/`we` where litedram uses the later names `wr_stb`/`rd_stb`.
The shims only provide names/aliases; they change no behaviour of any logic under test."""
_done = False


def install():
    global _done
    if _done: return
    _done = True
    import litex.soc.interconnect.csr as csr
    _orig = csr.get_obj_var_name
    cnt = [0]

    def patched(override=None, default=None):
        try:
            r = _orig(override, default)
        except Exception:
            r = None
        if r is None:
            cnt[0] += 1; r = "csr%d" % cnt[0]
        return r
    csr.get_obj_var_name = patched
    C = csr.CSR
    if not hasattr(C, "wr_stb"):
        C.wr_stb = property(lambda self: self.re)
    if not hasattr(C, "rd_stb"):
        C.rd_stb = property(lambda self: self.we)
