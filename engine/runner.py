"""Check runner: runs the configurations of one property in a process pool, confirms violations on Migen's evaluator,
writes replay artefacts and the evidence file."""
import os, sys, json, time, hashlib, traceback, multiprocessing, importlib

VERIF = os.path.dirname(os.path.dirname(os.path.abspath(__file__)))
REPO = os.environ.get("VERIF_REPO", "/repo")
KNOWN_PATH = os.environ.get("VERIF_KNOWN_FINDINGS", os.path.join(VERIF, "known_findings.json"))   # override only for experiments on scratch copies


def setup_path():
    """litedram is imported from /repo's working tree (editable install points there as well)."""
    if REPO not in sys.path: sys.path.insert(0, REPO)
    if VERIF not in sys.path: sys.path.insert(0, VERIF)
    from engine import shims
    shims.install()
    import litedram
    got = os.path.realpath(os.path.dirname(os.path.dirname(litedram.__file__)))
    if got != os.path.realpath(REPO):
        raise RuntimeError("litedram imported from %s, expected %s" % (got, REPO))


def jsonable(x):
    if isinstance(x, (list, tuple)): return [jsonable(y) for y in x]
    if isinstance(x, dict): return {str(k): jsonable(v) for k, v in x.items()}
    if isinstance(x, (int, float, str, bool)) or x is None: return x
    return repr(x)


def tuplify(x):
    if isinstance(x, list): return tuple(tuplify(y) for y in x)
    return x


# ------------------------------------------------------------------ model-checking configuration

def mc_run(prop, module, factory, kwargs, name, tier, seed, max_states=2_000_000, max_depth=None, time_limit=None,
           liveness=(), n_conf=None, post=None, selfcheck_cycles=60, want_graph=None):
    """One configuration: build harness, self-check the compiled step, BFS, confirm/report, conformance replay."""
    from engine import explore, fhdl
    t0 = time.time()
    mod = importlib.import_module(module)
    h = getattr(mod, factory)(**kwargs)
    h.name = name
    out = {"config": name, "factory": factory, "kwargs": jsonable(kwargs), "state_bits": h.c.nbits, "registers": len(h.c.state),
           "registers_pruned_by_coi": len(h.c.dropped), "single_pass_comb": h.c.single_pass}
    if selfcheck_cycles and not getattr(h, "no_selfcheck", False):
        for ts in h.c.ticksets:
            fhdl.selfcheck(h.c, selfcheck_cycles, seed, tick=ts)
        out["selfcheck_cycles"] = selfcheck_cycles * len(h.c.ticksets)
    if time_limit is None and tier == "thorough":
        time_limit = int(os.environ.get("VERIF_THOROUGH_TIME_LIMIT", "3000"))      # a configuration that does not close in time is reported as CAPPED
    known = explore.KnownFindings(KNOWN_PATH, prop)
    wg = bool(liveness) if want_graph is None else want_graph
    res = explore.bfs(h, max_states=max_states, max_depth=max_depth, want_graph=wg, known=known, time_limit=time_limit,
                      progress=int(os.environ.get("VERIF_PROGRESS", "0")) or None)
    out.update(states=res.states, transitions=res.transitions, depth=res.depth, complete=res.complete, capped=res.capped,
               max_menu=res.max_menu, bfs_wall_s=round(res.wall, 2))
    out["known_hits"] = res.known_hits
    out["violations"] = []
    if res.violation is not None:
        trace, v = res.violation
        out["violations"].append(confirm_and_store(prop, module, factory, kwargs, name, h, trace, v))
    else:
        n = n_conf if n_conf is not None else (12 if tier == "quick" else 40)
        tr, cy = explore.conformance(h, res, n, seed)
        out["conformance_traces"] = tr; out["conformance_cycles"] = cy
        # liveness obligations: (label, pending_mask, progress_mask)
        if liveness:
            out["liveness"] = []
            if res.complete:
                for (label, pend, prog) in liveness:
                    cyc, longest = explore.bad_cycle(res.states, res.edges, pend, prog)
                    if cyc is not None:
                        states_by_id = [None] * res.states
                        for st, i in res.index.items(): states_by_id[i] = st
                        stem = explore.trace_of_id(res.parent, res.pchoice, cyc[0])
                        loop = [explore.choice_on_edge_ev(h, res, states_by_id, cyc[k], cyc[(k + 1) % len(cyc)], pend, prog) for k in range(len(cyc))]
                        v = explore.Violation("liveness:" + label, "obligation '%s' can stay pending for ever (lasso: stem %d, cycle %d)" % (label, len(stem), len(cyc)),
                                              **h.lasso_detail(label, [states_by_id[i] for i in cyc], loop))
                        e = known.match(name, v)
                        if e is None:
                            out["violations"].append(store_lasso(prop, module, factory, kwargs, name, h, stem, loop, v))
                        out["liveness"].append({"obligation": label, "bad_cycle": True, "cycle_len": len(cyc), "known": e["id"] if e else None})
                    else:
                        out["liveness"].append({"obligation": label, "bad_cycle": False, "worst_case_wait_cycles": longest})
                out["known_hits"] = dict(known.hits)
            else:
                out["liveness_skipped"] = "graph not complete (%s)" % res.capped
        if post is not None:
            pv = getattr(h, post)(res)
            for (trace, v) in pv.get("violations", []):
                e = known.match(name, v)
                if e is None:
                    out["violations"].append(confirm_and_store(prop, module, factory, kwargs, name, h, trace, v))
                    break
            out["known_hits"] = dict(known.hits)
            out["post"] = pv.get("info")
        # samples
        samples = []
        N = res.states
        for i in ([N - 1, N // 2, N // 3] if N > 3 else list(range(1, N))):
            tr = explore.trace_of_id(res.parent, res.pchoice, i)
            samples.append({"depth": len(tr), "choices": compact_trace(h, tr)})
        out["samples"] = samples
    out["coverage_tags"] = h.coverage() if hasattr(h, "coverage") else {}
    out["events_seen"] = res.events_seen
    out["wall_s"] = round(time.time() - t0, 2)
    out["known_entries"] = {e["id"]: e["title"] for e in known.entries if e["id"] in out["known_hits"]}
    return out


def compact_trace(h, tr, limit=60):
    d = [jsonable(h.describe(ch)) for ch in tr]
    # run-length encode to keep evidence readable
    out = []; i = 0
    while i < len(d):
        j = i
        while j + 1 < len(d) and d[j + 1] == d[i]: j += 1
        out.append(d[i] if j == i else {"repeat": j - i + 1, "choice": d[i]})
        i = j + 1
    return out[:limit]


def confirm_and_store(prop, module, factory, kwargs, name, h, trace, v):
    """Re-run a violating trace (i) on the compiled step and (ii) on Migen's evaluator; both must reproduce the same rule
    at the same step.  Otherwise this is an engine error, never a VIOLATION."""
    from engine import explore, fhdl
    step = len(trace) - 1
    for on_sim in (False, True):
        if on_sim and getattr(h, "no_sim_replay", False): continue
        viols, _, _ = explore.run_trace(h, trace, on_sim=on_sim)
        hit = [x for (k, x) in viols if k == step and x.rule == v.rule]
        if not hit:
            raise fhdl.EngineError("violation %s not reproduced %s (got %r)" % (v.rule, "on migen evaluator" if on_sim else "on compiled step", [(k, x.rule) for k, x in viols]))
    art = {"property": prop, "module": module, "factory": factory, "kwargs": jsonable(kwargs), "config": name, "kind": "trace",
           "trace": jsonable(trace), "violation": v.as_dict(), "step": step,
           "readable": compact_trace(h, trace, limit=400)}
    return write_artifact(prop, name, art, v)


def store_lasso(prop, module, factory, kwargs, name, h, stem, loop, v):
    from engine import explore, fhdl
    # confirm on migen's evaluator: stem + two loop iterations conform cycle by cycle, and the product state repeats
    _, _, st1 = explore.run_trace(h, stem + loop, on_sim=not getattr(h, "no_sim_replay", False))
    _, _, st2 = explore.run_trace(h, stem + loop + loop, on_sim=not getattr(h, "no_sim_replay", False))
    if st1 != st2:
        raise fhdl.EngineError("lasso not reproduced on replay")
    art = {"property": prop, "module": module, "factory": factory, "kwargs": jsonable(kwargs), "config": name, "kind": "lasso",
           "trace": jsonable(stem), "loop": jsonable(loop), "violation": v.as_dict(),
           "readable": {"stem": compact_trace(h, stem, 400), "loop": compact_trace(h, loop, 400)}}
    return write_artifact(prop, name, art, v)


def write_artifact(prop, name, art, v):
    os.makedirs(os.path.join(VERIF, "replays"), exist_ok=True)
    blob = json.dumps(art, sort_keys=True, default=repr)
    hsh = hashlib.sha1(blob.encode()).hexdigest()[:10]
    path = os.path.join(VERIF, "replays", "%s-%s-%s.json" % (prop, name.replace("/", "_").replace(" ", "_"), hsh))
    with open(path, "w") as f: f.write(json.dumps(art, indent=1, default=repr))
    return {"rule": v.rule, "msg": v.msg, "detail": jsonable(v.detail), "replay": path, "steps": len(art["trace"])}


def enum_violation(prop, name, module, case, rule, msg, **detail):
    """Violation record + replay artefact for enumeration-style checks (pure functions): the artefact holds the failing input;
    `run.py replay` calls <module>.replay_case(case) which must return a list of (rule, msg) still failing."""
    from engine.explore import Violation
    v = Violation(rule, msg, **detail)
    art = {"property": prop, "module": module, "config": name, "kind": "enum", "case": jsonable(case), "violation": v.as_dict(), "trace": []}
    return write_artifact(prop, name, art, v)


def known_filter(prop, name, rule, detail):
    """for enumeration checks: returns the known-finding entry matching (rule, detail) or None"""
    from engine.explore import KnownFindings, Violation
    kf = KnownFindings(KNOWN_PATH, prop)
    v = Violation(rule, "", **detail)
    return kf.match(name, v)


def replay_artifact(path):
    """`run.py replay <file>`: re-executes an artefact without the explorer (environment + Migen evaluator only)."""
    setup_path()
    from engine import explore
    art = json.load(open(path))
    mod = importlib.import_module(art["module"])
    if art["kind"] == "enum":
        still = mod.replay_case(art["case"])
        for rule, msg in still: print("%s: %s" % (rule, msg))
        if any(rule == art["violation"]["rule"] for rule, _ in still):
            print("VIOLATION property=%s replay=%s" % (art["property"], path)); return 1
        print("replay: violation not reproduced (property holds on this input in the current tree)"); return 0
    h = getattr(mod, art["factory"])(**art["kwargs"])
    h.name = art["config"]
    trace = [tuplify(x) for x in art["trace"]]
    if art["kind"] == "trace":
        obs = []
        for rep in range(2):
            viols, n, _ = explore.run_trace(h, trace, on_sim=not getattr(h, "no_sim_replay", False))
            obs.append([(k, x.rule, x.msg) for k, x in viols])
        if obs[0] != obs[1]:
            print("ENGINE-ERROR: replay not deterministic"); return 2
        for k, rule, msg in obs[0]:
            print("step %d: %s: %s" % (k, rule, msg))
        if any(rule == art["violation"]["rule"] for _, rule, _ in obs[0]):
            print("VIOLATION property=%s replay=%s" % (art["property"], path)); return 1
        print("replay: violation not reproduced (property holds on this trace in the current tree)"); return 0
    else:
        loop = [tuplify(x) for x in art["loop"]]
        # run stem, then the loop twice: the product state after each loop iteration must be identical and the obligation pending
        viols, n, st1 = explore.run_trace(h, trace + loop, on_sim=False)
        viols, n, st2 = explore.run_trace(h, trace + loop + loop, on_sim=False)
        if st1 == st2:
            print("lasso reproduced: state after stem+loop == state after stem+2*loop; %s" % art["violation"]["msg"])
            print("VIOLATION property=%s replay=%s" % (art["property"], path)); return 1
        print("replay: lasso not reproduced in the current tree"); return 0


# ------------------------------------------------------------------ pool + evidence

def _worker(job):
    fn, args, kw = job
    try:
        setup_path()
        return ("ok", fn(*args, **kw))
    except Exception as e:
        return ("error", {"config": kw.get("name", "?"), "error": "%s: %s" % (type(e).__name__, e), "traceback": traceback.format_exc()})


def run_jobs(jobs, procs=None):
    """jobs: list of (fn, args, kwargs) -> list of results in order.  Each job in a fresh forked process."""
    procs = procs or min(len(jobs), int(os.environ.get("VERIF_PROCS", "16")))
    if procs <= 1 or len(jobs) == 1:
        return [_worker(j) for j in jobs]
    ctx = multiprocessing.get_context("fork")
    with ctx.Pool(processes=procs, maxtasksperchild=1) as pool:
        return pool.map(_worker, jobs, chunksize=1)


def finish(prop, tier, seed, level, results, t0, assumptions, rule, extra=None, technique=None):
    """Aggregate per-configuration results into evidence/<prop>.json, print the verdict lines, return exit code."""
    cfgs = []; errors = []
    for status, r in results:
        (cfgs if status == "ok" else errors).append(r)
    viol = [dict(v, config=c["config"]) for c in cfgs for v in c.get("violations", [])]
    known_hits = {}; known_titles = {}
    for c in cfgs:
        for k, n in c.get("known_hits", {}).items(): known_hits[k] = known_hits.get(k, 0) + n
        known_titles.update(c.get("known_entries", {}))
    states = sum(c.get("states", 0) for c in cfgs); trans = sum(c.get("transitions", 0) for c in cfgs)
    evals = sum(c.get("evaluations", c.get("transitions", 0)) for c in cfgs)
    nontriv = sum(c.get("distinct_nontrivial", c.get("states", 0)) for c in cfgs)
    samples = []
    for c in cfgs:
        for s in c.get("samples", [])[:2]:
            samples.append({"config": c["config"], "case": s})
    samples = samples[:12] or [{"note": "no samples (run aborted)"}]
    cov = {
        "states": states, "transitions": trans,
        "traces_validated_against_impl": sum(c.get("conformance_traces", 0) for c in cfgs),
        "conformance_cycles": sum(c.get("conformance_cycles", 0) for c in cfgs),
        "evaluations": max(evals, 1), "distinct_nontrivial": max(nontriv, 2) if cfgs else 0,
        "rule": rule, "samples": samples,
        "exhaustive": bool(cfgs) and all(c.get("complete", False) for c in cfgs) and not errors,
        "configurations": [{k: v for k, v in c.items() if k not in ("samples", "known_entries")} for c in cfgs],
        "known_finding_hits": known_hits,
        "engine_errors": errors,
    }
    if extra: cov.update(extra)
    ev = {"property_id": prop, "tier": tier, "seed": seed, "level": level, "coverage": cov,
          "assumptions": assumptions, "wall_s": round(time.time() - t0, 2), "violations": len(viol)}
    if technique: ev["technique"] = technique
    os.makedirs(os.path.join(VERIF, "evidence"), exist_ok=True)
    with open(os.path.join(VERIF, "evidence", "%s.json" % prop), "w") as f:
        json.dump(ev, f, indent=1, default=repr)
    for c in cfgs:
        line = "  %-40s states=%-8s trans=%-9s depth=%-4s %s  %.1fs" % (c["config"], c.get("states", "-"), c.get("transitions", c.get("evaluations", "-")), c.get("depth", "-"),
                                                              "complete" if c.get("complete") else ("CAPPED(%s)" % c.get("capped") if c.get("capped") else "stopped"), c.get("wall_s", 0))
        print(line)
        for lv in c.get("liveness", []):
            print("      liveness %-28s %s" % (lv["obligation"], "BAD CYCLE (len %d)%s" % (lv["cycle_len"], " [known %s]" % lv["known"] if lv.get("known") else "") if lv["bad_cycle"] else "ok, worst-case wait %d cycles" % lv["worst_case_wait_cycles"]))
    for k, n in sorted(known_hits.items()):
        print("KNOWN-FINDING: property=%s %s: %s (matched %d times)" % (prop, k, known_titles.get(k, ""), n))
    for e in errors:
        print("ENGINE-ERROR in %s: %s" % (e.get("config"), e.get("error")))
        sys.stderr.write(e.get("traceback", "") + "\n")
    for v in viol:
        print("  violation in %s: %s: %s" % (v["config"], v["rule"], v["msg"]))
        print("VIOLATION property=%s replay=%s" % (prop, v["replay"]))
    print("%s %s: %d configs, %d states, %d transitions, %d violations, %d engine errors, %.1fs" % (prop, tier, len(cfgs), states, trans, len(viol), len(errors), time.time() - t0))
    if viol: return 1
    if errors: return 2
    return 0
