"""Explicit-state exploration of closed systems (compiled netlist + Python environment/monitors).

A harness provides
    c                      Compiled DUT (engine.fhdl)
    initial()           -> list of (S, E)                 E: hashable env/monitor state
    menu(S, E)          -> list of choices (hashable, JSON-able; simplest first)
    drive(S, E, ch)     -> I  or (I, tick)                inputs of this cycle
    observe(S, E, ch, I, O, S2) -> (E2, ev)               raises/reports violations; ev: int event flags (or 0)
    describe(ch)        -> JSON-able rendering of a choice (optional)
Violations are reported through harness.report(rule, msg, **detail) (recoverable: the search may go on if the
finding is listed in known_findings.json) or by raising Violation (not recoverable: successor undefined).
"""
import time, random, json, os, sys, hashlib
from array import array
from .fhdl import SimDriver, EngineError


class Violation(Exception):
    def __init__(self, rule, msg, **detail):
        Exception.__init__(self, "%s: %s" % (rule, msg))
        self.rule = rule; self.msg = msg; self.detail = detail; self.recoverable = False

    def as_dict(self):
        return {"rule": self.rule, "msg": self.msg, "detail": self.detail}


class Harness:
    """Base class: glue + helpers.  Subclasses set self.c and implement menu/drive/observe."""
    name = "harness"
    multiclock = False     # True: drive() returns (I, tick) with tick a tuple of domain names

    def initial(self):
        return [(self.c.reset_state, self.env0())]

    def report(self, rule, msg, **detail):
        v = Violation(rule, msg, **detail); v.recoverable = True
        self._viols.append(v)

    def step(self, S, E, ch):
        """one transition on the compiled step; returns (S2, E2, ev, viols)"""
        self._viols = []
        if self.multiclock:
            I, tick = self.drive(S, E, ch)
            S2, O = self.c.cycles[tick](S, I)
        else:
            I = self.drive(S, E, ch)
            S2, O = self.c.cycle(S, I)
        E2, ev = self.observe(S, E, ch, I, O, S2)
        return S2, E2, ev, self._viols

    def describe(self, ch):
        return ch

    def lasso_detail(self, label, cycle_states, loop_choices):
        return {}

    def quiescent(self, S, E):
        return None


class KnownFindings:
    """Committed list of genuine defects that are recorded rather than repaired.  Never written at run time."""

    def __init__(self, path, prop):
        self.entries = []
        if os.path.exists(path):
            data = json.load(open(path))
            for e in data.get("findings", []):
                if e.get("property") == prop and e.get("status", "open") == "open":
                    self.entries.append(e)
        self.hits = {}

    def match(self, harness_name, v):
        for e in self.entries:
            m = e["match"]
            if "rule" in m and m["rule"] != v.rule: continue
            if "harness" in m and not harness_name.startswith(m["harness"]): continue
            ok = True
            for k, want in m.get("detail", {}).items():
                got = v.detail.get(k)
                if isinstance(want, list):
                    if got not in want: ok = False; break
                elif got != want: ok = False; break
            if ok:
                self.hits[e["id"]] = self.hits.get(e["id"], 0) + 1
                return e
        return None


class Result:
    pass


def bfs(h, max_states=2_000_000, max_depth=None, want_graph=False, known=None, time_limit=None, progress=None,
        stop_on_violation=True):
    """Breadth-first search of the closed system.  Returns Result with counts, completeness, the first (shortest)
    violation trace, and optionally the edge list for liveness analysis."""
    t0 = time.time()
    r = Result()
    index = {}            # state -> id
    parent = array("l"); pchoice = []       # per id
    inits = h.initial()
    frontier = []
    for st in inits:
        if st not in index:
            index[st] = len(parent); parent.append(-1); pchoice.append(None); frontier.append(st)
    depth_of_level = 0
    trans = 0
    edges_src = array("l"); edges_dst = array("l"); edges_ev = array("l") if want_graph else None
    if not want_graph: edges_src = edges_dst = None
    r.violation = None; r.known_hits = {}
    r.capped = None
    step = h.step; menu = h.menu
    ev_or = 0
    level_sizes = [len(frontier)]
    maxmenu = 0
    while frontier:
        nxt = []
        for st in frontier:
            if len(parent) > max_states or (time_limit is not None and time.time() - t0 > time_limit):
                r.capped = ("max_states=%d" % max_states) if len(parent) > max_states else ("time_limit=%ds" % time_limit)
                break
            S, E = st
            sid = index[st]
            m = menu(S, E)
            if len(m) > maxmenu: maxmenu = len(m)
            for ch in m:
                try:
                    S2, E2, ev, viols = step(S, E, ch)
                except Violation as v:
                    viols = [v]; S2 = None
                trans += 1
                if viols:
                    prune = False; bad = None
                    for v in viols:
                        e = known.match(h.name, v) if known is not None else None
                        if e is None:
                            bad = v; break
                        if not v.recoverable: prune = True
                    if bad is not None:
                        if r.violation is None:
                            r.violation = (trace_to(index, parent, pchoice, st) + [ch], bad)
                        if stop_on_violation:
                            frontier = []; nxt = []
                            break
                        continue
                    if prune or S2 is None:
                        continue
                ev_or |= ev
                ns = (S2, E2)
                j = index.get(ns)
                if j is None:
                    j = len(parent); index[ns] = j; parent.append(sid); pchoice.append(ch); nxt.append(ns)
                if want_graph:
                    edges_src.append(sid); edges_dst.append(j); edges_ev.append(ev)
            else:
                continue
            break
        if r.violation is not None and stop_on_violation:
            break
        if r.capped:
            frontier = nxt
            break
        frontier = nxt; depth_of_level += 1
        if frontier: level_sizes.append(len(frontier))
        if progress and depth_of_level % progress == 0:
            print("   [%s] depth %d states %d frontier %d trans %d %.1fs" % (h.name, depth_of_level, len(parent), len(frontier), trans, time.time() - t0), file=sys.stderr, flush=True)
        if frontier and len(parent) > max_states:
            r.capped = "max_states=%d" % max_states; break
        if frontier and max_depth is not None and depth_of_level >= max_depth:
            r.capped = "max_depth=%d" % max_depth; break
        if frontier and time_limit is not None and time.time() - t0 > time_limit:
            r.capped = "time_limit=%ds" % time_limit; break
    r.states = len(parent); r.transitions = trans; r.depth = depth_of_level
    r.complete = (r.capped is None and r.violation is None)
    r.index = index; r.parent = parent; r.pchoice = pchoice
    r.edges = (edges_src, edges_dst, edges_ev) if want_graph else None
    r.wall = time.time() - t0
    r.events_seen = ev_or
    r.level_sizes = level_sizes
    r.max_menu = maxmenu
    r.frontier_left = len(frontier) if r.capped else 0
    if known is not None: r.known_hits = dict(known.hits)
    return r


def trace_to(index, parent, pchoice, st):
    i = index[st]; tr = []
    while parent[i] >= 0:
        tr.append(pchoice[i]); i = parent[i]
    tr.reverse()
    return tr


def trace_of_id(parent, pchoice, i):
    tr = []
    while parent[i] >= 0:
        tr.append(pchoice[i]); i = parent[i]
    tr.reverse()
    return tr


def run_trace(h, trace, on_sim=False, init_index=0, collect=None):
    """Re-execute a choice list.  on_sim=False: compiled step.  on_sim=True: Migen's Evaluator drives the DUT and the
    harness observes *its* outputs and registers; the compiled step runs alongside and every register/output is
    compared each cycle (conformance).  Returns (list_of_violation_dicts_per_step, cycles)."""
    S, E = h.initial()[init_index]
    c = h.c
    drv = None
    if on_sim:
        drv = SimDriver(c)
        if S != c.reset_state:
            raise EngineError("replay on sim needs reset initial state")
    out = []
    for k, ch in enumerate(trace):
        h._viols = []
        if h.multiclock:
            I, tick = h.drive(S, E, ch)
        else:
            I, tick = h.drive(S, E, ch), c.ticksets[0]
        S2, O = c.cycles[tick](S, I)
        if on_sim:
            O_s = drv.cycle(I, tick); S_s = drv.state()
            if tuple(O_s) != tuple(O) or S_s != S2:
                raise EngineError("conformance mismatch at step %d of trace (compiled step vs migen evaluator)" % k)
            O, S2 = O_s, S_s
        try:
            E2, ev = h.observe(S, E, ch, I, O, S2)
        except Violation as v:
            out.append((k, v)); break
        if h._viols:
            for v in h._viols: out.append((k, v))
        if collect is not None: collect(k, S, E, ch, O, S2, E2)
        S, E = S2, E2
    if drv is not None: drv.reset()
    return out, len(trace), (S, E)


def conformance(h, res, n, seed):
    """Replay n BFS-tree paths on Migen's Evaluator (register-by-register comparison).  Paths: deepest states first,
    then seed-selected random states.  Returns (traces, cycles)."""
    rnd = random.Random(seed)
    N = len(res.parent)
    if N <= 1: return 0, 0
    ids = []
    ids.extend(range(max(0, N - max(1, n // 4)), N))          # deepest (BFS order = non-decreasing depth)
    while len(ids) < n:
        ids.append(rnd.randrange(1, N))
    ids = list(dict.fromkeys(ids))[:n]
    traces = 0; cycles = 0
    for i in ids:
        tr = trace_of_id(res.parent, res.pchoice, i)
        if not tr: continue
        run_trace(h, tr, on_sim=True)
        traces += 1; cycles += len(tr)
    return traces, cycles


# ---------------------------------------------------------------- liveness on a complete graph

def bad_cycle(nstates, edges, pending_mask, progress_mask):
    """Sub-graph of edges whose event flags have `pending_mask` set and `progress_mask` clear.  Returns
    (cycle_state_ids or None, longest_path_len) — longest path = exact worst-case number of consecutive
    pending-without-progress transitions."""
    src, dst, evs = edges
    adj = [[] for _ in range(nstates)]
    for a, b, e in zip(src, dst, evs):
        if (e & pending_mask) == pending_mask and not (e & progress_mask):
            adj[a].append(b)
    color = bytearray(nstates); longest = array("l", [0]) * nstates
    for r0 in range(nstates):
        if color[r0] or not adj[r0]: continue
        stack = [(r0, 0)]; color[r0] = 1
        while stack:
            v, k = stack[-1]
            if k < len(adj[v]):
                stack[-1] = (v, k + 1)
                w = adj[v][k]
                if color[w] == 0:
                    color[w] = 1; stack.append((w, 0))
                elif color[w] == 1:
                    cyc = [x for x, _ in stack]
                    return cyc[cyc.index(w):], None
            else:
                color[v] = 2
                best = 0
                for w in adj[v]:
                    if longest[w] + 1 > best: best = longest[w] + 1
                longest[v] = best
                stack.pop()
    return None, max(longest) if nstates else 0


def path_to_id(res, i):
    return trace_of_id(res.parent, res.pchoice, i)


def choice_on_edge_ev(h, res, states_by_id, a, b, pend, prog):
    S, E = states_by_id[a]
    for ch in h.menu(S, E):
        try:
            S2, E2, ev, viols = h.step(S, E, ch)
        except Violation:
            continue
        if res.index.get((S2, E2)) == b and (ev & pend) == pend and not (ev & prog):
            return ch
    raise EngineError("edge not reproducible")
