"""fhdl-mc step compiler.

Takes a Migen module elaborated from /repo, lowers it with Migen's own simulator front-end
(`migen.sim.Simulator.__init__`: MemoryToArray, lower_specials, insert_resets) and compiles the lowered
fragment into a Python transition function

        cycle(S, I) -> (S', O)

S  : all kept registers packed into one Python int (layout private to this process)
I  : tuple of values for the netlist inputs (signals read but never driven), in `c.inputs` order
O  : tuple of the observed combinational signals, in `c.outputs` order (values after the comb settle,
     i.e. what a generator would read in that cycle)

Semantics are those of migen.sim (unbounded ints, truncation on assignment, comb fix-point, non-blocking
sync).  The same Simulator object is kept (`c.sim`) so `SimDriver` can replay traces on Migen's own
Evaluator for conformance.
"""
import collections, heapq, random
from migen.fhdl.structure import *
from migen.fhdl.structure import (_Value, _Statement, _Operator, _Slice, _Part, _ArrayProxy, _Assign, _Fragment)
from migen.fhdl.bitcontainer import value_bits_sign
from migen.fhdl.tools import list_targets, list_signals, list_inputs
from migen.sim.core import Simulator


class EngineError(Exception):
    pass


def flatten(sl):
    for s in sl:
        if isinstance(s, (list, tuple)):
            yield from flatten(s)
        else:
            yield s


def fold(stmts):
    """constant-condition folding: `If(<python bool>)` elaborates to an If on a Constant; keep only the live branch.
    Needed so that the cone-of-influence closure does not follow statically dead reads."""
    out = []
    for s in flatten(stmts):
        if isinstance(s, If):
            if isinstance(s.cond, Constant):
                out.extend(fold(s.t if s.cond.value else s.f))
            else:
                n = If(s.cond); n.t = fold(s.t); n.f = fold(s.f); out.append(n)
        elif isinstance(s, Case):
            n = Case.__new__(Case); n.test = s.test
            n.cases = collections.OrderedDict((k, fold(v)) for k, v in s.cases.items())
            out.append(n)
        else:
            out.append(s)
    return out


def project(stmts, grp):
    """Restriction of a statement tree to the assignments whose targets intersect `grp`.
    If/Case skeletons are kept; empty Case arms are kept whenever a default arm exists."""
    out = []
    for s in flatten(stmts):
        if isinstance(s, _Assign):
            if list_targets(s) & grp:
                out.append(s)
        elif isinstance(s, If):
            t = project(s.t, grp); f = project(s.f, grp)
            if t or f:
                n = If(s.cond); n.t = t; n.f = f; out.append(n)
        elif isinstance(s, Case):
            cases = collections.OrderedDict()
            for k, v in s.cases.items():
                cases[k] = project(v, grp)
            if any(cases.values()):
                if "default" not in cases or not cases["default"]:
                    cases = collections.OrderedDict((k, v) for k, v in cases.items() if v)
                n = Case.__new__(Case); n.test = s.test; n.cases = cases
                out.append(n)
        elif isinstance(s, Display):
            pass
        else:
            raise NotImplementedError(type(s))
    return out


class Gen:
    def __init__(self, f):
        self.f = f
        self.names = {}
        self.sigs = []
        self.tmp = 0

    def n(self, s):
        if s not in self.names:
            self.names[s] = "v%d" % len(self.sigs); self.sigs.append(s)
        return self.names[s]

    def t(self):
        self.tmp += 1
        return "_t%d" % self.tmp

    def e(self, node):
        if isinstance(node, Constant): return "(%r)" % node.value if node.value < 0 else repr(node.value)
        if isinstance(node, Signal): return self.n(node)
        if isinstance(node, _Operator):
            ops = [self.e(o) for o in node.operands]
            op = node.op
            if op == "m": return "(%s if %s else %s)" % (ops[1], ops[0], ops[2])
            if op == "~": return "(~%s)" % ops[0]
            if op == "-" and len(ops) == 1: return "(-%s)" % ops[0]
            pyop = {">>>": ">>", "<<<": "<<"}.get(op, op)
            if op in ("<", "<=", "==", "!=", ">", ">="):
                return "(1 if %s %s %s else 0)" % (ops[0], pyop, ops[1])
            if op not in ("+", "-", "*", ">>", "<<", "&", "^", "|", ">>>", "<<<"):
                raise NotImplementedError(op)
            return "(%s %s %s)" % (ops[0], pyop, ops[1])
        if isinstance(node, _Slice):
            w = node.stop - node.start
            return "((%s >> %d) & %d)" % (self.e(node.value), node.start, (1 << w) - 1)
        if isinstance(node, _Part):
            return "((%s >> %s) & %d)" % (self.e(node.value), self.e(node.offset), (1 << node.width) - 1)
        if isinstance(node, Cat):
            parts = []; shift = 0
            for el in node.l:
                nb = len(el)
                parts.append("((%s & %d) << %d)" % (self.e(el), (1 << nb) - 1, shift)); shift += nb
            return "(" + " | ".join(parts) + ")" if parts else "0"
        if isinstance(node, Replicate):
            nb = len(node.v)
            mult = sum(1 << (i * nb) for i in range(node.n))
            return "((%s & %d) * %d)" % (self.e(node.v), (1 << nb) - 1, mult)
        if isinstance(node, _ArrayProxy):
            ch = ", ".join(self.e(c) for c in node.choices)
            return "(%s,)[min(%d, %s)]" % (ch, len(node.choices) - 1, self.e(node.key))
        if isinstance(node, ClockSignal): return "0"
        if isinstance(node, ResetSignal):
            rst = self.f.clock_domains[node.cd].rst
            if rst is None:
                if node.allow_reset_less: return "0"
                raise ValueError("reset of reset-less domain")
            return self.e(rst)
        raise NotImplementedError(type(node))

    def trunc(self, sig, expr):
        nb, signed = sig.nbits, sig.signed
        if signed:
            return "_ts(%s, %d)" % (expr, nb)
        return "(%s) & %d" % (expr, (1 << nb) - 1)

    def assign(self, node, expr, ind, out, tgt):
        p = "    " * ind
        if isinstance(node, Signal):
            out.append("%s%s = %s" % (p, tgt(node), self.trunc(node, expr)))
        elif isinstance(node, Cat):
            tmp = self.t()
            out.append("%s%s = %s" % (p, tmp, expr))
            shift = 0
            for el in node.l:
                nb = len(el)
                self.assign(el, "((%s >> %d) & %d)" % (tmp, shift, (1 << nb) - 1), ind, out, tgt); shift += nb
        elif isinstance(node, _Slice):
            w = node.stop - node.start
            mask = ((1 << node.stop) - 1) - ((1 << node.start) - 1)
            cur = self.cur(node.value, tgt)
            self.assign(node.value, "((%s & ~%d) | ((%s & %d) << %d))" % (cur, mask, expr, (1 << w) - 1, node.start), ind, out, tgt)
        elif isinstance(node, _Part):
            cur = self.cur(node.value, tgt)
            off = self.t()
            out.append("%s%s = %s" % (p, off, self.cur_e(node.offset, tgt)))
            m = (1 << node.width) - 1
            self.assign(node.value, "((%s & ~(%d << %s)) | ((%s & %d) << %s))" % (cur, m, off, expr, m, off), ind, out, tgt)
        elif isinstance(node, _ArrayProxy):
            key = self.t(); val = self.t()
            out.append("%s%s = %s" % (p, val, expr))
            out.append("%s%s = min(%d, %s)" % (p, key, len(node.choices) - 1, self.e(node.key)))
            for i, c in enumerate(node.choices):
                out.append("%s%s %s == %d:" % (p, "if" if i == 0 else "elif", key, i))
                self.assign(c, val, ind + 1, out, tgt)
        else:
            raise NotImplementedError(type(node))

    def cur_e(self, node, tgt):
        # migen evaluates Part offsets post-commit; offsets are in practice plain signals/constants
        if isinstance(node, Constant): return repr(node.value)
        if isinstance(node, Signal): return tgt(node) if self.is_target(node) else self.n(node)
        return self.e(node)

    def is_target(self, s):
        return s in self.cur_targets

    def cur(self, node, tgt):
        """value of an assignment target 'post-commit' (what migen reads before a partial update)"""
        if isinstance(node, Signal): return tgt(node)
        if isinstance(node, _Slice):
            w = node.stop - node.start
            return "((%s >> %d) & %d)" % (self.cur(node.value, tgt), node.start, (1 << w) - 1)
        if isinstance(node, _ArrayProxy):
            ch = ", ".join(self.cur(c, tgt) for c in node.choices)
            return "(%s,)[min(%d, %s)]" % (ch, len(node.choices) - 1, self.e(node.key))
        if isinstance(node, Cat):
            parts = []; shift = 0
            for el in node.l:
                nb = len(el)
                parts.append("((%s & %d) << %d)" % (self.cur(el, tgt), (1 << nb) - 1, shift)); shift += nb
            return "(" + " | ".join(parts) + ")"
        raise NotImplementedError(type(node))

    def stmts(self, sl, ind, out, tgt):
        p = "    " * ind
        for s in sl:
            if isinstance(s, _Assign):
                self.assign(s.l, self.e(s.r), ind, out, tgt)
            elif isinstance(s, If):
                nb = len(s.cond)
                out.append("%sif %s & %d:" % (p, self.e(s.cond), (1 << nb) - 1))
                k = len(out); self.stmts(s.t, ind + 1, out, tgt)
                if len(out) == k: out.append(p + "    pass")
                if s.f:
                    out.append(p + "else:")
                    k = len(out); self.stmts(s.f, ind + 1, out, tgt)
                    if len(out) == k: out.append(p + "    pass")
            elif isinstance(s, Case):
                nb, signed = value_bits_sign(s.test)
                t = "_ts(%s, %d)" % (self.e(s.test), nb) if signed else "(%s) & %d" % (self.e(s.test), (1 << nb) - 1)
                cv = self.t()
                out.append("%s%s = %s" % (p, cv, t))
                first = True
                for k, v in s.cases.items():
                    if isinstance(k, Constant):
                        out.append("%s%s %s == %d:" % (p, "if" if first else "elif", cv, k.value)); first = False
                        kk = len(out); self.stmts(v, ind + 1, out, tgt)
                        if len(out) == kk: out.append(p + "    pass")
                if "default" in s.cases:
                    if first:
                        self.stmts(s.cases["default"], ind, out, tgt)
                    else:
                        out.append(p + "else:")
                        kk = len(out); self.stmts(s.cases["default"], ind + 1, out, tgt)
                        if len(out) == kk: out.append(p + "    pass")
            elif isinstance(s, collections.abc.Iterable):
                self.stmts(s, ind, out, tgt)
            elif isinstance(s, Display):
                pass
            else:
                raise NotImplementedError(type(s))


class Compiled:
    """Compiled transition function of one elaborated module."""

    def get(self, S, sig):
        o, nb, signed = self.lay[sig]
        v = (S >> o) & ((1 << nb) - 1)
        if signed and v >> (nb - 1): v -= 1 << nb
        return v

    def getter(self, sig):
        o, nb, signed = self.lay[sig]
        m = (1 << nb) - 1
        assert not signed
        return lambda S: (S >> o) & m

    def pack(self, values):
        r = 0
        for s, o, nb in self.layout:
            r |= (values[s] & ((1 << nb) - 1)) << o
        return r

    def unpack(self, S):
        return {s: self.get(S, s) for s, _, _ in self.layout}

    def inputs_from(self, d):
        I = list(self.base_inputs)
        for s, v in d.items():
            I[self.ii[s]] = v
        return tuple(I)


def _lhs_reads(node, r):
    """signals read by an assignment *target* (array keys, part offsets); migen's list_inputs ignores them"""
    if isinstance(node, Signal): return
    if isinstance(node, _Slice): _lhs_reads(node.value, r)
    elif isinstance(node, _Part):
        _lhs_reads(node.value, r); r |= list_signals(node.offset)
    elif isinstance(node, Cat):
        for el in node.l: _lhs_reads(el, r)
    elif isinstance(node, _ArrayProxy):
        r |= list_signals(node.key)
        for c in node.choices: _lhs_reads(c, r)
    else:
        raise NotImplementedError(type(node))


def _deps_of(stmts):
    r = set()
    for st in flatten(stmts):
        if isinstance(st, _Assign):
            r |= list_signals(st.r); _lhs_reads(st.l, r)
        elif isinstance(st, If):
            r |= list_signals(st.cond); r |= _deps_of(st.t); r |= _deps_of(st.f)
        elif isinstance(st, Case):
            r |= list_signals(st.test)
            for v in st.cases.values(): r |= _deps_of(v)
        elif isinstance(st, Display):
            pass
        else:
            raise NotImplementedError(type(st))
    return r


def compile_sim(module, clocks=None, observe=None, keep=None, ticksets=None, force_iter=False, coi=True, drop=(), _sim=None):
    """Compile `module`.

    clocks   : dict domain -> period for the Simulator (default {"sys": 10})
    observe  : comb signals the harness reads (default: all comb targets)
    keep     : registers the harness reads directly from S (always kept by the cone-of-influence pruning)
    ticksets : list of tuples of domain names; one function per tick set (default [("sys",)] or all domains together)
    coi      : drop registers that cannot influence any observed signal / kept register
    drop     : registers removed on the harness' responsibility (e.g. a free-running timer whose only reader is
               constant-disabled); they are excluded from the packed state and their sync statements are not run.
    """
    sim = _sim or Simulator(module, [], clocks=clocks or {"sys": 10})
    f = sim.fragment
    g = Gen(f)
    domains = sorted(f.sync.keys())
    if ticksets is None:
        ticksets = [tuple(domains)] if domains else [()]
    comb_targets = sorted(list_targets(f.comb), key=lambda s: s.duid)
    sync_by_dom = {d: fold(f.sync.get(d, [])) for d in domains}
    sync_targets_all = sorted(set().union(*[list_targets(v) for v in sync_by_dom.values()]) if domains else set(), key=lambda s: s.duid)
    both = set(comb_targets) & set(sync_targets_all)
    if both:
        raise EngineError("signals driven from comb and sync: %r" % both)
    allsigs = set(list_signals(f)) | set(comb_targets) | set(sync_targets_all)
    clk = {cd.clk for cd in f.clock_domains}
    inputs = sorted(allsigs - set(comb_targets) - set(sync_targets_all) - clk, key=lambda s: s.duid)
    stmts = fold(f.comb)
    body = [s for s in stmts if not (isinstance(s, _Assign) and isinstance(s.l, Signal) and isinstance(s.r, Constant) and s.r is s.l.reset)]

    # ---- comb target groups (union-find over co-assigned targets)
    parent = {s: s for s in comb_targets}
    def find(x):
        while parent[x] is not x:
            parent[x] = parent[parent[x]]; x = parent[x]
        return x
    def walk(sl):
        for s in flatten(sl):
            if isinstance(s, _Assign):
                ts = list(list_targets(s))
                for a in ts[1:]: parent[find(a)] = find(ts[0])
            elif isinstance(s, If): walk(s.t); walk(s.f)
            elif isinstance(s, Case):
                for v in s.cases.values(): walk(v)
    walk(body)
    groups = collections.defaultdict(set)
    for s in comb_targets: groups[find(s)].add(s)
    glist = sorted(groups.values(), key=lambda gs: min(x.duid for x in gs))
    proj = [project(body, gs) for gs in glist]
    owner = {}
    for i, gs in enumerate(glist):
        for s in gs: owner[s] = i
    greads = [_deps_of(p) for p in proj]

    # ---- per-register projection of sync statements and dependency sets
    sync_owner = {}
    for d in domains:
        for s in list_targets(sync_by_dom[d]):
            if s in sync_owner and sync_owner[s] != d:
                raise EngineError("register driven from two clock domains")
            sync_owner[s] = d
    # registers co-assigned by one statement must be kept/dropped together
    rparent = {s: s for s in sync_targets_all}
    def rfind(x):
        while rparent[x] is not x:
            rparent[x] = rparent[rparent[x]]; x = rparent[x]
        return x
    def rwalk(sl):
        for s in flatten(sl):
            if isinstance(s, _Assign):
                ts = list(list_targets(s))
                for a in ts[1:]: rparent[rfind(a)] = rfind(ts[0])
            elif isinstance(s, If): rwalk(s.t); rwalk(s.f)
            elif isinstance(s, Case):
                for v in s.cases.values(): rwalk(v)
    for d in domains: rwalk(sync_by_dom[d])
    rgroups = collections.defaultdict(set)
    for s in sync_targets_all: rgroups[rfind(s)].add(s)
    rglist = sorted(rgroups.values(), key=lambda gs: min(x.duid for x in gs))
    rproj = {}; rreads = {}
    for gi, gs in enumerate(rglist):
        d = sync_owner[next(iter(gs))]
        pr = project(sync_by_dom[d], gs)
        rproj[gi] = (d, pr); rreads[gi] = _deps_of(pr)
    rowner = {}
    for gi, gs in enumerate(rglist):
        for s in gs: rowner[s] = gi

    observe = list(comb_targets if observe is None else observe)
    for s in observe:
        if s not in owner:
            raise EngineError("observed signal is not a combinational target: %r (input or register?)" % s)
    keep = set(keep or ())
    drop = set(drop)
    for s in keep:
        if s not in rowner: raise EngineError("kept signal is not a register: %r" % s)

    # ---- cone of influence
    need_groups = set(); need_regs = set()
    work = list(observe) + list(keep)
    if not coi:
        work += sync_targets_all
    seen_sig = set()
    while work:
        s = work.pop()
        if s in seen_sig: continue
        seen_sig.add(s)
        if s in owner:
            gi = owner[s]
            if gi not in need_groups:
                need_groups.add(gi)
                work.extend(glist[gi]); work.extend(greads[gi])
        elif s in rowner:
            if s in drop: continue
            gi = rowner[s]
            if gi not in need_regs:
                need_regs.add(gi)
                work.extend(rglist[gi]); work.extend(rreads[gi])
    sync_targets = sorted([s for gi in need_regs for s in rglist[gi] if s not in drop], key=lambda s: s.duid)
    dropped = [s for s in sync_targets_all if s not in set(sync_targets)]

    # ---- topological order of needed comb groups
    ng = sorted(need_groups)
    pos = {gi: k for k, gi in enumerate(ng)}
    n = len(ng); succ = [set() for _ in range(n)]; indeg = [0] * n; selfdep = 0
    for k, gi in enumerate(ng):
        for r in greads[gi]:
            j = owner.get(r)
            if j is None: continue
            if j == gi: selfdep += 1; continue
            kj = pos[j]
            if k not in succ[kj]: succ[kj].add(k); indeg[k] += 1
    h = [k for k in range(n) if indeg[k] == 0]; heapq.heapify(h); order = []
    while h:
        k = heapq.heappop(h); order.append(k)
        for j in succ[k]:
            indeg[j] -= 1
            if indeg[j] == 0: heapq.heappush(h, j)
    acyclic = len(order) == n and selfdep == 0 and not force_iter
    needed_comb = sorted([s for gi in ng for s in glist[gi]], key=lambda s: s.duid)

    # ---- code generation
    g.cur_targets = set()
    src = ["def _ts(v, nb):", "    v &= (1<<nb)-1", "    return v - (1<<nb) if v >> (nb-1) else v", ""]
    off = 0; lay = []
    for s in sync_targets:
        nb = len(s); lay.append((s, off, nb)); off += nb
    fnames = {}
    peek_src = []
    for ti, ts in enumerate(ticksets):
        fn = "cycle_%d" % ti; fnames[tuple(ts)] = fn
        src.append("def %s(S, I):" % fn)
        for s, o, nb in lay:
            src.append(("    %s = _ts(S >> %d, %d)" if s.signed else "    %s = (S >> %d) & %d") % (g.n(s), o, nb if s.signed else (1 << nb) - 1))
        for s in dropped:
            src.append("    %s = %d" % (g.n(s), s.reset.value))
        if inputs: src.append("    (%s,) = I" % ", ".join(g.n(s) for s in inputs))
        for s in needed_comb: src.append("    %s = %d" % (g.n(s), s.reset.value))
        if acyclic:
            for k in order:
                out = []; g.stmts(proj[ng[k]], 1, out, lambda s: g.n(s)); src += out
        else:
            src.append("    for _it in range(256):")
            src.append("        _old = (%s,)" % ", ".join(g.n(s) for s in needed_comb))
            for s in needed_comb: src.append("        %s_n = %d" % (g.n(s), s.reset.value))
            for gi in ng:
                out = []; g.stmts(proj[gi], 2, out, lambda s: g.n(s) + "_n" if s in owner else g.n(s)); src += out
            for s in needed_comb: src.append("        %s = %s_n" % (g.n(s), g.n(s)))
            src.append("        if _old == (%s,): break" % ", ".join(g.n(s) for s in needed_comb))
            src.append("    else: raise RuntimeError('comb did not settle')")
        if ti == 0:
            # comb-only evaluation (no clock edge): used by harnesses that close a combinational path through the environment
            # (asynchronous-read memories cut out of the netlist)
            k0 = None
            for k_, line in enumerate(src):
                if line.startswith("def %s(" % fn): k0 = k_
            body_lines = src[k0 + 1:]
            peek_src.append("def peek(S, I):")
            peek_src.extend(body_lines)
            peek_src.append("    return (%s)" % "".join(g.n(s) + ", " for s in observe))
            peek_src.append("")
        for s in sync_targets: src.append("    %s_x = %s" % (g.n(s), g.n(s)))
        kept = set(sync_targets)
        for gi in sorted(need_regs):
            d, pr = rproj[gi]
            if d not in ts: continue
            pr2 = project(pr, kept & rglist[gi]) if (rglist[gi] - kept) else pr
            out = []; g.stmts(pr2, 1, out, lambda s: (g.n(s) + "_x") if s in kept else g.n(s)); src += out
        pack = " | ".join("((%s_x & %d) << %d)" % (g.n(s), (1 << nb) - 1, o) for s, o, nb in lay) or "0"
        src.append("    return (%s), (%s)" % (pack, "".join(g.n(s) + ", " for s in observe)))
        src.append("")
    src += peek_src
    code = "\n".join(src); ns = {}
    exec(compile(code, "<fhdl-mc>", "exec"), ns)
    c = Compiled()
    c.cycles = {ts: ns[fn] for ts, fn in fnames.items()}
    c.cycle = ns[fnames[tuple(ticksets[0])]]
    c.peek = ns["peek"]
    c.ticksets = [tuple(t) for t in ticksets]
    c.state = sync_targets; c.dropped = dropped; c.all_regs = sync_targets_all
    c.inputs = inputs; c.ii = {s: i for i, s in enumerate(inputs)}
    c.outputs = observe; c.oi = {s: i for i, s in enumerate(observe)}
    c.comb = comb_targets; c.src = code
    c.layout = lay; c.lay = {s: (o, nb, s.signed) for s, o, nb in lay}
    c.nbits = off
    c.sim = sim; c.single_pass = acyclic; c.ngroups = n; c.fragment = f
    c.base_inputs = [s.reset.value for s in inputs]
    c.reset_state = c.pack({s: s.reset.value for s in sync_targets})
    c.domains = domains
    return c


class SimDriver:
    """Drives the *same* migen Simulator object cycle by cycle (Migen's own Evaluator: eval/execute/commit),
    replacing only the generator/TimeManager loop.  One call of cycle() = one rising edge of the domains in `tick`:
    inputs applied, comb settled (outputs sampled = what a generator's `yield sig` returns), sync executed on the
    pre-edge values, committed, comb settled again."""

    def __init__(self, c):
        self.c = c; self.sim = c.sim; self.ev = c.sim.evaluator
        self.reset()

    def reset(self):
        ev = self.ev
        ev.signal_values.clear(); ev.modifications.clear()
        ev.execute(self.sim.fragment.comb)
        self.sim._commit_and_comb_propagate()

    def value(self, sig):
        return self.ev.signal_values.get(sig, sig.reset.value)

    def cycle(self, I, tick=None):
        c = self.c; ev = self.ev; sim = self.sim
        for s, v in zip(c.inputs, I):
            ev.assign(s, v)
        sim._commit_and_comb_propagate()
        O = tuple(self.value(s) for s in c.outputs)
        for d in (tick if tick is not None else c.ticksets[0]):
            if d in sim.fragment.sync:
                ev.execute(sim.fragment.sync[d])
        sim._commit_and_comb_propagate()
        return O

    def peek(self, I):
        """comb-only: apply inputs, settle, sample outputs (no clock edge)"""
        c = self.c; ev = self.ev
        for s, v in zip(c.inputs, I):
            ev.assign(s, v)
        self.sim._commit_and_comb_propagate()
        return tuple(self.value(s) for s in c.outputs)

    def state(self):
        return self.c.pack({s: self.value(s) for s in self.c.state})

    def load_state(self, S):
        """not used for verdicts; only by selfcheck to start from a non-reset state"""
        for s, v in self.c.unpack(S).items():
            self.ev.assign(s, v)
        self.sim._commit_and_comb_propagate()


def selfcheck(c, cycles=200, seed=0, tick=None):
    """Random values on *all* netlist inputs (incl. resets); compiled step vs Migen's Evaluator, every kept register
    and every observed output, every cycle.  Validates the engine only; decides no property."""
    rnd = random.Random(seed)
    drv = SimDriver(c)
    S = c.reset_state
    ticks = c.ticksets
    for k in range(cycles):
        I = tuple(rnd.getrandbits(len(s)) if rnd.random() < 0.7 else s.reset.value for s in c.inputs)
        # signed inputs: keep as non-negative raw; migen truncates on assign
        I = tuple((v - (1 << len(s)) if (s.signed and v >> (len(s) - 1)) else v) for s, v in zip(c.inputs, I))
        t = ticks[rnd.randrange(len(ticks))] if tick is None else tick
        S2, O = c.cycles[t](S, I)
        O2 = drv.cycle(I, t)
        if tuple(O) != tuple(O2):
            bad = [(i, a, b) for i, (a, b) in enumerate(zip(O, O2)) if a != b]
            raise EngineError("selfcheck: output mismatch at cycle %d: %r" % (k, bad[:5]))
        if S2 != drv.state():
            u1 = c.unpack(S2); bad = [(s.duid, u1[s], drv.value(s)) for s in c.state if (u1[s] & ((1 << len(s)) - 1)) != (drv.value(s) & ((1 << len(s)) - 1))]
            raise EngineError("selfcheck: state mismatch at cycle %d: %r" % (k, bad[:5]))
        S = S2
    drv.reset()
    return cycles


def compile_harness(module, reads, **kw):
    """Compile `module` for a harness that wants to read the signals in `reads` (comb outputs, registers or inputs alike).
    Returns c with c.rd(sig) -> function(S, I, O) giving the value in the current cycle (registers: pre-edge value)."""
    reads = list(dict.fromkeys(reads))
    # first pass: lower and find out which signals are comb targets / registers / inputs
    sim = Simulator(module, [], clocks=kw.get("clocks") or {"sys": 10})
    f = sim.fragment
    comb_t = list_targets(f.comb)
    sync_t = set()
    for d, st in f.sync.items(): sync_t |= list_targets(st)
    obs = [s for s in reads if s in comb_t]
    keep = [s for s in reads if s in sync_t]
    c = compile_sim(module, observe=obs, keep=keep, _sim=sim, **kw)
    oi, ii = c.oi, c.ii

    def rd(sig):
        if sig in oi:
            k = oi[sig]; return lambda S, I, O: O[k]
        if sig in c.lay:
            g = c.getter(sig); return lambda S, I, O: g(S)
        if sig in ii:
            k = ii[sig]; return lambda S, I, O: I[k]
        v = sig.reset.value
        return lambda S, I, O: v          # never driven, never read by the netlist
    c.rd = rd
    return c


def cut_memories(module):
    """Removes every Memory (and its ports) from the module's fragment and returns (fragment, [memory descriptions]).
    The ports' address/data/enable signals stay in the netlist: adr/dat_w/we/re are ordinary outputs of the logic, dat_r becomes a
    free input.  The harness environment then plays the memory primitive with Migen's semantics (sparse contents), which keeps
    large memories (DRAM bank arrays) out of the packed state.  Only the primitive itself is replaced: every address, data and
    enable computation of the design is still explored and replayed on Migen's evaluator."""
    from migen.fhdl.specials import Memory, _MemoryPort
    f = module.get_fragment()
    mems = [m for m in f.specials if isinstance(m, Memory)]
    out = []
    for m in sorted(mems, key=lambda m: m.duid):
        ports = []
        for p in m.ports:
            ports.append(dict(adr=p.adr, dat_r=p.dat_r, dat_w=p.dat_w, we=p.we, re=p.re, async_read=p.async_read,
                              granularity=p.we_granularity, clock=p.clock.cd, mode=p.mode))
        out.append(dict(memory=m, width=m.width, depth=m.depth, init=list(m.init or []), ports=ports))
    f.specials = set(x for x in f.specials if not isinstance(x, (Memory, _MemoryPort)))
    return f, out
