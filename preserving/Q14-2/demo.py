#!/usr/bin/env python3
# Demo for change 2 (ECC read data registered before the decoder, status counted at hand-over): checks property C15 on the observable behaviour of LiteDRAMNativePortECC only
# (user port traffic, stored code words, sec/ded/we error counters and sticky flags).
#
#  - full writes read back unchanged, nothing counted;
#  - any single flipped stored bit of an ECC lane: original data returned, never "uncorrectable", counted as
#    corrected unless the flipped bit is the lane's overall parity bit (bit 0 of the stored lane);
#  - any two flipped bits of a lane: uncorrectable counted, never clean, never (only) corrected;
#  - partial byte enables are reported as granularity errors, full writes are not.
# Bits are flipped directly in the memory model, so no knowledge of the code construction is needed.

import os
import sys
sys.path.insert(0, os.environ.get("LITEDRAM_ROOT", "/repo"))

import random

from migen import *

from litex.soc.cores.ecc import compute_m_n

# Environment shim (not part of the design): python 3.12 cannot extract CSR names from bytecode and the
# installed LiteX CSR has no `wr_stb` strobe; without this LiteDRAMNativePortECC cannot be elaborated here.
import litex.soc.interconnect.csr as _csr
_orig_name, _n = _csr.get_obj_var_name, [0]
def _name(override=None, default=None):
    if override:
        return override
    try:
        r = _orig_name(override, default)
    except Exception:
        r = None
    if r is None:
        _n[0] += 1
        r = "csr%d" % _n[0]
    return r
_csr.get_obj_var_name = _name
if not hasattr(_csr.CSR, "wr_stb"):
    _csr.CSR.wr_stb = property(lambda self: self.re)

from litedram.common import LiteDRAMNativePort
from litedram.frontend.ecc import LiteDRAMNativePortECC

# Memory model on the controller side port ---------------------------------------------------------

class Mem:
    """Many outstanding commands, random cmd/wdata back-pressure, random read latency; like the real
    controller it does not wait for rdata.ready (a dropped word is recorded as a violation)."""
    def __init__(self, port, seed, stall, junk=True):
        self.port  = port
        self.junk  = junk
        self.mem   = {}
        self.prng  = random.Random(seed)
        self.stall = stall
        self.violations = []

    @passive
    def handler(self):
        port, prng = self.port, self.prng
        wq, rq = [], []
        nbytes = port.data_width//8
        while True:
            if (yield port.cmd.valid) and (yield port.cmd.ready):
                addr = (yield port.cmd.addr)
                if (yield port.cmd.we):
                    wq.append(addr)
                else:
                    rq.append([prng.randrange(1, 6), addr])
            if (yield port.wdata.valid) and (yield port.wdata.ready):
                if not wq:
                    self.violations.append("wdata accepted without command")
                else:
                    addr = wq.pop(0)
                    we   = (yield port.wdata.we)
                    data = (yield port.wdata.data)
                    mask = 0
                    for b in range(nbytes):
                        if we & (1 << b):
                            mask |= 0xff << (8*b)
                    self.mem[addr] = (self.mem.get(addr, 0) & ~mask) | (data & mask)
            if (yield port.rdata.valid) and not (yield port.rdata.ready):
                self.violations.append("rdata dropped")
            yield port.cmd.ready.eq(prng.randrange(100) >= self.stall)
            yield port.wdata.ready.eq(bool(wq) and prng.randrange(100) >= self.stall)
            for e in rq:
                e[0] -= 1
            if rq and rq[0][0] <= 0:
                _, addr = rq.pop(0)
                yield port.rdata.valid.eq(1)
                yield port.rdata.data.eq(self.mem.get(addr, 0))
            else:
                if self.junk and (yield port.rdata.valid):
                    yield port.rdata.data.eq(prng.getrandbits(port.data_width))  # don't care while idle
                yield port.rdata.valid.eq(0)
            yield

# Scenario -----------------------------------------------------------------------------------------

def scenario(k, bc, slot, seed, stall, ready_mode, nsingle=None, ndouble=12, lite=False):
    """k: data bits per ECC lane, bc lanes per word, slot: bits reserved per stored lane (>= code word)."""
    _, n = compute_m_n(k)
    cw   = n + 1                         # stored code bits per lane (overall parity is bit 0)
    assert slot >= cw
    from_width, to_width = k*bc, slot*bc
    prng = random.Random(seed)

    class DUT(Module):
        def __init__(self):
            self.port_from = LiteDRAMNativePort("both", 24, from_width)
            self.port_to   = LiteDRAMNativePort("both", 24, to_width)
            self.submodules.ecc = LiteDRAMNativePortECC(self.port_from, self.port_to, burst_cycles=bc,
                with_we_error_detection=True)

    dut  = DUT()
    junk = k <= 16   # random values on idle buses (kept off for the wide lanes: simulation speed)
    mem  = Mem(dut.port_to, seed + 100, stall, junk)
    port = dut.port_from
    full = 2**(from_width//8) - 1
    lane_mask = 2**k - 1

    def command(addr, we):
        yield port.cmd.valid.eq(1)
        yield port.cmd.we.eq(we)
        yield port.cmd.addr.eq(addr)
        yield
        while not (yield port.cmd.ready):
            yield
        yield port.cmd.valid.eq(0)

    def write(addr, data, we=full):
        yield from command(addr, 1)
        yield port.wdata.valid.eq(1)
        yield port.wdata.we.eq(we)
        yield port.wdata.data.eq(data)
        yield
        while not (yield port.wdata.ready):
            yield
        yield port.wdata.valid.eq(0)
        if junk:
            yield port.wdata.data.eq(prng.getrandbits(from_width))   # don't care while idle
            yield port.wdata.we.eq(prng.getrandbits(from_width//8))  # don't care while idle
        for _ in range(prng.randrange(3)):
            yield

    def write_burst(addr, datas):
        # All commands first, then the data words back to back (valid held high).
        for i in range(len(datas)):
            yield from command(addr + i, 1)
        yield port.wdata.valid.eq(1)
        yield port.wdata.we.eq(full)
        for d in datas:
            yield port.wdata.data.eq(d)
            yield
            while not (yield port.wdata.ready):
                yield
        yield port.wdata.valid.eq(0)

    def read(addr):
        if ready_mode == "always":
            yield port.rdata.ready.eq(1)
        else:
            yield port.rdata.ready.eq(0)
        yield from command(addr, 0)
        yield
        while not (yield port.rdata.valid):
            yield
        if ready_mode != "always":
            for _ in range(prng.randrange(3)):   # take the word a little later
                yield
            assert (yield port.rdata.valid)
            yield port.rdata.ready.eq(1)
            data = (yield port.rdata.data)
            yield
            yield port.rdata.ready.eq(0)
        else:
            data = (yield port.rdata.data)
        return data

    def settle():
        # Let write data drain to the memory / counters update, then sample the observable status.
        for _ in range(24):
            yield
        return dict(
            sec = (yield dut.ecc.sec_errors.status),
            ded = (yield dut.ecc.ded_errors.status),
            we  = (yield dut.ecc.we_errors.status),
            sec_detected = (yield dut.ecc.sec_detected),
            ded_detected = (yield dut.ecc.ded_detected),
        )

    def clear():
        yield dut.ecc.clear.re.eq(1)
        yield dut.ecc.clear.r.eq(1)
        yield
        yield dut.ecc.clear.re.eq(0)
        yield dut.ecc.clear.r.eq(0)
        yield

    def main():
        for _ in range(3):
            yield
        # 1. Full writes, faithful memory.
        words = {a: prng.getrandbits(from_width) for a in range(3 if lite else 6)}
        words[0] = 0
        words[1] = 2**from_width - 1
        for a, d in words.items():
            yield from write(a, d)
        burst = [prng.getrandbits(from_width) for _ in range(2 if lite else 5)]
        yield from write_burst(len(words), burst)
        for d in burst:
            words[len(words)] = d
        st = yield from settle()
        assert st["we"] == 0, st                     # full writes are not granularity errors
        for a, d in words.items():
            assert (yield from read(a)) == d
        st = yield from settle()
        assert st == dict(sec=0, ded=0, we=0, sec_detected=0, ded_detected=0), st
        golden = dict(mem.mem)

        # 2. Single flips: every stored bit position of one lane, random positions in the others.
        lane0 = prng.randrange(bc)
        singles = [(lane0, b) for b in range(cw)] + \
                  [(prng.randrange(bc), prng.randrange(cw)) for _ in range(6)]
        if nsingle is not None:
            singles = prng.sample(singles, nsingle) + [(lane0, 0), (lane0, cw - 1)]
        if lite:
            singles = [(lane0, 0), (lane0, cw - 1), (lane0, prng.randrange(1, cw - 1))]
        sec = ded = 0
        for lane, bit in singles:
            a = prng.randrange(len(words))
            mem.mem[a] = golden[a] ^ (1 << (lane*slot + bit))
            assert (yield from read(a)) == words[a], ("single", lane, bit)
            mem.mem[a] = golden[a]
            st = yield from settle()
            if bit != 0:
                sec += 1
            assert st["sec"] == sec and st["ded"] == ded == 0, ("single", lane, bit, st, sec)
            assert st["ded_detected"] == 0 and st["sec_detected"] == (sec != 0)
        # One flip in each of two different lanes of the same word: both corrected, one event.
        if bc >= 2:
            a = 2
            mem.mem[a] = golden[a] ^ (1 << (0*slot + 3)) ^ (1 << ((bc - 1)*slot + cw - 2))
            assert (yield from read(a)) == words[a]
            mem.mem[a] = golden[a]
            st = yield from settle()
            sec += 1
            assert st["sec"] == sec and st["ded"] == 0, st

        # 3. Double flips inside one lane.
        yield from clear()
        st = yield from settle()
        assert st == dict(sec=0, ded=0, we=0, sec_detected=0, ded_detected=0), st
        doubles = [(prng.randrange(bc),) + tuple(prng.sample(range(cw), 2)) for _ in range(ndouble)]
        doubles += [(lane0, 0, 1), (lane0, 0, cw - 1), (lane0, 1, 2), (lane0, cw - 2, cw - 1)]
        if lite:
            doubles = [(lane0, 0, cw - 1), (lane0,) + tuple(prng.sample(range(1, cw), 2))]
        for lane, b0, b1 in doubles:
            a = prng.randrange(len(words))
            mem.mem[a] = golden[a] ^ (1 << (lane*slot + b0)) ^ (1 << (lane*slot + b1))
            got = yield from read(a)
            mem.mem[a] = golden[a]
            # The other lanes are still delivered unchanged.
            for l in range(bc):
                if l != lane:
                    assert (got >> (l*k)) & lane_mask == (words[a] >> (l*k)) & lane_mask
            st = yield from settle()
            ded += 1
            assert st["ded"] == ded and st["sec"] == 0, ("double", lane, b0, b1, st, ded)
            assert st["ded_detected"] == 1 and st["sec_detected"] == 0

        # 4. Byte enable granularity.
        yield from clear()
        for we in [1, full >> 1, full & ~2, prng.getrandbits(from_width//8) & (full - 1) | 2][:1 if lite else 4]:
            before = (yield from settle())["we"]
            yield from write(40, prng.getrandbits(from_width), we=we)
            after  = (yield from settle())["we"]
            assert after > before, ("partial write not reported", hex(we))
            yield from write(41, prng.getrandbits(from_width), we=full)
            assert (yield from settle())["we"] == after, "full write reported"
        if slot % 8 == 0 and bc >= 2:
            # Lanes are byte aligned: a lane with any enabled byte is stored completely, others are kept.
            old = prng.getrandbits(from_width)
            new = prng.getrandbits(from_width)
            yield from write(50, old)
            we = 0
            sel = set([1, bc//2, bc - 1])
            for l in sel:
                we |= 1 << (l*(k//8) + prng.randrange(k//8))
            yield from write(50, new, we=we)
            yield from settle()
            exp = 0
            for l in range(bc):
                src = new if l in sel else old
                exp |= ((src >> (l*k)) & lane_mask) << (l*k)
            yield from clear()
            assert (yield from read(50)) == exp
            st = yield from settle()
            assert st["sec"] == 0 and st["ded"] == 0

        assert not mem.violations, mem.violations

    run_simulation(dut, [main(), mem.handler()])


if __name__ == "__main__":
    import time
    #  k, lanes, slot, seed, stall, rdata.ready mode, nsingle, ndouble
    for args in [
        ( 8, 8, 13, 1, 30, "late",   None, 6),   # 64 -> 104 bit (default shape), all 13 positions of a lane
        ( 8, 2, 16, 5, 50, "always", None, 8),   # byte aligned lanes
        (16, 2, 24, 2,  0, "always", None, 8),   # all 22 positions
        (32, 2, 40, 3, 60, "late",   8,    3),
        (64, 1, 72, 4, 30, "always", None, 0, True),
    ]:
        t = time.time()
        scenario(*args)
        print("ok", args, "%.1fs" % (time.time() - t), flush=True)
    print("PASS")
