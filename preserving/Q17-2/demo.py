#!/usr/bin/env python3
# demo2: C17 - the generated initialisation programs the DRAM consistently with the controller.
#
# A small behavioural model of the DRAM's mode registers "executes" the generated sequence entry by
# entry (nothing is looked up by position or by comment text). Afterwards:
#   * the JEDEC-decoded burst length / CAS latency / CAS write latency / write recovery of the
#     registers that are in force at the end equal what the PHY and the controller operate with
#   * the sequence is legal for the memory type (CKE/reset first, banks precharged before refreshes
#     and mode register loads, >= 2 refreshes, DLL reset not left set, OCD exit, ZQ calibration last ...)
#   * the C and the Python renderings describe this very sequence
#   * the three reference Python headers shipped in test/reference are still reproduced
# Works on the unchanged code and with patch2 applied. Exits 0 and prints PASS.
import sys, re, math
sys.path.insert(0, "/repo")

import litedram
assert litedram.__file__.startswith("/repo/"), litedram.__file__
from litedram.common import PhySettings, GeomSettings
from litedram import modules as M
from litedram.init import (get_sdram_phy_init_sequence, get_sdram_phy_c_header, get_sdram_phy_py_header)

CMD = dict(CS=1, WE=2, CAS=4, RAS=8)
CTL = dict(SEL=1, CKE=2, ODT=4, RESET_N=8)

def flags(expr):
    """'DFII_COMMAND_RAS|DFII_COMMAND_WE' -> ("COMMAND", {"RAS", "WE"})"""
    kinds, names = set(), set()
    for tok in expr.split("|"):
        m = re.fullmatch(r"DFII_(COMMAND|CONTROL)_([A-Z_]+)", tok.strip().upper())
        assert m, expr
        kinds.add(m.group(1)); names.add(m.group(2))
    assert len(kinds) == 1, expr
    return kinds.pop(), frozenset(names)

MRS  = frozenset(["RAS", "CAS", "WE", "CS"])
PRE  = frozenset(["RAS", "WE", "CS"])
REF  = frozenset(["RAS", "CAS", "CS"])
ZQC  = frozenset(["WE", "CS"])

class DRAM:
    """Mode register file + the few facts about the order of commands that matter."""
    def __init__(self, memtype):
        self.memtype = memtype
        self.cke = False; self.reset_n = memtype in ("SDR", "DDR", "LPDDR", "DDR2")
        self.mr = {}           # ba/ma -> last value written
        self.mr_writes = []    # (ba, value) in order
        self.precharged = False
        self.refreshes = 0
        self.dll_was_reset = False
        self.zq = []
        self.after_zq = 0
        self.errors = []

    def err(self, *a):
        self.errors.append(a)

    def execute(self, a, ba, cmd):
        kind, f = flags(cmd)
        if kind == "CONTROL":
            self.reset_n = "RESET_N" in f or self.memtype in ("SDR", "DDR", "LPDDR", "DDR2")
            if "CKE" in f and not self.reset_n:
                self.err("CKE raised while in reset")
            self.cke = "CKE" in f
            return
        if self.memtype != "LPDDR5" and not self.cke:
            self.err("command with CKE low", cmd)
        if not self.reset_n:
            self.err("command while in reset", cmd)
        if self.zq and f != ZQC:
            self.after_zq += 1
        if f == MRS:
            if self.memtype in ("SDR", "DDR", "LPDDR", "DDR2") and not self.precharged:
                self.err("mode register load with banks possibly open")
            self.mr[ba] = a
            self.mr_writes.append((ba, a))
            if self.memtype in ("DDR", "DDR2") and ba == 0 and a & 0x100:
                self.dll_was_reset = True
        elif f == PRE:
            if not a & 0x400:
                self.err("precharge is not Precharge All")
            self.precharged = True
        elif f == REF:
            if not self.precharged:
                self.err("refresh with banks possibly open")
            self.refreshes += 1
        elif f == ZQC:
            self.zq.append((a, ba))
        else:
            self.err("unexpected command", cmd)

def run(memtype, seq):
    d = DRAM(memtype)
    for comment, a, ba, cmd, delay in seq:
        assert isinstance(a, int) and isinstance(ba, int) and isinstance(delay, int) and delay >= 0
        d.execute(a, ba, cmd)
    return d

# JEDEC decoders -----------------------------------------------------------------------------------
DDR3_CL = {0b0010: 5, 0b0100: 6, 0b0110: 7, 0b1000: 8, 0b1010: 9, 0b1100: 10, 0b1110: 11, 0b0001: 12,
           0b0011: 13, 0b0101: 14}
DDR3_WR = {0: 16, 1: 5, 2: 6, 3: 7, 4: 8, 5: 10, 6: 12, 7: 14}
DDR4_CL = {0: 9, 1: 10, 2: 11, 3: 12, 4: 13, 5: 14, 6: 15, 7: 16, 8: 18, 9: 20, 10: 22, 11: 24, 12: 23,
           13: 17, 14: 19, 15: 21, 16: 25, 17: 26, 18: 27, 19: 28, 20: 29, 21: 30, 22: 31, 23: 32}
DDR4_WR = {0: 10, 1: 12, 2: 14, 3: 16, 4: 18, 5: 20, 6: 24, 7: 22, 8: 26, 9: 28}
DDR4_CWL = {0: 9, 1: 10, 2: 11, 3: 12, 4: 14, 5: 16, 6: 18, 7: 20}
LP4_RL = {0: 6, 1: 10, 2: 14, 3: 20, 4: 24, 5: 28, 6: 32, 7: 36}
LP4_WL = {0: 4, 1: 6, 2: 8, 3: 10, 4: 12, 5: 14, 6: 16, 7: 18}
LP4_NWR = {0: 6, 1: 10, 2: 16, 3: 20, 4: 24, 5: 30, 6: 34, 7: 40}

def decode(memtype, mr):
    r = {}
    if memtype in ("SDR", "DDR", "LPDDR", "DDR2"):
        m = mr[0]
        r["bl"] = 1 << (m & 7); r["cl"] = (m >> 4) & 7; r["seq_interleave"] = (m >> 3) & 1
        if memtype == "DDR2":
            r["dll_reset"] = (m >> 8) & 1; r["wr"] = ((m >> 9) & 7) + 1; r["rest"] = m >> 12
            r["ocd"] = (mr[1] >> 7) & 7
        else:
            r["rest"] = m >> 7          # operating mode bits (DLL reset / test): 0 in normal operation
    elif memtype == "DDR3":
        m0, m2 = mr[0], mr[2]
        r["bl"] = {0: 8, 1: "otf", 2: 4}[m0 & 3]
        r["cl"] = DDR3_CL[((m0 >> 4) & 7) << 1 | ((m0 >> 2) & 1)]
        r["wr"] = DDR3_WR[(m0 >> 9) & 7]
        r["cwl"] = ((m2 >> 3) & 7) + 5
        r["rest"] = (m0 >> 13) | (m0 & 0x80) | (m2 & 0x7) | (m2 >> 11) | (mr[1] & ~0x1AFF & 0xFFFF) | mr[3] >> 3
    elif memtype == "DDR4":
        m0, m2 = mr[0], mr[2]
        r["bl"] = {0: 8, 1: "otf", 2: 4}[m0 & 3]
        r["cl"] = DDR4_CL[((m0 >> 12) & 1) << 4 | ((m0 >> 4) & 7) << 1 | ((m0 >> 2) & 1)]
        r["wr"] = DDR4_WR[((m0 >> 13) & 1) << 3 | ((m0 >> 9) & 7)]
        r["cwl"] = DDR4_CWL[(m2 >> 3) & 7]
        r["rest"] = (m0 >> 14) | (m0 & 0x80) | (m2 & 0x7) | (m2 >> 13)
    elif memtype == "LPDDR4":
        r["bl"] = {0: 16, 1: 32, 2: "otf"}[mr[1] & 3]
        r["wr"] = LP4_NWR[(mr[1] >> 4) & 7]
        r["cl"] = LP4_RL[mr[2] & 7]; r["cwl"] = LP4_WL[(mr[2] >> 3) & 7]
        r["rest"] = max(mr.values()) >> 8
    return r

# Renderings ---------------------------------------------------------------------------------------
def parse_py(text):
    ns = {}
    exec(text, ns)
    back = {}
    out = []
    for comment, a, ba, cmdval, delay in ns["init_sequence"]:
        out.append((comment, a, ba, cmdval, delay))
    return out, ns

def seq_to_py_values(seq, ns):
    out = []
    for comment, a, ba, cmd, delay in seq:
        v = 0
        for tok in cmd.split("|"):
            v |= ns[tok.strip().lower()]
        out.append((comment, a, ba, v, delay))
    return out

def parse_c(text):
    body = text[text.index("static inline void init_sequence(void)"):]
    ops = []
    cur = None
    for line in body.splitlines():
        line = line.strip()
        m = re.fullmatch(r"/\* (.*) \*/", line)
        if m:
            cur = dict(comment=m.group(1), delay=0); ops.append(cur); continue
        m = re.fullmatch(r"sdram_dfii_pi0_address_write\((\w+)\);", line)
        if m: cur["a"] = int(m.group(1), 0); continue
        m = re.fullmatch(r"sdram_dfii_pi0_baddress_write\((\w+)\);", line)
        if m: cur["ba"] = int(m.group(1), 0); continue
        m = re.fullmatch(r"(?:command_p0|sdram_dfii_control_write)\((.*)\);", line)
        if m: cur["cmd"] = m.group(1); continue
        m = re.fullmatch(r"cdelay\((\d+)\);", line)
        if m: cur["delay"] = int(m.group(1)); continue
    return [(o["comment"], o["a"], o["ba"], o["cmd"], o["delay"]) for o in ops]

# Scenarios ----------------------------------------------------------------------------------------
def phy(memtype, nphases, cl, cwl=None, **kw):
    s = PhySettings(phytype="DEMOPHY", memtype=memtype, databits=16, dfi_databits=32, nphases=nphases,
        rdphase=0, wrphase=0, cl=cl, cwl=cwl, read_latency=cl + 2, write_latency=1,
        write_leveling=memtype in ("DDR3", "DDR4"), read_leveling=True, delays=32, bitslips=8)
    for k, v in kw.items():
        setattr(s, k, v)
    return s

scenarios = []   # (memtype, module class, clk, nphases, cl, cwl)
for cl in (2, 3):
    scenarios += [("SDR", M.MT48LC16M16, 100e6, 1, cl, None), ("SDR", M.AS4C32M16, 50e6, 2, cl, None)]
    scenarios += [("DDR", M.MT46V32M16, 100e6, 2, cl, None), ("LPDDR", M.MT46H32M16, 83e6, 2, cl, None),
                  ("LPDDR", M.MT46H64M16, 50e6, 2, cl, None)]
for cl, cwl in ((3, 2), (4, 3), (5, 4), (6, 5)):
    scenarios += [("DDR2", M.MT47H64M16, 100e6, 2, cl, cwl), ("DDR2", M.K4T1G164QGBCE7, 133e6, 2, cl, cwl)]
for cl, cwl in ((5, 5), (6, 5), (7, 6), (8, 6), (9, 7), (10, 7), (11, 8), (13, 9)):
    scenarios += [("DDR3", M.MT41K128M16, 100e6, 4, cl, cwl), ("DDR3", M.MT8JTF12864, 125e6, 4, cl, cwl),
                  ("DDR3", M.MT41J256M16, 200e6, 4, cl, cwl), ("DDR3", M.MT41K64M16, 150e6, 2, cl, cwl)]
for cl, cwl in ((9, 9), (11, 9), (13, 10), (15, 11), (16, 12), (18, 14)):
    scenarios += [("DDR4", M.MT40A512M8, 125e6, 4, cl, cwl), ("DDR4", M.EDY4016A, 200e6, 4, cl, cwl),
                  ("DDR4", M.MTA18ASF2G72PZ, 150e6, 4, cl, cwl)]
for cl, cwl in ((6, 4), (10, 6), (14, 8), (20, 10), (24, 12), (28, 14), (32, 16), (36, 18)):
    scenarios += [("LPDDR4", M.MT53E256M16D1, 50e6, 8, cl, cwl), ("LPDDR4", M.MT53E256M16D1, 100e6, 8, cl, cwl)]

errors = []
def expect(cond, *what):
    if not cond:
        errors.append(what)

geom = GeomSettings(bankbits=3, rowbits=14, colbits=10)
nscen = 0
for memtype, cls, clk, nphases, cl, cwl in scenarios:
    variants = [dict()]
    if memtype == "DDR4":
        variants = [dict(), dict(fine="2x"), dict(fine="4x"), dict(rdimm=True), dict(clam=True),
                    dict(rdimm=True, clam=True)]
    for var in variants:
        nscen += 1
        tag = (memtype, cls.__name__, clk, nphases, cl, cwl, tuple(var))
        module = cls(clk, "1:{}".format(nphases), fine_refresh_mode=var.get("fine"))
        ts = module.timing_settings
        ps = phy(memtype, nphases, cl, cwl)
        if var.get("rdimm"):
            ps.set_rdimm(tck=2/(2*nphases*clk), rcd_pll_bypass=False, rcd_ca_cs_drive=0x5,
                         rcd_odt_cke_drive=0x5, rcd_clk_drive=0x5)
        if var.get("clam"):
            ps.is_clam_shell = True

        seq, mr_ret = get_sdram_phy_init_sequence(ps, ts)
        d = run(memtype, seq)
        for e in d.errors:
            expect(False, tag, *e)

        # registers in force at the end
        regs = {ba: v for ba, v in d.mr.items() if not (var.get("rdimm") and ba == 7)}
        dec = decode(memtype, regs)
        bl_expected = {"SDR": nphases, "DDR": 4, "LPDDR": 4, "DDR2": 4, "DDR3": 8, "DDR4": 8, "LPDDR4": 16}[memtype]
        expect(dec["bl"] == bl_expected, tag, "BL", dec["bl"], bl_expected)
        expect(dec["cl"] == cl, tag, "CL", dec["cl"], cl)
        expect(dec["rest"] == 0, tag, "bits outside the fields / operating mode not normal", dec["rest"])
        if "cwl" in dec:
            expect(dec["cwl"] == cwl, tag, "CWL", dec["cwl"], cwl)
        if memtype in ("DDR3", "DDR4"):
            tck = 1e9/(clk*nphases)
            twr_ns = module.get("tWR").ns
            expect(dec["wr"] >= math.ceil(twr_ns/tck - 1e-9), tag, "WR below tWR", dec["wr"], twr_ns/tck)
            expect(dec["wr"] <= ts.tWR*nphases, tag, "WR above what the controller waits", dec["wr"], ts.tWR*nphases)
            if memtype == "DDR4":
                expect((regs[3] >> 6) & 7 == {"1x": 0, "2x": 1, "4x": 2}[ts.fine_refresh_mode], tag, "fine refresh")
        if memtype == "LPDDR4":
            expect(dec["wr"] == {6: 6, 10: 10, 14: 16, 20: 20, 24: 24, 28: 30, 32: 34, 36: 40}[cl], tag, "nWR", dec["wr"])
            expect(mr_ret == d.mr, tag, "returned mode registers differ from the programmed ones")

        # legality of the order
        if memtype in ("SDR", "DDR", "LPDDR", "DDR2"):
            expect(d.refreshes >= 2, tag, "less than two refreshes")
            expect(d.mr_writes and d.mr_writes[-1][0] in (0, 1, 2), tag, "no mode register programmed")
        if memtype in ("DDR", "DDR2"):
            expect(d.dll_was_reset, tag, "DLL never reset")
        if memtype == "LPDDR":
            expect(set(d.mr) == {0, 2}, tag, "LPDDR registers", sorted(d.mr))
            expect(d.mr[2] == 0, tag, "EMR")
        if memtype == "DDR2":
            order = [ba for ba, _ in d.mr_writes]
            expect(set(order) == {0, 1, 2, 3}, tag, "DDR2 registers", order)
            expect(max(order.index(2), order.index(3)) < min(order.index(1), order.index(0)), tag,
                   "EMR2/EMR3 not before EMR/MR", order)
            expect(order.index(1) < order.index(0), tag, "DLL enable (EMR) not before DLL reset (MR)", order)
            emr1 = [v for ba, v in d.mr_writes if ba == 1]
            expect(len(emr1) >= 3 and (emr1[-2] >> 7) & 7 == 7 and (emr1[-1] >> 7) & 7 == 0, tag, "OCD default/exit")
            expect(dec["wr"] == 3, tag, "WR", dec["wr"])
        if memtype in ("DDR3", "DDR4"):
            nregs = 4 if memtype == "DDR3" else 7
            expect(set(regs) == set(range(nregs)), tag, "registers", sorted(regs))
            expect(len(d.zq) == 1 and d.zq[0][0] & 0x400 and d.after_zq == 0, tag, "ZQCL not last")
            expect([ba for ba, _ in d.mr_writes if ba != 7][-1] == 0, tag, "MR0 (DLL reset) not the last register")
            expect(mr_ret is not None and mr_ret.get(1) == regs[1], tag, "returned MR1")
        if memtype == "LPDDR4":
            expect(len(d.zq) == 2 and d.after_zq == 0, tag, "ZQ start/latch not last")
            expect(set(d.mr) == {1, 2, 3, 11, 12, 13, 14}, tag, "registers", sorted(d.mr))
            expect(len(d.mr_writes) == len(d.mr), tag, "register written twice")

        # renderings
        py_text = get_sdram_phy_py_header(ps, ts)
        py_seq, ns = parse_py(py_text)
        c_seq = parse_c(get_sdram_phy_c_header(ps, ts, geom))
        if not var.get("rdimm") and not var.get("clam"):
            expect(py_seq == seq_to_py_values(seq, ns), tag, "Python rendering differs from the sequence")
            expect(c_seq == [tuple(e) for e in seq], tag, "C rendering differs from the sequence")
        if not var.get("clam"):
            # same commands, same order, in both renderings (also with the RDIMM A/B side duplication)
            expect([(c, a, ba, d_) for c, a, ba, _, d_ in py_seq] == [(c, a, ba, d_) for c, a, ba, _, d_ in c_seq],
                   tag, "C and Python renderings differ")
            expect([v for _, _, _, v, _ in py_seq] == [v for _, _, _, v, _ in seq_to_py_values(c_seq, ns)],
                   tag, "C and Python commands differ")
        else:
            # clam shell: mode register loads go to top and bottom in the C rendering only
            expect(len(c_seq) == len(py_seq) + sum(1 for e in py_seq if e[3] == 0xf), tag, "clam shell rendering")

# Shipped reference headers ------------------------------------------------------------------------
class _TS: pass
def ref_check(name, ps, twtr, frm=None):
    ts = _TS(); ts.tWTR = twtr; ts.fine_refresh_mode = frm
    ref = open("/repo/test/reference/" + name + "_init.py").read()
    expect(get_sdram_phy_py_header(ps, ts) == ref, name, "reference Python header not reproduced")
    cref = open("/repo/test/reference/" + name + "_init.h").read()
    expect(parse_c(get_sdram_phy_c_header(ps, ts, geom)) == parse_c(cref), name, "reference C init_sequence() not reproduced")
ref_check("sdr",  phy("SDR", 1, 2), 2)
ref_check("ddr3", phy("DDR3", 4, 7, 6), 2)
ref_check("ddr4", phy("DDR4", 4, 9, 9), 2, "1x")

for e in errors[:30]:
    print("VIOLATION", e)
print("scenarios: {}, violations: {}".format(nscen, len(errors)))
if errors:
    print("FAIL"); sys.exit(1)
print("PASS")
