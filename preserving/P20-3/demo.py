#!/usr/bin/env python3
"""demo3: LPDDR5 command path, DFI commands -> CS/CA (C20).

Drives pseudo-random DFI command traffic (all command types incl. MPC/MRR/NOP specials, random
bank/address bits, all command spacings from back-to-back up) into
  * the PHY core `LPDDR5PHY` (observed on `phy.out.cs/ca`, one CK cycle per sys cycle),
  * `LPDDR5SimPHY` (observed on the serialized CS/CA pads), WCK:CK 2:1 and 4:1,
decodes the CS/CA stream with an independent JEDEC LPDDR5 command decoder and compares it with
the commands that are expected to reach the DRAM. Only the constant latency of the command path is
inferred; operation, bank, row/column, AP/AB, MR address/operand, the relative CK cycle of every
command and the absence of any other CS activity are checked. A DFI command takes 2 CK cycles,
so a command that directly follows one that has been sent is the only thing that is dropped.

Works on the unmodified tree and with patch3 applied. Run: cd /repo && /venv/bin/python _out/demo3.py
"""
import sys
import dis
import random

sys.path.insert(0, "/repo")

# Environment shims (Python 3.12 vs migen name tracer, LiteX CSR strobe name) ----------------------

def install_env_shims():
    from litex.soc.interconnect.csr import CSR
    if not hasattr(CSR, "wr_stb"):
        CSR.wr_stb = property(lambda self: self.re)
    if sys.version_info < (3, 11):
        return
    import migen.fhdl.tracer as tracer
    cache = {}
    stores = ("STORE_NAME", "STORE_ATTR", "STORE_FAST", "STORE_DEREF", "STORE_GLOBAL")
    skips  = ("LOAD_GLOBAL", "LOAD_ATTR", "LOAD_FAST", "LOAD_FAST_CHECK", "LOAD_DEREF", "LOAD_NAME",
              "COPY", "SWAP", "BUILD_LIST")
    def get_var_name(frame):
        code = frame.f_code
        if code not in cache:
            instrs = list(dis.get_instructions(code))
            cache[code] = (instrs, {i.offset: n for n, i in enumerate(instrs)})
        instrs, index = cache[code]
        n = index.get(frame.f_lasti)
        if n is None or not instrs[n].opname.startswith("CALL"):
            return None
        for i in instrs[n+1:]:
            if i.opname in stores:
                return i.argval
            if i.opname not in skips:
                return None
        return None
    tracer.get_var_name = get_var_name

install_env_shims()

from migen import *
from migen import run_simulation as migen_run_simulation

import litedram
assert litedram.__file__.startswith("/repo/"), litedram.__file__

from litedram.phy.utils import Latency
from litedram.phy.lpddr5.basephy import LPDDR5PHY
from litedram.phy.lpddr5.simphy import LPDDR5SimPHY
import test.phy_common

# DFI side -----------------------------------------------------------------------------------------

DFI_CMDS = {  # name: (cas_n, ras_n, we_n)
    "NOP": (1, 1, 1), "ACT": (1, 0, 1), "RD":  (0, 1, 1), "WR":  (0, 1, 0),
    "PRE": (1, 0, 0), "REF": (0, 0, 1), "ZQC": (1, 1, 0), "MRS": (0, 0, 0),
}
ZQC_LATCH = 0b10000110

def dfi(name, bank=0, address=0, cs_n=0):
    cas_n, ras_n, we_n = DFI_CMDS[name]
    return dict(name=name, cs_n=cs_n, cas_n=cas_n, ras_n=ras_n, we_n=we_n, bank=bank, address=address)

def b(v, i):
    return (v >> i) & 1

def expected_operation(c, masked_write):
    if c is None or c["cs_n"]:
        return None
    n, bank, a = c["name"], c["bank"], c["address"]
    if n == "ACT": return ("ACT", bank & 0xf, a & 0x3ffff)
    if n == "RD":  return ("RD16", bank & 0xf, (a >> 4) & 0x3f, b(a, 10))
    if n == "WR":  return ("MWR" if masked_write else "WR16", bank & 0xf, (a >> 4) & 0x3f, b(a, 10))
    if n == "PRE": return ("PRE", bank & 0xf, b(a, 10))
    if n == "REF": return ("REF", bank & 0x7, b(a, 10))
    if n == "MRS": return ("MRW", bank & 0x7f, a & 0xff)
    if n == "ZQC":
        if bank == 0: return ("MPC", (a & 0xff) if a != 0 else ZQC_LATCH)
        if bank == 1: return ("MRR", a & 0x7f)
        if bank == 2: return ("NOP",)
    return None

def expected_stream(sequence, masked_write):
    """[(anchor cycle, operation)]: a command given in cycle n ends in cycle n+1 (the anchor)"""
    out = []
    last_sent = None
    for n, c in enumerate(sequence):
        op = expected_operation(c, masked_write)
        if op is not None and last_sent != n - 1:
            out.append((n + 1, op))
            last_sent = n
    return out

# DRAM side: independent JEDEC LPDDR5 decoder ------------------------------------------------------

def decode_small(r, f):
    """One CK cycle with CS high: CA[6:0] on the rising (r) and falling (f) CK edge"""
    c = tuple(b(r, i) for i in range(7))
    if c[:3] == (1, 1, 1): return ("ACT-1", dict(r14_17=r >> 3, ba=f & 0xf, r11_13=f >> 4))
    if c[:3] == (1, 1, 0): return ("ACT-2", dict(r7_10=r >> 3, r0_6=f))
    col = dict(c0=b(r, 3), c3_5=r >> 4, ba=f & 0xf, c1_2=(f >> 4) & 3, ap=b(f, 6))
    if c[:3] == (0, 1, 0): return ("MWR", col)
    if c[:3] == (0, 1, 1): return ("WR16", col)
    if c[:3] == (1, 0, 0): return ("RD16", col)
    if c[:4] == (0, 0, 1, 1):
        assert f == 0, "CAS: DC/WRX/WXS functions are not used"
        return ("CAS", dict(ws=(r >> 4)))
    if c == (0, 0, 0, 1, 1, 1, 1): return ("PRE", dict(ba=f & 0xf, ab=b(f, 6)))     # CA4, CA5: V
    if c == (0, 0, 0, 1, 1, 1, 0):
        assert b(f, 3) == 0 and b(f, 4) == 0, "REF: RFM/SB0 are not used"
        return ("REF", dict(ba=f & 0x7, ab=b(f, 6)))                                  # CA5: V
    if c[:6] == (0, 0, 0, 0, 1, 1): return ("MPC", dict(op=f | b(r, 6) << 7))
    if c == (0, 0, 0, 1, 1, 0, 1): return ("MRW-1", dict(ma=f))
    if c[:6] == (0, 0, 0, 1, 0, 0): return ("MRW-2", dict(op=f | b(r, 6) << 7))
    if c == (0, 0, 0, 1, 1, 0, 0): return ("MRR", dict(ma=f))
    if c == (0, 0, 0, 0, 0, 0, 0): return ("NOP", dict())
    raise AssertionError(f"not an (expected) LPDDR5 command: CA={r:07b}")

def decode_stream(cs, ca_r, ca_f):
    smalls = [(n, *decode_small(ca_r[n], ca_f[n])) for n in range(len(cs)) if cs[n]]
    out = []
    i = 0
    while i < len(smalls):
        n, name, f = smalls[i]
        if name in ("ACT-1", "CAS", "MRW-1"):
            assert i + 1 < len(smalls), f"{name} in cycle {n} not completed"
            n2, name2, f2 = smalls[i+1]
            assert n2 == n + 1, f"{name}@{n} followed by {name2}@{n2}"
            i += 2
            if name == "ACT-1":
                assert name2 == "ACT-2", name2
                op = ("ACT", f["ba"], f2["r0_6"] | f2["r7_10"] << 7 | f["r11_13"] << 11 | f["r14_17"] << 14)
            elif name == "MRW-1":
                assert name2 == "MRW-2", name2
                op = ("MRW", f["ma"], f2["op"])
            else:
                assert name2 in ("RD16", "WR16", "MWR", "MRR"), name2
                # WCK2CK sync request, if any, must match the direction of the data command
                allowed_ws = {"RD16": (0, 0b010), "MRR": (0, 0b010), "WR16": (0, 0b001), "MWR": (0, 0b001)}[name2]
                assert f["ws"] in allowed_ws, f"CAS before {name2} with WS={f['ws']:03b}"
                if name2 == "MRR":
                    op = ("MRR", f2["ma"])
                else:
                    op = (name2, f2["ba"], f2["c0"] | f2["c1_2"] << 1 | f2["c3_5"] << 3, f2["ap"])
            out.append((n2, op))
        else:
            assert name in ("PRE", "REF", "MPC", "NOP"), f"unexpected {name} in cycle {n}"
            i += 1
            out.append((n, (name, *f.values())))
    return out

def compare(name, got, want):
    assert len(want) > 0
    assert len(got) == len(want), f"{name}: {len(got)} commands on CS/CA, expected {len(want)}\n got={got[:6]}\nwant={want[:6]}"
    offset = got[0][0] - want[0][0]
    for (gn, gop), (wn, wop) in zip(got, want):
        assert gop == wop,        f"{name}: cycle {gn}: got {gop} expected {wop}"
        assert gn - wn == offset, f"{name}: {wop} in cycle {gn}, expected {wn + offset}"
    return offset

# Stimulus -----------------------------------------------------------------------------------------

def random_command(rng):
    kind = rng.choice(["ACT", "RD", "WR", "PRE", "REF", "MRS", "ZQC", "ZQC", "ACT", "RD", "WR"])
    address = rng.choice([rng.getrandbits(18), rng.getrandbits(18), 0])
    if kind == "ZQC":
        return dfi("ZQC", bank=rng.choice([0, 0, 0, 1, 1, 2, 3, 66]), address=address)
    if rng.random() < 0.05:
        return dfi(kind, bank=rng.getrandbits(7), address=address, cs_n=1)  # not selected
    if rng.random() < 0.05:
        return dfi("NOP", bank=rng.getrandbits(7), address=address)
    return dfi(kind, bank=rng.getrandbits(7), address=address)

def random_sequence(rng, ncmds, gaps):
    sequence = [None] * rng.randrange(1, 4)
    for _ in range(ncmds):
        sequence.append(random_command(rng))
        sequence.extend([None] * (rng.choice(gaps) - 1))
    return sequence

def corner_sequence():
    act, rd, pre, mrw = dfi("ACT", 0xa, 0x2f0f1), dfi("RD", 5, 0x7f0), dfi("PRE", 3, 1 << 10), dfi("MRS", 0x55, 0xc3)
    return [
        None, act, None, rd, None, pre, None, mrw, None,   # back to back (2 CK each)
        act, rd, None,            # rd is dropped
        act, rd, pre, None,       # rd is dropped, pre is not: nothing is in flight in its cycle
        pre, pre, pre, pre, None, # every other one
        dfi("ZQC", 3, 5), rd, None,                # an invalid special command does not block
        dfi("RD", 1, 0x10, cs_n=1), act, None,     # a deselected phase does not block
        dfi("ZQC", 2, 0), dfi("ZQC", 0, 0), None,  # NOP blocks, MPC dropped
        dfi("ZQC", 0, 0), None, dfi("ZQC", 0, 0x81), None, dfi("ZQC", 1, 0x4b), None,
        None,
    ]

# Simulation ---------------------------------------------------------------------------------------

EXTRA = 6

def dfi_driver(dfi_if, sequence):
    for c in list(sequence) + [None]*EXTRA:
        c = c or dfi("NOP", cs_n=1)
        for sig in ["cs_n", "cas_n", "ras_n", "we_n", "bank", "address"]:
            yield getattr(dfi_if.p0, sig).eq(c[sig])
        yield

class FakePads:
    def __init__(self):
        self.dq = Signal(16)

def run_core(sequence, masked_write, wck_ck_ratio):
    phy = LPDDR5PHY(FakePads(), ck_freq=100e6, phytype="demo", masked_write=masked_write, wck_ck_ratio=wck_ck_ratio,
        ser_latency=Latency(sys=1), des_latency=Latency(sys=2))
    cs, ca_r, ca_f = [], [], []
    def monitor():
        for _ in range(len(sequence) + EXTRA):
            cs.append((yield phy.out.cs))
            ca = []
            for bit in range(7):
                ca.append((yield phy.out.ca[bit]))
            ca_r.append(sum(b(ca[bit], 0) << bit for bit in range(7)))
            ca_f.append(sum(b(ca[bit], 1) << bit for bit in range(7)))
            yield
    migen_run_simulation(phy, [dfi_driver(phy.dfi, sequence), monitor()])
    return cs, ca_r, ca_f

def generate_clocks(max):  # as in test/test_lpddr5.py
    def phase(ck, phase):
        p = ck // 2 - 1
        p -= (ck // 4) * phase//90
        p %= ck
        return p
    sys_ck = 8 * max
    clocks = {"sys": (sys_ck, phase(sys_ck, 0))}
    for ph in [90, 180, 270]:
        clocks[f"sys_{ph}"] = (sys_ck, phase(sys_ck, ph))
    n = 2
    while n <= max:
        clocks[f"sys{n}x"] = (sys_ck // n, phase(sys_ck // n, 0))
        for ph in [90, 180, 270]:
            clocks[f"sys{n}x_{ph}"] = (sys_ck // n, phase(sys_ck // n, ph))
        n *= 2
    return clocks

def run_pads(phy, sequence):
    # CS is sampled in the middle of the (180 deg shifted) CS bit, CA on both CK edges; with this
    # sampling the CA pair that belongs to CS sample k is pair k+1 (same as in test/test_lpddr5.py)
    cs, ca = [], []
    ncycles = len(sequence) + EXTRA
    def cs_monitor(pads):
        for _ in range(ncycles - 1):
            cs.append((yield pads.cs))
            yield
    def ca_monitor(pads):
        for _ in range(2*ncycles - 1):
            ca.append((yield pads.ca))
            yield
    test.phy_common.run_simulation(phy, {
        "sys":     [dfi_driver(phy.dfi, sequence)],
        "sys_270": [cs_monitor(phy.pads)],
        "sys2x":   [ca_monitor(phy.pads)],
    }, clocks=generate_clocks(max=8))
    n = min(len(cs), len(ca)//2 - 1)
    return cs[:n], [ca[2*(k+1)] for k in range(n)], [ca[2*(k+1) + 1] for k in range(n)]

def main():
    rng = random.Random(20)
    total = 0
    for masked_write in [True, False]:
        for wck_ck_ratio in [2, 4]:
            cfg = f"core(masked_write={masked_write}, wck_ck_ratio={wck_ck_ratio})"
            seqs = {
                "corner":        corner_sequence(),
                "random-dense":  random_sequence(rng, 150, gaps=[1, 1, 2, 2, 2, 2, 3, 3, 4, 5]),
                "random-sparse": random_sequence(rng, 80,  gaps=[2, 2, 3, 4, 6, 9]),
            }
            for name, seq in seqs.items():
                want = expected_stream(seq, masked_write)
                got = decode_stream(*run_core(seq, masked_write, wck_ck_ratio))
                offset = compare(f"{cfg} {name}", got, want)
                total += len(want)
                print(f"{cfg:48s} {name:14s} {len(want):3d} commands ok, offset {offset} CK")
    seq = corner_sequence() + random_sequence(rng, 20, gaps=[1, 2, 2, 2, 3, 4])
    for wck_ck_ratio in [2, 4]:
        name = f"LPDDR5SimPHY(wck_ck_ratio={wck_ck_ratio})"
        masked_write = wck_ck_ratio == 2
        phy = LPDDR5SimPHY(sys_clk_freq=100e6, wck_ck_ratio=wck_ck_ratio, masked_write=masked_write)
        want = expected_stream(seq, masked_write)
        got = decode_stream(*run_pads(phy, seq))
        offset = compare(name, got, want)
        total += len(want)
        print(f"{name:48s} {'pads':14s} {len(want):3d} commands ok, offset {offset} CK")
    print(f"PASS ({total} commands checked)")

if __name__ == "__main__":
    main()
