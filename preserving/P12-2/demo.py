#!/usr/bin/env python3
# C13 demo: DRAM-backed FIFO is lossless, ordered and bounded.
# Self-contained; passes on clean HEAD and with patch2 applied.
import sys
sys.path.insert(0, "/repo")

import random

from migen import *
from litex.gen.sim import *

import litedram
assert litedram.__file__.startswith("/repo"), litedram.__file__

from litedram.common import LiteDRAMNativeWritePort, LiteDRAMNativeReadPort
from litedram.frontend.fifo import LiteDRAMFIFO


TIMEOUT = 60000


class InOrderMemory:
    """Memory behind a write port and a read port; commands execute in the order they were
    accepted (as a bank machine would), writes wait for their data word, reads return after a
    random latency without back-pressure. Tracks which slots hold unread data."""
    def __init__(self, wport, rport, base, depth, prng, cmd_busy, wdata_busy, lat_max):
        self.wport, self.rport = wport, rport
        self.base, self.depth  = base, depth        # in port words
        self.prng      = prng
        self.cmd_busy, self.wdata_busy, self.lat_max = cmd_busy, wdata_busy, lat_max
        self.mem       = {}
        self.unread    = set()
        self.max_held  = 0
        self.n_writes  = 0
        self.n_reads   = 0
        self.problems  = []
        self.cycle     = 0

    @passive
    def run(self):
        wp, rp, prng = self.wport, self.rport, self.prng
        order, wdatas, returns = [], [], []
        while True:
            now = self.cycle
            # Both commands in one cycle: take the write first half of the time.
            new = []
            if (yield wp.cmd.valid) and (yield wp.cmd.ready):
                if not (yield wp.cmd.we):
                    self.problems.append("write port command without we")
                new.append(("w", (yield wp.cmd.addr)))
            if (yield rp.cmd.valid) and (yield rp.cmd.ready):
                if (yield rp.cmd.we):
                    self.problems.append("read port command with we")
                new.append(("r", (yield rp.cmd.addr)))
            if len(new) == 2 and prng.random() < 0.5:
                new.reverse()
            order += new
            if (yield wp.wdata.valid) and (yield wp.wdata.ready):
                wdatas.append((yield wp.wdata.data))
            if (yield rp.rdata.valid) and not (yield rp.rdata.ready):
                self.problems.append("cycle %d: read data not accepted (overrun)" % now)
            # Execute in order.
            while order:
                kind, addr = order[0]
                if not (self.base <= addr < self.base + self.depth):
                    self.problems.append("address 0x%x outside the FIFO region" % addr)
                if kind == "w":
                    if not wdatas:
                        break
                    if addr in self.unread:
                        self.problems.append("cycle %d: slot 0x%x overwritten before it was read" % (now, addr))
                    self.mem[addr] = wdatas.pop(0)
                    self.unread.add(addr)
                    self.n_writes += 1
                    self.max_held = max(self.max_held, len(self.unread))
                else:
                    if addr not in self.unread:
                        self.problems.append("cycle %d: slot 0x%x read while holding no unread data" % (now, addr))
                    self.unread.discard(addr)
                    self.n_reads += 1
                    due = now + 1 + prng.randrange(self.lat_max + 1)
                    if returns:
                        due = max(due, returns[-1][0])
                    returns.append((due, self.mem.get(addr, 0)))
                order.pop(0)
            if len(self.unread) > self.depth:
                self.problems.append("more than depth words held")
            # Drive next cycle.
            yield wp.cmd.ready.eq(int(prng.randrange(100) >= self.cmd_busy))
            yield rp.cmd.ready.eq(int(prng.randrange(100) >= self.cmd_busy))
            yield wp.wdata.ready.eq(int(prng.randrange(100) >= self.wdata_busy))
            if returns and returns[0][0] <= now:
                yield rp.rdata.valid.eq(1)
                yield rp.rdata.data.eq(returns.pop(0)[1])
            else:
                yield rp.rdata.valid.eq(0)
            self.cycle += 1
            yield


def scenario(name, data_width, ratio, depth_words, with_bypass, n, seed, phases,
             cmd_busy=20, wdata_busy=20, lat_max=6, expect_dram=True):
    prng = random.Random(seed)
    port_dw = data_width*ratio
    wport = LiteDRAMNativeWritePort(address_width=32, data_width=port_dw)
    rport = LiteDRAMNativeReadPort(address_width=32,  data_width=port_dw)
    base_words = 5
    dut = LiteDRAMFIFO(
        data_width  = data_width,
        base        = base_words*(port_dw//8),
        depth       = depth_words*(port_dw//8),
        write_port  = wport,
        read_port   = rport,
        with_bypass = with_bypass,
    )
    mem = InOrderMemory(wport, rport, base_words, depth_words, prng, cmd_busy, wdata_busy, lat_max)

    words = [prng.randrange(2**data_width) for _ in range(n)]
    got   = []
    problems = mem.problems

    def rates():
        # phases: list of (cycles, producer idle %, consumer stall %), repeated.
        t = mem.cycle
        total = sum(p[0] for p in phases)
        t %= total
        for length, pi, cs in phases:
            if t < length:
                return pi, cs
            t -= length

    def producer():
        idx, driving = 0, False
        while idx < n and mem.cycle <= TIMEOUT:
            if driving and (yield dut.sink.ready):
                idx    += 1
                driving = False
            if idx < n and (driving or prng.randrange(100) >= rates()[0]):
                yield dut.sink.valid.eq(1)
                yield dut.sink.data.eq(words[idx])
                driving = True
            else:
                yield dut.sink.valid.eq(0)
            yield
        yield dut.sink.valid.eq(0)

    def consumer():
        idle_after = 0
        while idle_after < 300:
            if (yield dut.source.valid) and (yield dut.source.ready):
                got.append((yield dut.source.data))
            if len(got) >= n:
                idle_after += 1
            if mem.cycle > TIMEOUT:
                problems.append("timeout after %d of %d words" % (len(got), n))
                break
            yield dut.source.ready.eq(int(prng.randrange(100) >= rates()[1]))
            yield

    run_simulation(dut, [producer(), mem.run(), consumer()])

    if got != words:
        first = next((i for i, (a, b) in enumerate(zip(got, words)) if a != b), min(len(got), len(words)))
        problems.append("stream differs (got %d, expected %d words, first difference at %d)" % (
            len(got), len(words), first))
    if mem.unread:
        problems.append("%d words left unread in DRAM" % len(mem.unread))
    if expect_dram and mem.n_writes < 2*depth_words:
        problems.append("scenario too weak: only %d DRAM writes" % mem.n_writes)
    ok = not problems
    print("  %-40s %s  dram words=%d max held=%d/%d %s" % (
        name, "ok" if ok else "FAIL", mem.n_writes, mem.max_held, depth_words,
        problems[:3] if problems else ""))
    return ok


def main():
    fill_drain = [(400, 0, 95), (400, 90, 0), (300, 30, 30)]
    fast_slow  = [(700, 0, 80), (500, 70, 0)]
    even       = [(1000, 40, 40)]
    ok = True
    ok &= scenario("no bypass, depth 8, fill/drain",      32, 1,  8, False, 450, 1, fill_drain)
    ok &= scenario("no bypass, depth 3 (not pow2)",       32, 1,  3, False, 400, 2, fast_slow)
    ok &= scenario("no bypass, depth 2 (minimal)",         8, 1,  2, False, 200, 3, even)
    ok &= scenario("no bypass, depth 16, slow memory",    16, 1, 16, False, 400, 4, fill_drain,
                   cmd_busy=60, wdata_busy=70, lat_max=25)
    ok &= scenario("no bypass, depth 32, consumer fast",  32, 1, 32, False, 500, 5, [(1000, 0, 0)],
                   cmd_busy=0, wdata_busy=0, lat_max=1)
    ok &= scenario("bypass, ratio 1, depth 8",            32, 1,  8, True,  650, 6, fill_drain)
    ok &= scenario("bypass, ratio 1, depth 4, slow mem",  32, 1,  4, True,  500, 7, fast_slow,
                   cmd_busy=50, wdata_busy=50, lat_max=15)
    # Width ratio > 1 (only possible with bypass). NB: on HEAD other ratio > 1 schedules that switch back
    # to bypass in mid-stream already lose/duplicate words (pre-existing, unrelated to the patch), so
    # only schedules that HEAD handles are used here.
    ok &= scenario("bypass, ratio 2, depth 4, slow consumer",    16, 2,  4, True,  300, 22, [(1000, 10, 60)])
    ok &= scenario("bypass, ratio 4, depth 16, delayed consumer", 8, 4, 16, True,  320, 23,
                   [(600, 0, 100), (3000, 0, 20)])
    print("PASS" if ok else "FAIL")
    sys.exit(0 if ok else 1)


if __name__ == "__main__":
    main()
