#!/usr/bin/env python3
"""demo3: the BankMachine splits its request address into row / column correctly (properties C06, C01).

A single BankMachine is driven with request streams (row hits, row changes with and without pauses,
reads and writes) for column widths on both sides of the A10 boundary (colbits 8..12) and burst
alignments 0..4, with and without auto-precharge, with command buffers 0/1/8 (plain and buffered), under
random back-pressure on the command output and with refresh requests arriving at random moments.

Only the public side of the BankMachine is observed (req handshake, cmd endpoint, refresh_req/gnt) and
interpreted the way a DRAM would:
 * every request produces exactly one READ/WRITE, in request order, of the right kind, with ba == n,
 * that column command is given while the open row (row of the last accepted ACTIVATE, not closed by a
   PRECHARGE / auto-precharge since) is the row part of the request address,
 * its column is the column part of the address, shifted by the burst alignment, with A10 skipped
   (A10 only ever carries the auto-precharge flag),
 * ACTIVATE is never sent on an open bank; while a refresh is granted (the refresher then precharges all
   banks) no command is offered and the row counts as closed afterwards,
 * wdata_ready / rdata_valid pulse once per request, in the cycle the column command is accepted.
"""
import sys
sys.path.insert(0, "/repo")

import random

from migen import *

import litedram
assert litedram.__file__.startswith("/repo/"), litedram.__file__

from litedram.common import *
from litedram.core.bankmachine import BankMachine


class SimpleSettings(Settings):
    def __init__(self, **kwargs):
        self.set_attributes(kwargs)


class DUT(Module):
    def __init__(self, n, rowbits, colbits, align, nranks, bankbits=3, **controller):
        cs = dict(cmd_buffer_depth=8, cmd_buffer_buffered=False, with_auto_precharge=True)
        cs.update(controller)
        settings        = SimpleSettings(**cs)
        settings.phy    = SimpleSettings(cwl=2, nphases=2, nranks=nranks, memtype="DDR2", dfi_databits=32)
        settings.geom   = SimpleSettings(bankbits=bankbits, rowbits=rowbits, colbits=colbits,
                                         addressbits=max(rowbits, colbits + 1))
        settings.timing = SimpleSettings(tRAS=5, tRC=8, tCCD=1, tRCD=2, tRP=2, tWR=2)
        self.address_width = LiteDRAMInterface(align, settings).address_width
        self.submodules.bankmachine = BankMachine(n=n,
            address_width = self.address_width,
            address_align = align,
            nranks        = nranks,
            settings      = settings)


def case(name, seed, n, rowbits, colbits, align, nranks=1, nreq=40, **controller):
    prng = random.Random(seed)
    dut  = DUT(n, rowbits, colbits, align, nranks, **controller)
    cb   = colbits - align
    # Requests: mostly a handful of rows (hits and conflicts), columns with all bit positions exercised
    rows = [prng.getrandbits(rowbits) for _ in range(3)] + [0, 2**rowbits - 1]
    reqs = []
    for i in range(nreq):
        row = prng.choice(rows) if prng.random() < 0.8 else prng.getrandbits(rowbits)
        if reqs and prng.random() < 0.4:
            row = reqs[-1][0]
        col = prng.choice([prng.getrandbits(cb), 2**cb - 1, 1 << prng.randrange(cb), (2**cb - 1) ^ (1 << prng.randrange(cb))])
        reqs.append((row, col, prng.getrandbits(1), prng.choice([0, 0, 0, 1, 12])))
    errors = []
    state  = {"done": 0, "accepted": 0}

    def producer(bm):
        for row, col, we, delay in reqs:
            yield bm.req.addr.eq((row << cb) | col)
            yield bm.req.we.eq(we)
            yield bm.req.valid.eq(1)
            yield
            while not (yield bm.req.ready):
                yield
            state["accepted"] += 1
            yield bm.req.valid.eq(0)
            for _ in range(delay):
                yield
        while state["done"] < len(reqs):
            yield
        for _ in range(20):
            yield

    @passive
    def consumer(bm):
        # The DRAM's view of the command stream + random back-pressure
        open_row = None
        cycles   = 0
        while True:
            yield bm.cmd.ready.eq(prng.random() < 0.6)
            yield
            cycles += 1
            if cycles > 150*nreq:
                raise TimeoutError(name)
            strobe = (yield bm.req.wdata_ready), (yield bm.req.rdata_valid)
            fire   = (yield bm.cmd.valid) and (yield bm.cmd.ready)
            if (yield bm.refresh_gnt):
                # The refresher now sends PRECHARGE ALL + REFRESH on behalf of all banks: the row is closed
                # and the BankMachine must stay silent.
                open_row = None
                if (yield bm.cmd.valid):
                    errors.append("command offered while refresh is granted")
            if not fire:
                if strobe != (0, 0):
                    errors.append("data strobe without an accepted column command")
                continue
            a   = (yield bm.cmd.a)
            cmd = ((yield bm.cmd.cas), (yield bm.cmd.ras), (yield bm.cmd.we))
            if (yield bm.cmd.ba) != n:
                errors.append("ba=%d" % (yield bm.cmd.ba))
            if cmd == (0, 1, 0):    # activate
                if open_row is not None:
                    errors.append("activate with row 0x%x open" % open_row)
                open_row = a
            elif cmd == (0, 1, 1):  # precharge
                open_row = None
            elif cmd[0] == 1 and cmd[1] == 0:
                if state["done"] >= state["accepted"]:
                    errors.append("column command without a request")
                    continue
                row, col, we, _ = reqs[state["done"]]
                state["done"] += 1
                got_col = (a & 0x3ff) | ((a >> 11) << 10)
                if cmd[2] != we or strobe != (we, 1 - we):
                    errors.append("req %d: kind/strobes wrong (cmd we=%d strobes=%s, request we=%d)" % (state["done"], cmd[2], strobe, we))
                if open_row != row:
                    errors.append("req %d: open row %s, request row 0x%x" % (state["done"], open_row, row))
                if got_col != col << align:
                    errors.append("req %d: column 0x%x (a=0x%x), expected 0x%x" % (state["done"], got_col, a, col << align))
                if (a >> 10) & 1:   # auto-precharge
                    open_row = None
            else:
                errors.append("unexpected command %s" % (cmd,))

    @passive
    def refresher(bm):
        while True:
            for _ in range(prng.randrange(30, 90)):
                yield
            yield bm.refresh_req.eq(1)
            n = 0
            while not (yield bm.refresh_gnt):
                yield
                n += 1
                if n > 400:
                    raise TimeoutError(name + ": refresh never granted")
            for _ in range(prng.randrange(4, 10)):  # the refresh itself
                yield
            yield bm.refresh_req.eq(0)
            yield

    bm = dut.bankmachine
    run_simulation(dut, [producer(bm), consumer(bm), refresher(bm)])
    if state["done"] != len(reqs):
        errors.append("%d of %d requests served" % (state["done"], len(reqs)))
    if errors:
        print("  %-60s FAIL" % name)
        for e in errors[:4]:
            print("     ", e)
    return not errors


def main():
    ok, n = True, 0
    seed  = 100
    for colbits in [8, 9, 10, 11, 12]:
        for align in [0, 1, 2, 3, 4]:
            seed += 1
            variant = [dict(), dict(with_auto_precharge=False), dict(cmd_buffer_depth=0),
                       dict(cmd_buffer_depth=1), dict(cmd_buffer_depth=4, cmd_buffer_buffered=True)][(colbits + align) % 5]
            nranks  = 1 + (colbits + 2*align) % 2
            rowbits = 13 + align % 3
            name = "colbits=%d align=%d rowbits=%d nranks=%d %s" % (colbits, align, rowbits, nranks, variant)
            ok &= case(name, seed, n=(colbits + align) % 8, rowbits=rowbits, colbits=colbits, align=align,
                       nranks=nranks, **variant)
            n += 1
    print("%d configurations %s" % (n, "ok" if ok else "FAILED"))
    print("PASS" if ok else "FAIL")
    sys.exit(0 if ok else 1)

if __name__ == "__main__":
    main()
