#!/usr/bin/env python3
# Demo for change 1 (BIST DMA FIFOs deeper/buffered, generator tracks outstanding writes itself).
#
# Checks property C14 on the observable behaviour only (port traffic, memory contents, done/errors):
#  - when the generator raises `done`, every word of its sequence has been written, inside [base, end);
#  - the checker reads the same address sequence and reports exactly the number of sequence positions at
#    which the stored word differs from the word generated for that position (0 on a faithful memory
#    without repeated addresses, k after corrupting k words).
# The memory model accepts many outstanding commands, has random command/wdata back-pressure and random
# read latency, and (like the real controller) does not honour rdata.ready (it only checks it).

import sys
sys.path.insert(0, "/repo")

import random

from migen import *

from litedram.common import LiteDRAMNativePort
from litedram.frontend.axi import LiteDRAMAXIPort
from litedram.frontend.bist import _LiteDRAMBISTGenerator, _LiteDRAMBISTChecker

# Memory models ------------------------------------------------------------------------------------

class NativeMem:
    def __init__(self, port, seed, stall=30):
        self.port   = port
        self.mem    = {}       # word address -> data
        self.writes = []       # (addr, data) in order of completion
        self.reads  = []       # addr in order of acceptance
        self.prng   = random.Random(seed)
        self.stall  = stall
        self.violations = []
        self.wr_outstanding = 0

    @passive
    def handler(self):
        port, prng = self.port, self.prng
        wq = []                # addresses of accepted write commands waiting for data
        rq = []                # [remaining latency, addr]
        full = 2**(port.data_width//8) - 1
        while True:
            # Sample the cycle that is about to be clocked.
            if (yield port.cmd.valid) and (yield port.cmd.ready):
                addr = (yield port.cmd.addr)
                if (yield port.cmd.we):
                    wq.append(addr)
                else:
                    rq.append([prng.randrange(1, 12), addr])
                    self.reads.append(addr)
            if (yield port.wdata.valid) and (yield port.wdata.ready):
                if not wq:
                    self.violations.append("wdata accepted without command")
                else:
                    addr = wq.pop(0)
                    if (yield port.wdata.we) != full:
                        self.violations.append("partial write")
                    data = (yield port.wdata.data)
                    self.mem[addr] = data
                    self.writes.append((addr, data))
            if (yield port.rdata.valid) and not (yield port.rdata.ready):
                self.violations.append("rdata not accepted")
            self.wr_outstanding = len(wq)
            # Drive next cycle.
            yield port.cmd.ready.eq(prng.randrange(100) >= self.stall)
            yield port.wdata.ready.eq(bool(wq) and prng.randrange(100) >= self.stall)
            for e in rq:
                e[0] -= 1
            if rq and rq[0][0] <= 0:
                _, addr = rq.pop(0)
                yield port.rdata.valid.eq(1)
                yield port.rdata.data.eq(self.mem.get(addr, 0))
            else:
                yield port.rdata.valid.eq(0)
                yield port.rdata.data.eq(prng.getrandbits(port.data_width))  # don't care
            yield


class AXIMem:
    """Minimal AXI slave (single beat bursts as issued by the DMAs), word = data_width bits."""
    def __init__(self, port, seed, stall=30):
        self.port   = port
        self.mem    = {}
        self.writes = []
        self.reads  = []
        self.prng   = random.Random(seed)
        self.stall  = stall
        self.violations = []
        self.wr_outstanding = 0

    @passive
    def handler(self):
        port, prng = self.port, self.prng
        ashift = log2_int(port.data_width//8)
        wq = []
        rq = []
        full = 2**(port.data_width//8) - 1
        while True:
            if (yield port.aw.valid) and (yield port.aw.ready):
                wq.append((yield port.aw.addr) >> ashift)
            if (yield port.w.valid) and (yield port.w.ready):
                if not wq:
                    self.violations.append("w accepted without aw")
                else:
                    addr = wq.pop(0)
                    if (yield port.w.strb) != full:
                        self.violations.append("partial write")
                    data = (yield port.w.data)
                    self.mem[addr] = data
                    self.writes.append((addr, data))
            if (yield port.ar.valid) and (yield port.ar.ready):
                addr = (yield port.ar.addr) >> ashift
                rq.append([prng.randrange(1, 12), addr])
                self.reads.append(addr)
            r_fire = (yield port.r.valid) and (yield port.r.ready)
            r_hold = (yield port.r.valid) and not (yield port.r.ready)
            self.wr_outstanding = len(wq)
            yield port.aw.ready.eq(prng.randrange(100) >= self.stall)
            yield port.ar.ready.eq(prng.randrange(100) >= self.stall)
            yield port.w.ready.eq(bool(wq) and prng.randrange(100) >= self.stall)
            for e in rq:
                e[0] -= 1
            if not r_hold:
                if rq and rq[0][0] <= 0:
                    _, addr = rq.pop(0)
                    yield port.r.valid.eq(1)
                    yield port.r.data.eq(self.mem.get(addr, 0))
                else:
                    yield port.r.valid.eq(0)
                    yield port.r.data.eq(prng.getrandbits(port.data_width))
            yield

# Scenario -----------------------------------------------------------------------------------------

class DUT(Module):
    def __init__(self, kind, data_width):
        # One port per master (each DMA drives its port's command channel), one shared memory.
        if kind == "native":
            mk = lambda: LiteDRAMNativePort("both", address_width=24, data_width=data_width)
        else:
            mk = lambda: LiteDRAMAXIPort(data_width=data_width, address_width=24 + log2_int(data_width//8))
        self.wport = mk()
        self.rport = mk()
        self.submodules.generator = _LiteDRAMBISTGenerator(self.wport)
        self.submodules.checker   = _LiteDRAMBISTChecker(self.rport)


def scenario(kind, data_width, base, end, length, random_data, random_addr, corrupt, seed, stall=30):
    dut  = DUT(kind, data_width)
    Mem  = NativeMem if kind == "native" else AXIMem
    mem  = Mem(dut.wport, seed, stall)
    rmem = Mem(dut.rport, seed + 7, stall)
    rmem.mem   = mem.mem     # shared storage
    rmem.reads = mem.reads
    wb   = data_width//8
    prng = random.Random(seed + 1)
    res  = {}

    def configure(m):
        yield m.reset.eq(1)
        yield
        yield m.reset.eq(0)
        yield
        yield m.base.eq(base)
        yield m.end.eq(end)
        yield m.length.eq(length)
        yield m.random_data.eq(random_data)
        yield m.random_addr.eq(random_addr)
        yield

    def run(m, timeout=30000):
        yield m.start.eq(1)
        yield
        yield m.start.eq(0)
        yield
        n = 0
        while not (yield m.done):
            yield
            n += 1
            assert n < timeout, "timeout waiting for done"

    def main():
        nwords = length//wb
        # Generate.
        yield from configure(dut.generator)
        yield from run(dut.generator)
        # At `done` the whole sequence must be in memory already.
        res["writes_at_done"]   = len(mem.writes)
        res["wr_out_at_done"]   = mem.wr_outstanding
        for _ in range(50):
            yield
        res["writes_after"]     = len(mem.writes)
        seq = list(mem.writes)
        assert res["writes_at_done"] == nwords == res["writes_after"], (res, nwords)
        assert res["wr_out_at_done"] == 0
        # Every write lands inside [base, end) (in words).
        lo, hi = base//wb, end//wb
        if random_addr:
            # HEAD masks the *word* index with the *byte* size of the range, so with random addresses the
            # span actually used is (end - base) words; this pre-existing behaviour is not touched here.
            hi = lo + (end - base)
        assert all(lo <= a < hi for a, _ in seq), "write outside [base, end)"
        if not random_addr:
            assert [a for a, _ in seq] == [lo + i for i in range(nwords)]
        if not random_data:
            # data is the 31 bit counter replicated; only check low 31 bits here.
            assert [d & 0x7fffffff for _, d in seq] == list(range(nwords))
        else:
            assert len(set(d for _, d in seq)) == nwords

        # Check, faithful memory.
        def expected_errors():
            return sum(1 for a, d in seq if mem.mem.get(a, 0) != d)
        for rnd in range(2):
            mem.reads.clear()
            yield from configure(dut.checker)
            yield from run(dut.checker)
            errors = (yield dut.checker.errors)
            assert mem.reads == [a for a, _ in seq], "checker address sequence differs from generator's"
            exp = expected_errors()
            if rnd == 0 and len(set(a for a, _ in seq)) == nwords:
                assert exp == 0
            assert errors == exp, (errors, exp)
            res["errors%d" % rnd] = errors
            # Corrupt k distinct locations for the second round.
            addrs = sorted(set(a for a, _ in seq))
            for a in prng.sample(addrs, min(corrupt, len(addrs))):
                mem.mem[a] ^= 1 << prng.randrange(data_width)
            if not random_addr and rnd == 0:
                res["expect_k"] = min(corrupt, len(addrs))
        if "expect_k" in res:
            assert res["errors1"] == res["expect_k"], res
        for _ in range(20):
            yield
        assert not mem.violations and not rmem.violations, (mem.violations, rmem.violations)

    run_simulation(dut, [main(), mem.handler(), rmem.handler()])
    return res


if __name__ == "__main__":
    scenarios = [
        # kind,  dw, base,   end,            length, rdata, raddr, corrupt, seed, stall
        ("native", 32, 0x40,   0x40 + 0x400,   0x400,  0, 0,  5,  1, 30),
        ("native", 32, 0x100,  0x100 + 0x200,  0x1a0,  1, 0,  9,  2, 60),
        ("native", 64, 0x800,  0x800 + 0x800,  0x500,  1, 1,  3,  3, 30),
        ("native", 128, 0x0,   0x1000,         0x0a00, 0, 0, 17,  4,  0),
        ("native", 32, 0x40,   0x40 + 0x100,   0x4,    1, 0,  1,  5, 30),   # single word
        ("native", 32, 0x40,   0x40 + 0x100,   0x8,    0, 1,  1,  6, 80),   # two words, heavy stalls
        ("axi",    32, 0x200,  0x200 + 0x400,  0x300,  1, 0,  4,  7, 30),
        ("axi",    64, 0x400,  0x400 + 0x400,  0x400,  0, 1,  6,  8, 50),
    ]
    for s in scenarios:
        r = scenario(*s)
        print(s, r)
    print("PASS")
