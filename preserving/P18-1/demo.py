#!/usr/bin/env python3
# C18 (injector part): the DFI injector is transparent in hardware-control mode and isolates the
# controller in software mode. Checked on the ports only (slave / ext_dfi / master / CSRs), with
# random values on every field of every phase, random mode switches on any cycle.
#
# Passes on the unchanged code and with patch1 applied.

import sys, re, random, inspect, linecache
sys.path.insert(0, "/repo")

from migen import *
from migen.genlib.record import DIR_M_TO_S, DIR_S_TO_M

# -- environment shims (python 3.12 + installed litex): nothing to do with the code under test ------
import litex.soc.interconnect.csr as _csr

def _obj_var_name(override=None, default=None):
    if override:
        return override
    frame = inspect.currentframe().f_back
    while frame is not None and frame.f_code.co_filename == _csr.__file__:
        frame = frame.f_back
    line = linecache.getline(frame.f_code.co_filename, frame.f_lineno)
    m = re.match(r"\s*(?:self\.)?_*(\w+)\s*=", line)
    return m.group(1) if m else (default or "csr")

_csr.get_obj_var_name = _obj_var_name
if not hasattr(_csr.CSR(name="probe"), "wr_stb"):
    _csr_init = _csr.CSR.__init__
    def _init(self, *args, **kwargs):
        _csr_init(self, *args, **kwargs)
        self.wr_stb = self.re  # write strobe
    _csr.CSR.__init__ = _init

from litedram.dfii import DFIInjector
assert sys.modules["litedram"].__file__.startswith("/repo/"), sys.modules["litedram"].__file__

# ---------------------------------------------------------------------------------------------------

def fields(phase, direction):
    return [(name, getattr(phase, name)) for name, _, d in phase.layout if d == direction]


def check_config(nphases, nranks, clam, seed, ncycles=400):
    prng = random.Random(seed)
    addressbits, bankbits, databits = 14, 3, 16
    dut = DFIInjector(addressbits, bankbits, nranks, databits, nphases=nphases, is_clam_shell=clam)
    pis = [getattr(dut, f"pi{n}") for n in range(nphases)]
    # What a CSR bank would do: make the logic of the compound CSRs (field decoding) part of the design.
    top = Module()
    top.submodules.dut = dut
    for c in dut.get_csrs():
        if isinstance(c, _csr._CompoundCSR):
            c.finalize(32, "big")
            top.submodules += c
    errors = []
    stats  = dict(hw=0, ext=0, sw=0, sw_rd=0)

    def rnd(sig):
        return prng.getrandbits(len(sig))

    def gen():
        pending_capture = None  # (expected CSR rddata per phase) for the cycle after a valid in SW mode
        for cycle in range(ncycles):
            # -- drive everything at random, including the mode (switches on any cycle) -------------
            # control: sel | cke | odt | reset_n ; keep a mode for a few cycles sometimes
            if prng.random() < 0.4:
                yield dut._control.storage.eq(prng.getrandbits(4))
            if prng.random() < 0.3:
                yield dut.ext_dfi_sel.eq(prng.getrandbits(1))
            for n in range(nphases):
                for intf in (dut.slave, dut.ext_dfi):
                    for name, sig in fields(intf.phases[n], DIR_M_TO_S):
                        yield sig.eq(rnd(sig))
                for name, sig in fields(dut.master.phases[n], DIR_S_TO_M):
                    yield sig.eq(rnd(sig))
                pi = pis[n]
                yield pi._command.storage.eq(rnd(pi._command.storage))
                yield pi._command_issue.wr_stb.eq(prng.random() < 0.5)
                yield pi._address.storage.eq(rnd(pi._address.storage))
                yield pi._baddress.storage.eq(rnd(pi._baddress.storage))
                yield pi._wrdata.storage.eq(rnd(pi._wrdata.storage))
            yield
            # -- now everything driven above is visible; the injector is combinatorial ---------------
            if pending_capture is not None:
                for n, exp in pending_capture.items():
                    got = (yield pis[n]._rddata.status)
                    if got != exp:
                        errors.append(f"cycle {cycle}: pi{n} rddata CSR {got:#x} != {exp:#x}")
                pending_capture = None

            ctrl    = (yield dut._control.storage)
            sel     = ctrl & 1
            cke, odt, reset_n = (ctrl >> 1) & 1, (ctrl >> 2) & 1, (ctrl >> 3) & 1
            ext_sel = (yield dut.ext_dfi_sel)
            capture = {}
            for n in range(nphases):
                m = dut.master.phases[n]
                got = {}
                for name, sig in fields(m, DIR_M_TO_S):
                    got[name] = (yield sig)
                m_rddata       = (yield m.rddata)
                m_rddata_valid = (yield m.rddata_valid)
                if sel:
                    # Hardware control: controller (or external DFI) <-> PHY, unchanged, same cycle.
                    src = (dut.ext_dfi if ext_sel else dut.slave).phases[n]
                    stats["ext" if ext_sel else "hw"] += 1
                    for name, sig in fields(src, DIR_M_TO_S):
                        exp = (yield sig)
                        if clam and name == "cs_n" and not ext_sel:
                            exp = exp | (exp << nranks)  # both halves get the controller's cs_n
                        if got[name] != exp:
                            errors.append(f"cycle {cycle} hw(ext={ext_sel}): master.p{n}.{name} = {got[name]:#x} != {exp:#x}")
                    if (yield src.rddata) != m_rddata or (yield src.rddata_valid) != m_rddata_valid:
                        errors.append(f"cycle {cycle} hw(ext={ext_sel}): p{n} read data not passed back")
                else:
                    # Software control: the PHY only sees what the CSRs say, nothing of the controller.
                    stats["sw"] += 1
                    pi   = pis[n]
                    cmd  = (yield pi._command.storage)
                    stb  = (yield pi._command_issue.wr_stb)
                    cs, we, cas, ras, wren, rden, cs_top, cs_bottom = [(cmd >> i) & 1 for i in range(8)]
                    ncs  = len(m.cs_n)
                    if not stb:
                        cs_n, we_n, cas_n, ras_n = 2**ncs - 1, 1, 1, 1
                    else:
                        cs_n = 2 if cs_top else (1 if cs_bottom else ((2**ncs - 1) if not cs else 0))
                        cs_n &= 2**ncs - 1
                        we_n, cas_n, ras_n = 1 - we, 1 - cas, 1 - ras
                    exp = dict(
                        cs_n=cs_n, we_n=we_n, cas_n=cas_n, ras_n=ras_n, act_n=1,
                        address=(yield pi._address.storage), bank=(yield pi._baddress.storage),
                        wrdata=(yield pi._wrdata.storage), wrdata_mask=0,
                        wrdata_en=stb & wren, rddata_en=stb & rden,
                        cke=cke*(2**nranks - 1), odt=odt*(2**nranks - 1), reset_n=reset_n,
                    )
                    for name, val in exp.items():
                        if got[name] != val:
                            errors.append(f"cycle {cycle} sw: master.p{n}.{name} = {got[name]:#x} != {val:#x}")
                    if m_rddata_valid:
                        capture[n] = m_rddata  # CSR shows it from the next cycle on
                        stats["sw_rd"] += 1
            pending_capture = capture or None

    run_simulation(top, gen())
    assert min(stats.values()) > 10, stats  # all modes exercised
    return errors, stats


def main():
    ok = True
    seed = 0
    for nphases in [1, 2, 4]:
        for nranks in [1, 2]:
            for clam in [False, True]:
                seed += 1
                errors, stats = check_config(nphases, nranks, clam, seed)
                print(f"nphases={nphases} nranks={nranks} clam={clam}: {stats} errors={len(errors)}")
                for e in errors[:5]:
                    print("   ", e)
                ok &= not errors
    print("PASS" if ok else "FAIL")
    sys.exit(0 if ok else 1)


if __name__ == "__main__":
    main()
