#!/usr/bin/env python3
# Demo for property C07 (width-converted ports behave like one memory).
# Self-contained: a protocol-compliant random master on the user side, a native-port slave model
# (random cmd.ready, write data pulled some cycles after the command, read data pushed without
# back-pressure) on the controller side, and a byte-level reference memory.
# Only port-level behaviour is observed; nothing inside the converter is looked at.
import sys
sys.path.insert(0, "/repo")

import random

from migen import *

from litedram.common import LiteDRAMNativePort
from litedram.frontend.adapter import LiteDRAMNativePortConverter

FOCUS   = "up"    # which conversion direction gets most of the scenarios in this demo
SEED0   = 300      # first seed
P_EARLY = 0.9     # how eagerly the master offers write data ahead of the write command

# Controller-side model -------------------------------------------------------------------------------

class Slave:
    """In-order native port slave. Commands execute in acceptance order on one memory."""
    def __init__(self, port, depth, rng, p_ready, max_wlat, max_rlat):
        self.port, self.depth, self.rng = port, depth, rng
        self.p_ready, self.max_wlat, self.max_rlat = p_ready, max_wlat, max_rlat
        self.nbytes = port.data_width//8
        self.mem    = [rng.getrandbits(8) for _ in range(depth*self.nbytes)]
        self.errors = []
        self.ncmds  = 0

    def word(self, addr):
        b = self.mem[addr*self.nbytes:(addr + 1)*self.nbytes]
        return sum(v << (8*i) for i, v in enumerate(b))

    @passive
    def run(self):
        port, rng = self.port, self.rng
        ops      = []  # accepted, not yet executed: ["w"/"r", addr]
        wpending = []  # write data still to pull: [due cycle]
        rpending = []  # read data to return: [due cycle, data]
        cycle    = 0
        w_ready  = 0
        r_valid  = 0
        c_ready  = 0
        while True:
            # Sample what the hardware sees in this cycle.
            if c_ready and (yield port.cmd.valid):
                addr = (yield port.cmd.addr)
                we   = (yield port.cmd.we) if port.mode != "read" else 0
                if port.mode == "write" and not we:
                    self.errors.append("read command on write port")
                if addr >= self.depth:
                    self.errors.append("address out of range: %d" % addr)
                self.ncmds += 1
                ops.append(["w" if we else "r", addr % self.depth, cycle + 1 + rng.randrange(self.max_rlat)])
                if we:
                    wpending.append(cycle + 1 + rng.randrange(self.max_wlat))
            if w_ready:
                # The controller takes the data in this cycle whether it is valid or not.
                if not (yield port.wdata.valid):
                    self.errors.append("write data not there when the controller takes it (cycle %d)" % cycle)
                data, we = (yield port.wdata.data), (yield port.wdata.we)
                wpending.pop(0)
                op = next(o for o in ops if o[0] == "w")
                assert op is ops[0]
                for i in range(self.nbytes):
                    if (we >> i) & 1:
                        self.mem[op[1]*self.nbytes + i] = (data >> (8*i)) & 0xff
                ops.pop(0)
            if r_valid:
                # The controller does not look at rdata.ready.
                if not (yield port.rdata.ready):
                    self.errors.append("read data dropped: rdata.ready low (cycle %d)" % cycle)
                rpending.pop(0)
            # Reads execute as soon as everything before them has executed.
            while ops and ops[0][0] == "r":
                _, addr, due = ops.pop(0)
                rpending.append([due, self.word(addr)])
            # Drive the next cycle.
            cycle  += 1
            c_ready = int(rng.random() < self.p_ready)
            w_ready = int(bool(wpending) and wpending[0] <= cycle and rng.random() < 0.7)
            r_valid = int(bool(rpending) and rpending[0][0] <= cycle and rng.random() < 0.7)
            yield port.cmd.ready.eq(c_ready)
            if port.mode != "read":
                yield port.wdata.ready.eq(w_ready)
            if port.mode != "write":
                yield port.rdata.valid.eq(r_valid)
                yield port.rdata.data.eq(rpending[0][1] if r_valid else rng.getrandbits(port.data_width))
            yield

# User-side master --------------------------------------------------------------------------------------

class Master:
    """Holds a command until accepted, offers write data no later than the command (and holds it),
    always accepts read data. cmds: list of (we, addr, data, byte_enables, last, flush_after)."""
    def __init__(self, port, cmds, rng, p_cmd, p_early):
        self.port, self.cmds, self.rng, self.p_cmd, self.p_early = port, cmds, rng, p_cmd, p_early
        self.rdata = []
        self.done  = False

    def run(self):
        port, rng, cmds = self.port, self.rng, self.cmds
        writes   = [c for c in cmds if c[0]]
        ci       = 0      # next command to present
        c_valid  = 0
        wi       = 0      # next write data beat to present
        w_valid  = 0
        w_cmds   = 0      # write commands presented so far
        flush    = 0
        nreads   = sum(1 for c in cmds if not c[0])
        idle     = 0
        if port.mode != "write":
            yield port.rdata.ready.eq(1)
        while True:
            if c_valid and (yield port.cmd.ready):
                c_valid = 0
                flush   = cmds[ci][5]
                ci     += 1
            else:
                flush   = flush and rng.random() < 0.5 and not c_valid
            if w_valid and (yield port.wdata.ready):
                w_valid = 0
                wi     += 1
            if port.mode != "write" and (yield port.rdata.valid):
                self.rdata.append((yield port.rdata.data))
            # Next cycle.
            if not w_valid and wi < len(writes) and wi < w_cmds + 1 and rng.random() < self.p_early:
                w_valid = 1  # data offered ahead of its command
            if not c_valid and ci < len(cmds) and rng.random() < self.p_cmd:
                we = cmds[ci][0]
                if not we:
                    c_valid = 1
                elif wi > w_cmds:
                    c_valid = 1               # its data beat has already been taken
                elif wi == w_cmds:
                    c_valid, w_valid = 1, 1   # its data beat is (or becomes now) the one on the bus
                if c_valid and we:            # (otherwise an older beat still occupies the bus: wait)
                    w_cmds += 1
            yield port.cmd.valid.eq(c_valid)
            if ci < len(cmds):
                we, addr, data, be, last, _ = cmds[ci]
                if c_valid or rng.random() < 0.5:  # anything goes on we/addr while not valid
                    yield port.cmd.we.eq(we)
                    yield port.cmd.addr.eq(addr)
                yield port.cmd.last.eq(last if c_valid else 0)
            else:
                yield port.cmd.last.eq(0)
            yield port.flush.eq(int(bool(flush)))
            if port.mode != "read":
                yield port.wdata.valid.eq(w_valid)
                if w_valid:
                    yield port.wdata.data.eq(writes[wi][2])
                    yield port.wdata.we.eq(writes[wi][3])
            if ci == len(cmds) and wi == len(writes) and len(self.rdata) >= nreads:
                idle += 1
                if idle > 80:  # let the last write reach the memory
                    self.done = True
                    return
            yield

# Scenario ----------------------------------------------------------------------------------------------

def make_cmds(rng, n, user_words, user_bytes, order, mode, p_last, p_flush, ratio_up):
    cmds = []
    addr = rng.randrange(user_words)
    we   = 1 if mode == "write" else 0 if mode == "read" else rng.randrange(2)
    for i in range(n):
        if order == "ascending":
            addr = (addr + 1) % user_words
        elif order == "descending":
            addr = (addr - 1) % user_words
        elif order == "repeated":
            addr = addr if rng.random() < 0.5 else (addr + 1) % user_words
        elif order == "random":
            addr = rng.randrange(user_words)
        elif order == "mixed":
            r = rng.random()
            addr = (addr + 1) % user_words if r < 0.6 else addr if r < 0.7 else rng.randrange(user_words)
        if mode == "both" and rng.random() < 0.3:
            we = 1 - we
        be = rng.choice([2**user_bytes - 1, 2**user_bytes - 1, rng.getrandbits(user_bytes)])
        last = int(i == n - 1 or rng.random() < p_last)
        cmds.append((we, addr, rng.getrandbits(8*user_bytes), be, last, int(rng.random() < p_flush)))
    return cmds


class DUT(Module):
    def __init__(self, mode, user_width, native_width, native_aw):
        shift = log2_int(max(user_width, native_width)//min(user_width, native_width))
        user_aw = native_aw + shift if user_width < native_width else native_aw - shift
        self.user   = LiteDRAMNativePort(mode, user_aw,   user_width)
        self.native = LiteDRAMNativePort(mode, native_aw, native_width)
        self.submodules.converter = LiteDRAMNativePortConverter(self.user, self.native)


def run_case(name, mode, user_width, native_width, order, seed, n=80, native_aw=5, depth=8,
             p_ready=0.6, p_cmd=0.8, p_early=None, max_wlat=4, max_rlat=5, p_last=0.1, p_flush=0.1,
             preload=None):
    rng = random.Random(seed)
    p_early = P_EARLY if p_early is None else p_early
    dut = DUT(mode, user_width, native_width, native_aw)
    user_bytes = user_width//8
    user_words = depth*native_width//user_width
    slave = Slave(dut.native, depth, rng, p_ready, max_wlat, max_rlat)
    if preload is not None:
        slave.mem = list(preload)
    cmds  = make_cmds(rng, n, user_words, user_bytes, order, mode, p_last, p_flush, native_width > user_width)
    # Reference: one byte-addressed memory, commands in issue order.
    ref      = list(slave.mem)
    expected = []
    for we, addr, data, be, last, _ in cmds:
        if we:
            for i in range(user_bytes):
                if (be >> i) & 1:
                    ref[addr*user_bytes + i] = (data >> (8*i)) & 0xff
        else:
            expected.append(sum(ref[addr*user_bytes + i] << (8*i) for i in range(user_bytes)))
    master = Master(dut.user, cmds, rng, p_cmd, p_early)

    @passive
    def timeout():
        for _ in range(200*n + 2000):
            yield
        raise TimeoutError(name)

    problems = []
    try:
        run_simulation(dut, [master.run(), slave.run(), timeout()])
    except TimeoutError:
        problems.append("timeout: the master never got all its commands/data through")
    problems += slave.errors
    if master.rdata != expected:
        k = next((i for i, (a, b) in enumerate(zip(master.rdata, expected)) if a != b), None)
        problems.append("read data differ (got %d, expected %d words, first difference at read %s)" % (
            len(master.rdata), len(expected), k))
    if slave.mem != ref:
        problems.append("memory content differs from the reference")
    print("%-58s %s" % (name, "ok" if not problems else "FAIL: " + "; ".join(problems[:3])))
    return not problems, slave.mem


def main():
    ok = True
    down = [(16, 8), (32, 8), (64, 8)]
    up   = [(8, 16), (8, 32), (16, 128)]
    if FOCUS == "down":
        configs = down + up[1:2]
    else:
        configs = up + down[1:2]
    seed = SEED0
    for user_width, native_width in configs:
        for order in ["ascending", "descending", "repeated", "random", "mixed"]:
            seed += 1
            name = "both  %3d->%3d %-10s seed=%d" % (user_width, native_width, order, seed)
            r, _ = run_case(name, "both", user_width, native_width, order, seed)
            ok &= r
        # Fast controller / slow controller, no hints at all except on the final command.
        for p_ready, p_cmd in [(1.0, 1.0), (0.25, 0.5)]:
            seed += 1
            name = "both  %3d->%3d mixed p_ready=%.2f p_cmd=%.2f" % (user_width, native_width, p_ready, p_cmd)
            r, _ = run_case(name, "both", user_width, native_width, "mixed", seed, p_ready=p_ready, p_cmd=p_cmd,
                            p_last=0, p_flush=0, max_wlat=1 if p_ready == 1.0 else 6)
            ok &= r
        # Write-only port, then a read-only port on the memory it left behind.
        seed += 1
        name = "write %3d->%3d mixed" % (user_width, native_width)
        r, mem = run_case(name, "write", user_width, native_width, "mixed", seed)
        ok &= r
        name = "read  %3d->%3d random" % (user_width, native_width)
        r, _ = run_case(name, "read", user_width, native_width, "random", seed + 1000, preload=mem)
        ok &= r
    print("PASS" if ok else "FAIL")
    sys.exit(0 if ok else 1)


if __name__ == "__main__":
    main()
