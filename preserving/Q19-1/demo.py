#!/usr/bin/env python3
# Demo for change 1 (litedram/dfii.py): the DFI injector is a transparent mux.
#
# Checks, cycle by cycle and under random traffic with the mode switched at random cycles:
#  - hardware mode: every controller->PHY signal of every phase appears unchanged on the PHY side in
#    the same cycle (cs_n broadcast to both halves in clam-shell), PHY rddata/rddata_valid appear
#    unchanged on the controller side in the same cycle;
#  - software mode: the PHY side is a function of the CSR state only (the controller side carries
#    random traffic meanwhile), the controller sees no rddata_valid, and the rddata CSR captures the
#    PHY read data;
#  - external-DFI selection behaves as a third source.
# Exits 0 and prints PASS on success.

import sys, itertools, random
sys.path.insert(0, "/repo")

# -- environment shims (Python 3.12 name tracer / older LiteX CSR without wr_stb) ------------------
import litex.soc.interconnect.csr as csrmod
_orig_name = csrmod.get_obj_var_name
_cnt = itertools.count()
def _safe_name(override=None, default=None):
    try:
        r = _orig_name(override, default)
    except Exception:
        r = None
    return r if r is not None else "csr%d" % next(_cnt)
csrmod.get_obj_var_name = _safe_name
if not hasattr(csrmod.CSR, "wr_stb"):
    csrmod.CSR.wr_stb = property(lambda self: self.re)

from migen import *
from migen.genlib.record import DIR_M_TO_S

import litedram
assert litedram.__file__.startswith("/repo/"), litedram.__file__
from litedram.dfii import DFIInjector

M2S = ["address", "bank", "cas_n", "cs_n", "ras_n", "we_n", "cke", "odt", "reset_n", "act_n",
       "wrdata", "wrdata_en", "wrdata_mask", "rddata_en"]


def rnd(sig, rng):
    return rng.getrandbits(len(sig))


def run_config(nranks, clam, nphases, seed, cycles=400):
    rng = random.Random(seed)
    dut = DFIInjector(addressbits=14, bankbits=3, nranks=nranks, databits=32, nphases=nphases,
                      is_clam_shell=clam)
    injectors = [getattr(dut, "pi%d" % n) for n in range(nphases)]
    mranks = 2*nranks if clam else nranks
    errors = []
    stats = {"hw": 0, "sw": 0, "ext": 0, "switch": 0, "issue": 0, "capture": 0}

    def tb():
        exp_status = [0]*nphases       # model of the rddata CSR of each phase
        prev_sel   = None
        for cyc in range(cycles):
            # ---- drive random stimulus ----------------------------------------------------
            if cyc == 0 or rng.random() < 0.3:
                yield dut._control.storage.eq(rng.getrandbits(4))
            yield dut.ext_dfi_sel.eq(rng.random() < 0.25)
            for n in range(nphases):
                for src in (dut.slave, dut.ext_dfi):
                    p = src.phases[n]
                    for name in M2S:
                        s = getattr(p, name)
                        v = rnd(s, rng)
                        # make real commands reasonably frequent but keep everything random
                        yield s.eq(v)
                mp = dut.master.phases[n]
                yield mp.rddata.eq(rnd(mp.rddata, rng))
                yield mp.rddata_valid.eq(rng.random() < 0.5)
                pi = injectors[n]
                if rng.random() < 0.3:
                    yield pi._command.storage.eq(rng.getrandbits(8))
                if rng.random() < 0.3:
                    yield pi._address.storage.eq(rnd(pi._address.storage, rng))
                    yield pi._baddress.storage.eq(rnd(pi._baddress.storage, rng))
                    yield pi._wrdata.storage.eq(rnd(pi._wrdata.storage, rng))
                yield pi._command_issue.re.eq(rng.random() < 0.4)
            yield
            # ---- observe (settled values of this cycle) ------------------------------------
            ctrl    = (yield dut._control.storage)
            sel     = ctrl & 1
            cke     = (ctrl >> 1) & 1
            odt     = (ctrl >> 2) & 1
            reset_n = (ctrl >> 3) & 1
            ext_sel = (yield dut.ext_dfi_sel)
            if prev_sel is not None and prev_sel != sel:
                stats["switch"] += 1
            prev_sel = sel
            mode = "sw" if not sel else ("ext" if ext_sel else "hw")
            stats[mode] += 1
            for n in range(nphases):
                mp, sp, ep = dut.master.phases[n], dut.slave.phases[n], dut.ext_dfi.phases[n]
                pi = injectors[n]
                m = {}
                for name in M2S + ["rddata", "rddata_valid"]:
                    m[name] = (yield getattr(mp, name))
                # CSR read data register: value captured at the previous edge
                status = (yield pi._rddata.status)
                if status != exp_status[n]:
                    errors.append((cyc, n, "rddata CSR", status, exp_status[n]))
                if mode == "sw" and m["rddata_valid"]:
                    exp_status[n] = m["rddata"]
                    stats["capture"] += 1

                if mode in ("hw", "ext"):
                    src = sp if mode == "hw" else ep
                    for name in M2S:
                        v = (yield getattr(src, name))
                        if name == "cs_n" and clam and mode == "hw":
                            v = v | (v << nranks)
                        if m[name] != v:
                            errors.append((cyc, n, mode, name, m[name], v))
                    if (yield src.rddata) != m["rddata"]:
                        errors.append((cyc, n, mode, "rddata"))
                    if (yield src.rddata_valid) != m["rddata_valid"]:
                        errors.append((cyc, n, mode, "rddata_valid"))
                    other = ep if mode == "hw" else sp
                    if (yield other.rddata_valid) != 0:
                        errors.append((cyc, n, mode, "rddata_valid leaked to unselected source"))
                else:
                    cmd   = (yield pi._command.storage)
                    issue = (yield pi._command_issue.re)
                    if issue:
                        stats["issue"] += 1
                    f = {k: (cmd >> i) & 1 for i, k in enumerate(
                        ["cs", "we", "cas", "ras", "wren", "rden", "cs_top", "cs_bottom"])}
                    full = 2**mranks - 1
                    if issue:
                        if f["cs_top"]:
                            cs_n = 2 & full
                        elif f["cs_bottom"]:
                            cs_n = 1
                        else:
                            cs_n = 0 if f["cs"] else full
                        we_n, cas_n, ras_n = 1 - f["we"], 1 - f["cas"], 1 - f["ras"]
                    else:
                        cs_n, we_n, cas_n, ras_n = full, 1, 1, 1
                    rank_bits = (2**nranks - 1)
                    exp = {
                        "cs_n": cs_n, "we_n": we_n, "cas_n": cas_n, "ras_n": ras_n,
                        "address":     (yield pi._address.storage),
                        "bank":        (yield pi._baddress.storage),
                        "wrdata":      (yield pi._wrdata.storage),
                        "wrdata_mask": 0,
                        "wrdata_en":   issue & f["wren"],
                        "rddata_en":   issue & f["rden"],
                        "cke":         rank_bits if cke else 0,
                        "odt":         rank_bits if odt else 0,
                        "reset_n":     reset_n,
                        "act_n":       1,
                    }
                    for name in M2S:
                        if m[name] != exp[name]:
                            errors.append((cyc, n, "sw", name, m[name], exp[name]))
                    # nothing is reported as valid read data to the controller / external master
                    if (yield sp.rddata_valid) or (yield ep.rddata_valid):
                        errors.append((cyc, n, "sw", "rddata_valid leaked"))

    # The CSR objects only become part of the design when a CSR bank collects them; do what the
    # bank does (finalize with a bus width, then add as submodules) so that the CSR fields are live.
    top = Module()
    top.submodules.dut = dut
    for c in dut.get_csrs():
        if isinstance(c, Module):
            c.finalize(32, "big")
            top.submodules += c
    run_simulation(top, tb())
    return errors, stats


def main():
    ok = True
    configs = [
        dict(nranks=1, clam=False, nphases=1),
        dict(nranks=1, clam=False, nphases=2),
        dict(nranks=2, clam=False, nphases=4),
        dict(nranks=1, clam=True,  nphases=2),
        dict(nranks=2, clam=True,  nphases=4),
    ]
    for i, cfg in enumerate(configs):
        errors, stats = run_config(seed=1000 + i, **cfg)
        print(cfg, stats, "errors:", len(errors))
        for e in errors[:5]:
            print("   ", e)
        for k, v in stats.items():
            if v == 0:
                print("    scenario not exercised:", k)
                ok = False
        ok = ok and not errors
    print("PASS" if ok else "FAIL")
    sys.exit(0 if ok else 1)


if __name__ == "__main__":
    main()
