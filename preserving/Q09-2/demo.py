#!/venv/bin/python
# Self-contained demonstration for C09 (AXI port: protocol-correct responses and memory semantics).
#
# Drives LiteDRAMAXI2Native with legal AXI4 traffic (FIXED/INCR/WRAP, narrow and full size, random
# IDs/strobes, random valid/ready stalls on the five AXI channels and on the three native streams)
# against a small native-side memory model that only looks at payloads on accepted handshakes, and
# checks only the *semantic* guarantees:
#   - one B response per write burst, in order, right ID, not before the last data beat of that
#     burst has been handed to the native wdata stream;
#   - R beats: right count, data, ID, LAST, in request order;
#   - a read issued after the B of a write sees the written data (also in read-modify-write mode);
#   - final memory == reference model (exactly the addressed beats updated under their strobes).
# Exits 0 and prints PASS on success.
# Focus of demo2 (change 2, write response bookkeeping): many short bursts with a very slow B channel.
# The 'info' figures printed per scenario are informative only (they differ between code versions).

import os
import sys
sys.path.insert(0, os.environ.get("DEMO_ROOT", "/repo")) # (DEMO_ROOT: copies of the worktree.)

import random

from migen import *

import litedram
assert litedram.__file__.startswith("/repo/"), litedram.__file__

from litedram.common import LiteDRAMNativePort
from litedram.frontend.axi import LiteDRAMAXIPort, LiteDRAMAXI2Native
from litex.soc.interconnect.axi import BURST_FIXED, BURST_INCR, BURST_WRAP

DEMO_NAME = "demo2"

# Memory layout (in 32-bit words, relative to base address):
#   [0, NSLOTS*16)         : write slots (16 words each, one per write burst)
#   [RO_BASE, RO_BASE+128) : never written, read concurrently with the writes
NSLOTS  = 14
RO_BASE = 256
MEM_WORDS = 512


def beat_addresses(addr, btype, blen, size):
    nbytes = 1 << size
    r = []
    if btype == BURST_FIXED:
        r = [addr]*(blen + 1)
    elif btype == BURST_INCR:
        r = [addr + i*nbytes for i in range(blen + 1)]
    else:
        total = nbytes*(blen + 1)
        low   = (addr//total)*total
        a = addr
        for i in range(blen + 1):
            r.append(a)
            a += nbytes
            if a >= low + total:
                a = low
    return r


class WBurst:
    def __init__(self, addr, btype, blen, size, id, data, strb):
        self.addr, self.type, self.len, self.size, self.id = addr, btype, blen, size, id
        self.data, self.strb = data, strb
        self.partial = any(s != 0xf for s in strb)


class RBurst:
    def __init__(self, addr, btype, blen, size, id, after_b=None):
        self.addr, self.type, self.len, self.size, self.id = addr, btype, blen, size, id
        self.after_b = after_b # Only issue once this many B responses have been received.


def run_scenario(name, seed, rmw, w_depth, r_depth, base, stall, short=False, nwrites=NSLOTS, max_cycles=40000):
    prng = random.Random(seed)

    axi  = LiteDRAMAXIPort(data_width=32, address_width=32, id_width=6)
    port = LiteDRAMNativePort("both", 32, 32)
    dut  = LiteDRAMAXI2Native(axi, port,
        w_buffer_depth         = w_depth,
        r_buffer_depth         = r_depth,
        base_address           = base,
        with_read_modify_write = rmw)

    # Memory / Reference model ---------------------------------------------------------------------
    mem = [prng.randrange(2**32) for _ in range(MEM_WORDS)]
    ref = list(mem)

    def ref_write(byte_addr, data, strb):
        w = ((byte_addr - base) >> 2) % MEM_WORDS
        for i in range(4):
            if (strb >> i) & 1:
                m = 0xff << (8*i)
                ref[w] = (ref[w] & ~m) | (data & m)

    # Traffic --------------------------------------------------------------------------------------
    writes = []
    for slot in range(nwrites):
        btype = prng.choice([BURST_FIXED, BURST_INCR, BURST_INCR, BURST_WRAP])
        size  = prng.choice([0, 1, 2, 2, 2])
        if btype == BURST_WRAP:
            blen = prng.choice([1, 1, 3] if short else [1, 3, 7, 15])
        else:
            blen = prng.randrange(3 if short else 16)
        nbytes = 1 << size
        slot_base = base + slot*64
        if btype == BURST_INCR:
            start = prng.randrange(0, 64 - nbytes*(blen + 1) + 1, nbytes)
        else:
            start = prng.randrange(0, 64, nbytes)
        addr  = slot_base + start
        addrs = beat_addresses(addr, btype, blen, size)
        assert all(slot_base <= a < slot_base + 64 for a in addrs)
        # In read-modify-write mode, a burst is either made of full-strobe beats only or of
        # partial-strobe beats only (see the note on the full-then-partial corner below).
        kind = prng.choice(["full", "partial", "mixed"])
        if rmw and kind == "mixed":
            kind = "partial"
        data, strb = [], []
        for a in addrs:
            lanes = ((1 << nbytes) - 1) << (a & 3)
            if size == 2 and kind == "full":
                s = 0xf
            elif size == 2 and kind == "mixed":
                s = prng.choice([0xf, 0xf, prng.randrange(16)])
            else:
                s = prng.randrange(16) & lanes
                if size == 2 and s == 0xf:
                    s = 0x6
            data.append(prng.randrange(2**32))
            strb.append(s)
        writes.append(WBurst(addr, btype, blen, size, prng.randrange(64), data, strb))

    reads = []
    # Background reads of the never written region, all burst kinds.
    for i in range(nwrites):
        btype = prng.choice([BURST_FIXED, BURST_INCR, BURST_WRAP])
        size  = prng.choice([0, 1, 2, 2])
        blen  = prng.choice([1, 3, 7, 15]) if btype == BURST_WRAP else prng.randrange(12)
        nbytes = 1 << size
        addr  = base + RO_BASE*4 + prng.randrange(0, 256, nbytes)
        reads.append(RBurst(addr, btype, blen, size, prng.randrange(64)))
        # Read back of a write slot as soon as its B response has been seen.
        reads.append(RBurst(base + i*64, BURST_INCR, 15, 2, prng.randrange(64), after_b=i + 1))
    # Final read back of everything that could have been written.
    for i in range(nwrites):
        reads.append(RBurst(base + i*64, BURST_INCR, 15, 2, prng.randrange(64), after_b=nwrites))

    st = {
        "b_count"      : 0,     # B responses received.
        "aw_count"     : 0,     # AW requests accepted.
        "wdata_count"  : 0,     # Native wdata handshakes.
        "b_log"        : [],    # (id, wdata_count at handshake)
        "r_log"        : [],    # (id, data, last)
        "r_expect"     : [],    # (id, data, last) computed when the AR is *issued*.
        "done"         : False,
        "ar_count"     : 0,     # AR requests accepted.
        "rlast_count"  : 0,     # R bursts completed.
        "cycles"       : 0,
        "max_aw_ahead" : 0,     # Info only: AW requests accepted and not yet responded.
        "max_ar_ahead" : 0,     # Info only: AR requests accepted and not yet completed.
        "errors"       : [],
    }

    def stall_cycles(p):
        n = 0
        while prng.randrange(100) < p:
            n += 1
        return n

    # AXI master -----------------------------------------------------------------------------------
    def aw_gen():
        for wb in writes:
            for _ in range(stall_cycles(stall["aw"])):
                yield
            yield axi.aw.valid.eq(1)
            yield axi.aw.addr.eq(wb.addr)
            yield axi.aw.burst.eq(wb.type)
            yield axi.aw.len.eq(wb.len)
            yield axi.aw.size.eq(wb.size)
            yield axi.aw.id.eq(wb.id)
            yield
            while not (yield axi.aw.ready):
                yield
            st["aw_count"] += 1
            yield axi.aw.valid.eq(0)
            yield axi.aw.addr.eq(prng.randrange(2**32)) # Junk while idle.
            yield axi.aw.id.eq(prng.randrange(64))

    def w_gen():
        for n, wb in enumerate(writes):
            if rmw and wb.partial:
                # Corners of the unchanged code that are deliberately avoided here (the demo has to
                # pass on the unchanged code too): in read-modify-write mode a partial-strobe beat is
                # only presented once its AW has been accepted and once the write buffer holds no
                # beat that still waits for its command (i.e. all earlier bursts are responded).
                while st["b_count"] < n or st["aw_count"] <= n:
                    yield
            addrs = beat_addresses(wb.addr, wb.type, wb.len, wb.size)
            for i in range(wb.len + 1):
                for _ in range(stall_cycles(stall["w"])):
                    yield
                yield axi.w.valid.eq(1)
                yield axi.w.data.eq(wb.data[i])
                yield axi.w.strb.eq(wb.strb[i])
                yield axi.w.last.eq(i == wb.len)
                yield
                while not (yield axi.w.ready):
                    yield
                ref_write(addrs[i], wb.data[i], wb.strb[i])
                yield axi.w.valid.eq(0)
                yield axi.w.data.eq(prng.randrange(2**32)) # Junk while idle.
                yield axi.w.strb.eq(prng.randrange(16))
                yield axi.w.last.eq(prng.randrange(2))

    def b_gen():
        while st["b_count"] < len(writes):
            ready = prng.randrange(100) >= stall["b"]
            yield axi.b.ready.eq(ready)
            yield
            if ready and (yield axi.b.valid):
                st["b_log"].append(((yield axi.b.id), (yield axi.b.resp), st["wdata_count"]))
                st["b_count"] += 1
        yield axi.b.ready.eq(0)

    def ar_gen():
        for rb in reads:
            while rb.after_b is not None and st["b_count"] < rb.after_b:
                yield
            for _ in range(stall_cycles(stall["ar"])):
                yield
            # Expected data: the reference state now (the slot is not written any more after its B).
            addrs = beat_addresses(rb.addr, rb.type, rb.len, rb.size)
            for i, a in enumerate(addrs):
                w = ((a - base) >> 2) % MEM_WORDS
                st["r_expect"].append((rb.id, ref[w], int(i == rb.len)))
            yield axi.ar.valid.eq(1)
            yield axi.ar.addr.eq(rb.addr)
            yield axi.ar.burst.eq(rb.type)
            yield axi.ar.len.eq(rb.len)
            yield axi.ar.size.eq(rb.size)
            yield axi.ar.id.eq(rb.id)
            yield
            while not (yield axi.ar.ready):
                yield
            st["ar_count"] += 1
            yield axi.ar.valid.eq(0)
            yield axi.ar.addr.eq(prng.randrange(2**32)) # Junk while idle.
            yield axi.ar.id.eq(prng.randrange(64))
        st["ar_done"] = True

    def r_gen():
        nbeats = sum(rb.len + 1 for rb in reads)
        while len(st["r_log"]) < nbeats:
            ready = prng.randrange(100) >= stall["r"]
            yield axi.r.ready.eq(ready)
            yield
            if ready and (yield axi.r.valid):
                st["r_log"].append(((yield axi.r.id), (yield axi.r.data), (yield axi.r.last)))
                st["rlast_count"] += (yield axi.r.last)
                if (yield axi.r.resp) != 0:
                    st["errors"].append("r.resp != OKAY")
        yield axi.r.ready.eq(0)
        st["done"] = True

    # Native side model ----------------------------------------------------------------------------
    # Commands are executed strictly in the order they were accepted. Payloads are only looked at
    # on accepted handshakes.
    @passive
    def native_gen():
        queue     = []   # (we, addr), in acceptance order.
        cmd_ready = 0
        w_ready   = 0
        r_valid   = 0
        while True:
            # Sample the handshakes of the current cycle.
            if cmd_ready and (yield port.cmd.valid):
                queue.append(((yield port.cmd.we), (yield port.cmd.addr)))
            if w_ready and (yield port.wdata.valid):
                if not queue or not queue[0][0]:
                    st["errors"].append("native wdata without pending write command")
                else:
                    we, addr = queue.pop(0)
                    data = (yield port.wdata.data)
                    strb = (yield port.wdata.we)
                    for i in range(4):
                        if (strb >> i) & 1:
                            m = 0xff << (8*i)
                            mem[addr % MEM_WORDS] = (mem[addr % MEM_WORDS] & ~m) | (data & m)
                    st["wdata_count"] += 1
            if r_valid and (yield port.rdata.ready):
                queue.pop(0)
                r_valid = 0
            # Drive the next cycle.
            cmd_ready = int(len(queue) < 6 and prng.randrange(100) >= stall["cmd"])
            head      = queue[0] if queue else None
            if head is None:
                w_ready = 0 # (see notes: data ready in the very cycle of its command is avoided)
            elif head[0]:
                w_ready = int(prng.randrange(100) >= stall["wdata"])
            else:
                w_ready = 0
                if not r_valid: # Once valid, stay valid until accepted.
                    r_valid = int(prng.randrange(100) >= stall["rdata"])
            yield port.cmd.ready.eq(cmd_ready)
            yield port.wdata.ready.eq(w_ready)
            yield port.rdata.valid.eq(r_valid)
            yield port.rdata.data.eq(mem[head[1] % MEM_WORDS] if r_valid else prng.randrange(2**32))
            yield

    @passive
    def watchdog():
        for _ in range(max_cycles):
            yield
        raise RuntimeError(f"{name}: timeout (b={st['b_count']}, r={len(st['r_log'])})")

    def main_gen():
        while not (st["done"] and st["b_count"] == len(writes)):
            st["cycles"] += 1
            st["max_aw_ahead"] = max(st["max_aw_ahead"], st["aw_count"] - st["b_count"])
            st["max_ar_ahead"] = max(st["max_ar_ahead"], st["ar_count"] - st["rlast_count"])
            yield
        for _ in range(64):
            yield

    try:
        run_simulation(dut, [native_gen(), aw_gen(), w_gen(), b_gen(), ar_gen(), r_gen(), watchdog(), main_gen()])
    except RuntimeError as e:
        st["errors"].append(str(e))

    # Checks ---------------------------------------------------------------------------------------
    errors = st["errors"]
    # B: one per burst, in order, right id, after the last data beat was handed to the memory.
    if len(st["b_log"]) != len(writes):
        errors.append(f"b count {len(st['b_log'])} != {len(writes)}")
    beats = 0
    for wb, (bid, bresp, wcount) in zip(writes, st["b_log"]):
        beats += wb.len + 1
        if bid != wb.id:
            errors.append(f"b.id {bid} != {wb.id}")
        if bresp != 0:
            errors.append("b.resp != OKAY")
        if wcount < beats:
            errors.append(f"b before data handed over ({wcount} < {beats})")
    # R: count/id/data/last in request order.
    if len(st["r_log"]) != len(st["r_expect"]):
        errors.append(f"r beats {len(st['r_log'])} != {len(st['r_expect'])}")
    for n, (got, exp) in enumerate(zip(st["r_log"], st["r_expect"])):
        if got != exp:
            errors.append(f"r beat {n}: got id={got[0]} data={got[1]:08x} last={got[2]}, "
                          f"expected id={exp[0]} data={exp[1]:08x} last={exp[2]}")
    # Memory.
    if st["wdata_count"] != sum(wb.len + 1 for wb in writes):
        errors.append(f"native write count {st['wdata_count']}")
    for w in range(MEM_WORDS):
        if mem[w] != ref[w]:
            errors.append(f"mem[{w}] = {mem[w]:08x}, expected {ref[w]:08x}")
    print(f"{name:<28} {'ok  ' if not errors else 'FAIL'} (info: {st['cycles']} cycles, "
          f"max AW ahead of B {st['max_aw_ahead']}, max AR ahead of RLAST {st['max_ar_ahead']})")
    for e in errors[:8]:
        print("   ", e)
    return not errors


NO_STALL  = dict(aw=0,  w=0,  b=0,  ar=0,  r=0,  cmd=0,  wdata=0,  rdata=0)
MID_STALL = dict(aw=40, w=30, b=50, ar=40, r=40, cmd=40, wdata=40, rdata=40)
SLOW_MEM  = dict(aw=10, w=10, b=10, ar=10, r=10, cmd=70, wdata=80, rdata=70)
SLOW_AXI  = dict(aw=70, w=60, b=85, ar=60, r=80, cmd=10, wdata=10, rdata=10)
POSTED    = dict(aw=0,  w=40, b=30, ar=0,  r=30, cmd=60, wdata=50, rdata=50) # Requests posted early.
SLOW_B    = dict(aw=0,  w=0,  b=95, ar=20, r=20, cmd=10, wdata=10, rdata=10) # Responses pile up.

SCENARIOS = [
    # name,                    seed, rmw,   w_depth, r_depth, base,       stall,     short bursts
    ("plain/no-stall/d16",        1, False, 16,      16,      0x00000000, NO_STALL,  False),
    ("plain/slow-b/d16/short",   11, False, 16,      16,      0x00000000, SLOW_B,    True),
    ("plain/mid-stall/d4/base",   2, False,  4,       4,      0x40000000, MID_STALL, False),
    ("plain/slow-mem/d8/short",   3, False,  8,       2,      0x00000000, SLOW_MEM,  True),
    ("rmw/slow-b/d16/short",     12, True,  16,      16,      0x10000000, SLOW_B,    True),
    ("rmw/mid-stall/d4/base",     6, True,   4,       4,      0x40000000, MID_STALL, False),
]

if __name__ == "__main__":
    ok = True
    for (name, seed, rmw, wd, rd, base, stall, short) in SCENARIOS:
        ok &= run_scenario(name, seed, rmw, wd, rd, base, stall, short)
    print(f"{DEMO_NAME}: {'PASS' if ok else 'FAIL'}")
    sys.exit(0 if ok else 1)
