#!/usr/bin/env python3
"""demo3 - whole-core read-after-write / ordering / liveness check (C01, C05 flavour).

Focus of this demo: the routing of the data strobes in the crossbar (which port gets
wdata.ready / rdata.valid, and whose write data reaches the controller). Port counts 1, 2, 3
and 5 (one bit, non power of two), one port reading while another one writes so that read and
write strobes are in flight at the same time (read latency != write latency), write streams
with partial byte enables next to idle ports that keep arbitrary data on their wdata bus, on
SDR 1:1 and DDR3 1:4, with refresh running.

Self-contained: plain migen simulation of LiteDRAMController + LiteDRAMCrossbar +
SDRAMPHYModel, driven by python generators, compared with a python reference memory
that applies the commands in the order in which they were accepted.
Prints PASS and exits 0 when every scenario is fine.
"""
import sys
sys.path.insert(0, "/repo")

import random

from migen import *

import litedram
assert litedram.__file__.startswith("/repo/"), litedram.__file__

from litedram.modules import SDRModule, DDR3Module, MT48LC4M16, MT41K64M16, _TechnologyTimings
from litedram.phy.model import SDRAMPHYModel
from litedram.core.controller import ControllerSettings, LiteDRAMController
from litedram.core.crossbar import LiteDRAMCrossbar


# Small devices (timings of real parts, but few rows to keep the simulation light, and a short
# refresh interval so that several refreshes fall into every scenario) --------------------------------

def _frequent_refresh(t, tREFI=2500):  # ns
    return _TechnologyTimings(tREFI=tREFI, tWTR=t.tWTR, tCCD=t.tCCD, tRRD=t.tRRD, tZQCS=t.tZQCS)


class SmallSDR(SDRModule):
    nbanks = 4
    nrows  = 8
    ncols  = 256
    technology_timings = _frequent_refresh(MT48LC4M16.technology_timings)
    speedgrade_timings = MT48LC4M16.speedgrade_timings


class SmallDDR3(DDR3Module):
    nbanks = 8
    nrows  = 8
    ncols  = 1024
    technology_timings = _frequent_refresh(MT41K64M16.technology_timings)
    speedgrade_timings = MT41K64M16.speedgrade_timings


# DUT ----------------------------------------------------------------------------------------------

class Core(Module):
    def __init__(self, kind, nports, **ctrl_kwargs):
        clk_freq = 100e6
        if kind == "SDR":
            module = SmallSDR(clk_freq, "1:1")
        else:
            module = SmallDDR3(clk_freq, "1:4")
        # few rows, but keep an address bus that has an A10 (precharge-all / auto-precharge bit)
        module.geom_settings.addressbits = max(module.geom_settings.addressbits, 11)
        self.submodules.phy = phy = SDRAMPHYModel(module, data_width=16, clk_freq=clk_freq)
        self.submodules.controller = controller = LiteDRAMController(
            phy_settings        = phy.settings,
            geom_settings       = module.geom_settings,
            timing_settings     = module.timing_settings,
            clk_freq            = clk_freq,
            controller_settings = ControllerSettings(**ctrl_kwargs))
        self.comb += controller.dfi.connect(phy.dfi)
        self.submodules.crossbar = crossbar = LiteDRAMCrossbar(controller.interface)
        self.ports = [crossbar.get_port() for _ in range(nports)]
        geom = module.geom_settings
        self.col_bits  = geom.colbits - controller.interface.address_align
        self.bank_bits = geom.bankbits
        self.nbytes    = controller.interface.data_width//8

    def addr(self, bank, row, col):
        return (row << (self.col_bits + self.bank_bits)) | (bank << self.col_bits) | col


# Port master + monitor ----------------------------------------------------------------------------

class Master:
    """ops: list of (we, addr, data, mask, gap, early): gap idle cycles before the command, early:
    number of cycles the write data is queued before the command is raised (>= 1)."""
    def __init__(self, dut, n, ops, ref):
        self.dut, self.n, self.port, self.ops, self.ref = dut, n, dut.ports[n], ops, ref
        self.wq        = []   # write data not taken yet
        self.acc_wdata = []   # (data, mask) of write commands raised, in order
        self.expected  = []   # expected read data in order of acceptance
        self.got       = []
        self.errors    = []
        self.accepted  = 0
        self.cmd_done  = False
        self.max_wait  = 0
        self.garbage   = random.Random(1000 + n)

    def cmd_gen(self):
        port = self.port
        for (we, addr, data, mask, gap, early) in self.ops:
            for _ in range(gap):
                yield
            if we:
                self.wq.append((data, mask))
                self.acc_wdata.append((data, mask))
                for _ in range(early):
                    yield
            yield port.cmd.valid.eq(1)
            yield port.cmd.we.eq(we)
            yield port.cmd.addr.eq(addr)
            yield
            wait = 0
            while not (yield port.cmd.ready):
                wait += 1
                yield
            self.max_wait = max(self.max_wait, wait)
            yield port.cmd.valid.eq(0)
        self.cmd_done = True

    @passive
    def wdata_gen(self):
        port = self.port
        presented = False
        while True:
            if (yield port.wdata.ready):
                if presented:
                    self.wq.pop(0)
                else:
                    self.errors.append("wdata.ready while no write data is owed")
            if self.wq:
                data, mask = self.wq[0]
                yield port.wdata.valid.eq(1)
                yield port.wdata.data.eq(data)
                yield port.wdata.we.eq(mask)
                presented = True
            else:
                # nothing owed: valid low, but the buses carry garbage (nobody may look at them)
                yield port.wdata.valid.eq(0)
                yield port.wdata.data.eq(self.garbage.getrandbits(8*self.dut.nbytes))
                yield port.wdata.we.eq(2**self.dut.nbytes - 1)
                presented = False
            yield

    @passive
    def rdata_gen(self):
        port = self.port
        yield port.rdata.ready.eq(1)
        while True:
            if (yield port.rdata.valid):
                self.got.append((yield port.rdata.data))
            yield

    @passive
    def monitor_gen(self):
        # Applies the commands to the reference memory in the order of acceptance.
        port = self.port
        nwr = 0
        while True:
            if (yield port.cmd.valid) and (yield port.cmd.ready):
                addr = (yield port.cmd.addr)
                if (yield port.cmd.we):
                    data, mask = self.acc_wdata[nwr]
                    nwr += 1
                    old = self.ref.get(addr, 0)
                    for b in range(self.dut.nbytes):
                        if mask & (1 << b):
                            old = (old & ~(0xff << 8*b)) | (data & (0xff << 8*b))
                    self.ref[addr] = old
                else:
                    self.expected.append(self.ref.get(addr, 0))
                self.accepted += 1
            yield

    def generators(self):
        return [self.cmd_gen(), self.wdata_gen(), self.rdata_gen(), self.monitor_gen()]


def run(name, dut, all_ops, max_cycles):
    ref = {}
    masters = [Master(dut, n, ops, ref) for n, ops in enumerate(all_ops)]
    state = {"cycles": 0, "timeout": False}

    def supervisor():
        # Runs until everything is complete (bounded: liveness).
        while True:
            done = all(m.cmd_done and not m.wq and len(m.got) >= len(m.expected) for m in masters)
            if done:
                break
            state["cycles"] += 1
            if state["cycles"] > max_cycles:
                state["timeout"] = True
                break
            yield
        for _ in range(40):  # let spurious late data show up
            yield

    # monitors first: they must see a cycle before the drivers change their outputs (all reads
    # of a tick happen before the writes of this tick are committed, so the order is irrelevant).
    gens = [supervisor()]
    for m in masters:
        gens += m.generators()
    run_simulation(dut, gens)

    ok = not state["timeout"]
    for m in masters:
        if m.errors:
            ok = False
            print("  port %d: %s" % (m.n, m.errors[0]))
        if m.got != m.expected:
            ok = False
            bad = [i for i, (g, e) in enumerate(zip(m.got, m.expected)) if g != e]
            print("  port %d: read data mismatch (%d got / %d expected, first bad index %s)" % (
                m.n, len(m.got), len(m.expected), bad[:1]))
    print("%-34s %s  (%d cycles, %d commands, longest wait for cmd.ready %d)" % (
        name, "ok" if ok else "FAIL" + (" (timeout)" if state["timeout"] else ""),
        state["cycles"], sum(m.accepted for m in masters), max(m.max_wait for m in masters)))
    return ok


# Scenarios ----------------------------------------------------------------------------------------

def rand_data(prng, dut):
    return prng.getrandbits(8*dut.nbytes)


def rand_mask(prng, dut):
    full = 2**dut.nbytes - 1
    return full if prng.random() < 0.4 else prng.getrandbits(dut.nbytes)


def write_burst_then_readback(dut, prng, port_n, nports, n, banks, early=1):
    """Back to back writes (same row: the bank machine streams them), then read everything back."""
    ops   = []
    addrs = []
    for i in range(n):
        bank = banks[(i//8) % len(banks)]
        # columns private to the port -> no cross port interference on these addresses
        a = dut.addr(bank, 1 + (i//16) % 2, (port_n*n + i) % (2**dut.col_bits))
        addrs.append(a)
        ops.append((1, a, rand_data(prng, dut), rand_mask(prng, dut), 0, early))
    # overwrite some with partial masks
    for a in prng.sample(addrs, n//3):
        ops.append((1, a, rand_data(prng, dut), rand_mask(prng, dut), prng.choice([0, 0, 1, 3]), early))
    for a in addrs:
        ops.append((0, a, 0, 0, 0, 1))
    return ops


def random_mix(dut, prng, n, banks, rows, cols, p_write=0.5, max_gap=3):
    """Random reads/writes on a small, shared address set (ports collide on addresses)."""
    ops = []
    for _ in range(n):
        a = dut.addr(prng.choice(banks), prng.choice(rows), prng.choice(cols))
        gap = prng.choice([0, 0, 0, 1, max_gap])
        if prng.random() < p_write:
            ops.append((1, a, rand_data(prng, dut), rand_mask(prng, dut), gap, prng.choice([1, 1, 2, 4])))
        else:
            ops.append((0, a, 0, 0, gap, 1))
    return ops


def reads_only(dut, prng, n, banks, rows, cols):
    return [(0, dut.addr(prng.choice(banks), prng.choice(rows), prng.choice(cols)), 0, 0, 0, 1) for _ in range(n)]


def main():
    prng = random.Random(3)
    ok   = True

    # One single port (grant / master number is one constant bit).
    dut = Core("SDR", 1)
    ok &= run("SDR 1 port", dut, [
        write_burst_then_readback(dut, prng, 0, 1, 16, banks=[0, 2]) +
        random_mix(dut, prng, 20, banks=[0, 2], rows=[1, 2], cols=list(range(8)))], 8000)

    # Five ports, shared addresses in all banks.
    dut = Core("SDR", 5)
    ok &= run("SDR 5 ports random mix", dut, [
        random_mix(dut, prng, 18, banks=[0, 1, 2, 3], rows=[0, 1], cols=[0, 1, 2]) for _ in range(5)], 14000)

    # Port 0 streams writes, port 1 streams reads from other banks at the same time, port 2 idles
    # most of the time with garbage on its write data bus.
    dut = Core("SDR", 3)
    ok &= run("SDR write stream + read stream", dut, [
        write_burst_then_readback(dut, prng, 0, 3, 24, banks=[0, 1]),
        reads_only(dut, prng, 36, banks=[2, 3], rows=[0, 1], cols=[0, 1, 2, 3]),
        random_mix(dut, prng, 6, banks=[0, 3], rows=[1], cols=[100, 101], max_gap=25)], 10000)

    # DDR3 1:4: the same with longer (and different) read/write latencies.
    dut = Core("DDR3", 3)
    ok &= run("DDR3 write stream + read stream", dut, [
        write_burst_then_readback(dut, prng, 0, 3, 16, banks=[0, 1]),
        reads_only(dut, prng, 24, banks=[1, 6], rows=[0, 1], cols=[0, 1, 2, 3]),
        random_mix(dut, prng, 6, banks=[0, 6], rows=[1], cols=[100, 101], max_gap=20)], 10000)

    dut = Core("DDR3", 2, cmd_buffer_buffered=True)
    ok &= run("DDR3 2 ports random mix (buffered)", dut, [
        random_mix(dut, prng, 18, banks=[3, 4], rows=[0, 5], cols=[0, 1, 7]) for _ in range(2)], 10000)

    print("PASS" if ok else "FAIL")
    sys.exit(0 if ok else 1)


if __name__ == "__main__":
    main()
