#!/usr/bin/env python3
# demo2: C16, minimum-type timings. For the whole module library x speedgrades x a range of
# controller clocks x rates 1:1/1:2/1:4 (x DDR4 fine refresh modes for tRFC) and for all SPD images
# (against an independent decode of the SPD bytes):
#   - cycles*denom >= datasheet clock count
#   - cycles*P - P*(1 - 1/denom) >= datasheet ns        (commands on the least favourable phases)
# evaluated in exact rational arithmetic (1e-6 ns tolerance for the float arithmetic of the code).
# Passes on the unchanged code and with patch2 applied.
import os, sys, csv, inspect
from fractions import Fraction

sys.path.insert(0, "/repo")

import litedram
assert litedram.__file__.startswith("/repo/"), litedram.__file__
import litedram.modules as M
from litedram.modules import SDRAMModule

TOL = Fraction(1, 10**6)  # ns
errors, checked, slack_hist = [], 0, {}

def ck_ns(raw):
    # datasheet entry -> (ck, ns): tuples are (ck, ns) with None for "not specified", scalars are ns
    if isinstance(raw, tuple):
        ck, ns = raw
    else:
        ck, ns = 0, raw
    return (ck or 0), Fraction(ns or 0)

def check(tag, module, name, ck, ns):
    global checked
    checked += 1
    cycles = getattr(module.timing_settings, name)
    denom  = int(module.rate.split(":")[1])
    P      = Fraction(10**9)/Fraction(module.clk_freq)
    if not isinstance(cycles, int):
        errors.append(f"{tag} {name}: {cycles!r} is not a cycle count"); return
    if cycles*denom < ck:
        errors.append(f"{tag} {name}: {cycles} cycles x {denom} < {ck} ck")
    worst = cycles*P - P*(1 - Fraction(1, denom))
    if worst + TOL < ns:
        errors.append(f"{tag} {name}: {cycles} cycles give {float(worst)} ns on the worst phases, datasheet {float(ns)} ns")
    # not absurdly pessimistic either (sanity of the demo, not part of the property)
    need = max(Fraction(ck)/denom, ns/P + 1 - Fraction(1, denom))
    extra = cycles - need
    slack_hist[min(int(extra), 3)] = slack_hist.get(min(int(extra), 3), 0) + 1
    if extra >= 2:
        errors.append(f"{tag} {name}: {cycles} cycles where {float(need)} would do")

def check_module(tag, cls, module, sgt, tech, frm):
    for name in ["tRP", "tRCD", "tWR", "tFAW", "tRAS"]:
        raw = getattr(sgt, name)
        if raw is None: continue
        check(tag, module, name, *ck_ns(raw))
    raw = sgt.tRFC
    if isinstance(raw, dict): raw = raw[frm or "1x"]
    check(tag, module, "tRFC", *ck_ns(raw))
    for name in ["tWTR", "tCCD", "tRRD", "tZQCS"]:
        raw = getattr(tech, name)
        if raw is None: continue
        check(tag, module, name, *ck_ns(raw))
    if sgt.tRAS is not None:  # tRC = tRAS + tRP
        (ck1, ns1), (ck2, ns2) = ck_ns(sgt.tRAS), ck_ns(sgt.tRP)
        check(tag, module, "tRC", ck1 + ck2, ns1 + ns2)

def module_classes():
    for name, cls in sorted(vars(M).items()):
        if inspect.isclass(cls) and issubclass(cls, SDRAMModule) and \
           all(hasattr(cls, a) for a in ("memtype", "nbanks", "nrows", "ncols")):
            yield name, cls

freqs = [10e6, 25e6, 33.333e6, 50e6, 62.5e6, 66.6e6, 75e6, 80e6, 83.3333e6, 100e6, 111.1e6, 125e6,
         133.33e6, 150e6, 166.666e6, 187.5e6, 200e6, 225e6, 250e6, 300e6, 333.3e6, 375e6, 400e6]

# 1. whole library ------------------------------------------------------------------------------
for name, cls in module_classes():
    for sg, sgt in cls.speedgrade_timings.items():
        for rate in ["1:1", "1:2", "1:4"]:
            for f in freqs:
                for frm in (["1x", "2x", "4x"] if cls.memtype == "DDR4" else [None]):
                    m = cls(clk_freq=f, rate=rate, speedgrade=None if sg == "default" else sg,
                            fine_refresh_mode=frm)
                    check_module(f"{name}/{sg}/{rate}/{f}/{frm}", cls, m, sgt, cls.technology_timings, frm)

# 2. SPD images against an independent decode of the bytes ----------------------------------------
def load_spd(path):
    data = [0]*512
    with open(path) as fd:
        for row in csv.DictReader(fd):
            if len(row["Byte Number"].split("-")) == 1:
                data[int(row["Byte Number"])] = int(row["Byte Value"], 16)
    return data

def s8(v): return v - 256 if v & 0x80 else v

def spd_timings(b):
    # returns {name: (ck, ns)} as Fractions, straight from the JEDEC SPD byte maps
    if b[2] == 0x0b:  # DDR3, annex K
        mtb = Fraction(b[10], b[11]); ftb = Fraction(b[9] >> 4, b[9] & 0xf)/1000
        t = lambda m, f=0: m*mtb + s8(f)*ftb
        return "DDR3", {
            "tRP":  (0, t(b[20], b[37])), "tRCD": (0, t(b[18], b[36])), "tWR": (0, t(b[17])),
            "tRAS": (0, t(((b[21] & 0xf) << 8) | b[22])),
            "tRC":  (0, t(((b[21] >> 4) << 8) | b[23], b[38])),
            "tRFC": (0, t((b[25] << 8) | b[24])), "tFAW": (0, t(((b[28] & 0xf) << 8) | b[29])),
            "tWTR": (4, t(b[26])), "tRRD": (4, t(b[19])), "tCCD": (4, 0),
        }
    else:             # DDR4, annex L
        mtb = Fraction(125, 1000); ftb = Fraction(1, 1000)
        t = lambda m, f=0: m*mtb + s8(f)*ftb
        return "DDR4", {
            "tRP":  (0, t(b[26], b[121])), "tRCD": (0, t(b[25], b[122])),
            "tWR":  (0, t(((b[41] & 0xf) << 8) | b[42])),
            "tRAS": (0, t(((b[27] & 0xf) << 8) | b[28])),
            "tRC":  (0, t(((b[27] >> 4) << 8) | b[29], b[120])),
            "tRFC": {"1x": (0, t((b[31] << 8) | b[30])), "2x": (0, t((b[33] << 8) | b[32])),
                     "4x": (0, t((b[35] << 8) | b[34]))},
            # minimum clock count of tFAW by page size (JESD79-4): 1/2K, 1K, 2K -> 16, 20, 28
            "tFAW": ({512: 16, 1024: 20, 2048: 28}[(2**(9 + (b[5] & 7)))*(4 << (b[12] & 7))//8],
                     t(((b[36] & 0xf) << 8) | b[37])),
            "tWTR": (4, t(((b[43] >> 4) << 8) | b[45])), "tRRD": (4, t(b[39], b[118])),
            "tCCD": (4, t(b[40], b[117])),
        }

spd_dir = "/repo/test/spd_data"
for fn in sorted(os.listdir(spd_dir)):
    data = load_spd(os.path.join(spd_dir, fn))
    memtype, ref = spd_timings(data)
    for f in freqs:
        for frm in (["1x", "2x", "4x"] if memtype == "DDR4" else [None]):
            m = SDRAMModule.from_spd_data(data, f, fine_refresh_mode=frm)
            assert m.memtype == memtype and m.rate == "1:4"
            for name, v in ref.items():
                if isinstance(v, dict): v = v[frm]
                check(f"SPD:{fn}/{f}/{frm}", m, name, v[0], Fraction(v[1]))

print(f"demo2: {checked} checks; whole cycles above the exact minimum: {dict(sorted(slack_hist.items()))}")
if errors:
    for e in errors[:20]:
        print("FAIL", e)
    print(f"{len(errors)} errors")
    sys.exit(1)
print("PASS")
