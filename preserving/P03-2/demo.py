#!/usr/bin/env python3
"""demo2: port address -> (rank, bank, row, column) is the documented one-to-one map (property C06).

Part A  LiteDRAMCrossbar alone, many geometries (bankbits 1..4, colbits 8..12, burst alignment 0..4,
        1..2 ranks, bank_byte_alignment): for every accepted command exactly one bank request is valid
        and its (bank number, address) is the reference split of the port address.  Only the cycle in
        which `valid & ready` is high is looked at.
Part B  LiteDRAMController + LiteDRAMCrossbar, observed on the DFI command bus: every port command ends
        as one READ/WRITE on the expected chip-select/bank/column (A10 skipped), in a row opened by an
        ACTIVATE of the expected row.  Per (rank, bank) the order must be the order of acceptance.
The reference map: consecutive addresses walk columns, then banks (then ranks), then rows; with a
bank_byte_alignment the bank field moves up and the low row bits sit below it.
"""
import sys
sys.path.insert(0, "/repo")

import random

from migen import *

import litedram
assert litedram.__file__.startswith("/repo/"), litedram.__file__

from litedram.common import *
from litedram.core.controller import ControllerSettings, LiteDRAMController
from litedram.core.crossbar import LiteDRAMCrossbar

# Reference map ------------------------------------------------------------------------------------

def ref_decode(a, bankbits, rowbits, colbits, align, rankbits, bba_words):
    """port word address -> (rank, bank, row, col) with col in device columns (multiple of 2**align)"""
    cb    = colbits - align
    shift = max(cb, log2_int(bba_words)) if bba_words else cb
    low   = a & (2**shift - 1)
    sel   = (a >> shift) & (2**(bankbits + rankbits) - 1)
    high  = a >> (shift + bankbits + rankbits)
    rca   = low | (high << shift)
    col   = (rca & (2**cb - 1)) << align
    row   = rca >> cb
    assert row < 2**rowbits
    return sel >> bankbits, sel & (2**bankbits - 1), row, col


def interesting_addresses(prng, aw, n_random):
    addrs  = [0, 2**aw - 1]
    for b in range(aw):                                     # walking one / consecutive addresses over carries
        addrs += [(1 << b) - 1, (1 << b)]
    addrs += [(2**aw - 1) ^ (1 << b) for b in range(0, aw, 3)]  # (some) walking zeros
    addrs += [prng.getrandbits(aw) for _ in range(n_random)]
    seen, out = set(), []
    for a in addrs:
        a &= 2**aw - 1
        if a not in seen:
            seen.add(a)
            out.append(a)
    return out


class SimpleSettings(Settings):
    def __init__(self, **kwargs):
        self.set_attributes(kwargs)

# Part A: crossbar alone ---------------------------------------------------------------------------

class CrossbarOnly(Module):
    def __init__(self, bankbits, rowbits, colbits, align, nranks, bba, dfi_databits=16, nphases=2):
        settings      = SimpleSettings(cmd_buffer_depth=8, address_mapping="ROW_BANK_COL", bank_byte_alignment=bba)
        settings.phy  = SimpleSettings(nranks=nranks, nphases=nphases, dfi_databits=dfi_databits,
                                       read_latency=3, write_latency=1, memtype="DDR2", cwl=2)
        settings.geom = SimpleSettings(bankbits=bankbits, rowbits=rowbits, colbits=colbits)
        self.interface = LiteDRAMInterface(align, settings)
        self.submodules.crossbar = LiteDRAMCrossbar(self.interface)
        self.port = self.crossbar.get_port()


def crossbar_case(prng, bankbits, rowbits, colbits, align, nranks, bba):
    dut      = CrossbarOnly(bankbits, rowbits, colbits, align, nranks, bba)
    rankbits = log2_int(nranks)
    bba_w    = bba // (dut.interface.data_width//8)
    aw       = dut.port.address_width
    assert aw == bankbits + rankbits + rowbits + colbits - align, aw
    addrs    = interesting_addresses(prng, aw, 8)
    banks    = [getattr(dut.interface, "bank%d" % n) for n in range(dut.interface.nbanks)]
    errors   = []
    seen     = {}

    def gen(dut):
        # Bank machines stub: always ready, never locked -> a command is accepted in the cycle it is valid.
        for bank in banks:
            yield bank.ready.eq(1)
        for a in addrs:
            yield dut.port.cmd.addr.eq(a)
            yield dut.port.cmd.we.eq(a & 1)
            yield dut.port.cmd.valid.eq(1)
            yield
            n = 0
            while not (yield dut.port.cmd.ready):
                yield
                n += 1
                assert n < 16
            hits = []
            for nb, bank in enumerate(banks):
                if (yield bank.valid):
                    hits.append((nb, (yield bank.addr), (yield bank.we)))
            rank, bank_, row, col = ref_decode(a, bankbits, rowbits, colbits, align, rankbits, bba_w)
            exp = [(rank*2**bankbits + bank_, (row << (colbits - align)) | (col >> align), a & 1)]
            if hits != exp:
                errors.append("addr 0x%x: bank requests %s, expected %s" % (a, hits, exp))
            for h in hits:
                if h[:2] in seen and seen[h[:2]] != a:
                    errors.append("addresses 0x%x and 0x%x collide" % (a, seen[h[:2]]))
                seen[h[:2]] = a
        yield dut.port.cmd.valid.eq(0)
        yield

    run_simulation(dut, gen(dut))
    return len(addrs), errors


def part_a():
    prng = random.Random(2)
    ok, total = True, 0
    cases = []
    for bankbits in [1, 2, 3, 4]:
        for colbits in [8, 9, 10, 11, 12]:
            align  = (bankbits + colbits) % 5          # 0..4, all values used
            nranks = 1 + (bankbits + colbits) % 2 if bankbits <= 3 else 1
            cases.append((bankbits, 12 + bankbits % 3, colbits, align, nranks, 0))
    # bank_byte_alignment (bytes; controller word is 4 bytes here): below / equal / above the column span
    cases += [(3, 13, 10, 2, 1, 0x100), (3, 13, 10, 2, 1, 0x400), (3, 13, 10, 3, 1, 0x4000),
              (2, 14, 11, 3, 2, 0x10000), (4, 12, 12, 4, 1, 0x2000), (1, 15, 8, 0, 2, 0x8000),
              (2, 12, 8, 0, 1, 0x400000)]  # the last one puts the bank field on top of row and column
    for case in cases:
        n, errors = crossbar_case(prng, *case)
        total += n
        if errors:
            ok = False
            print("  crossbar bankbits=%d rowbits=%d colbits=%d align=%d nranks=%d bba=0x%x: %d errors" % (*case, len(errors)))
            for e in errors[:3]:
                print("     ", e)
    print("part A: %d geometries, %d addresses  %s" % (len(cases), total, "ok" if ok else "FAIL"))
    return ok

# Part B: controller + crossbar on the DFI bus -----------------------------------------------------

class Core(Module):
    def __init__(self, memtype, nphases, bankbits, rowbits, colbits, nranks, bba):
        phy = PhySettings(phytype="demo", memtype=memtype, databits=8, dfi_databits=8 if memtype == "SDR" else 16,
            nphases=nphases, rdphase=0, wrphase=nphases - 1 if nphases > 1 else 0, cl=2, cwl=2 if memtype != "SDR" else None,
            read_latency=4, write_latency=1 if memtype != "SDR" else 0, nranks=nranks)
        geom   = GeomSettings(bankbits=bankbits, rowbits=rowbits, colbits=colbits)
        timing = TimingSettings(tRP=2, tRCD=2, tWR=2, tWTR=2, tREFI=120, tRFC=6, tFAW=None, tCCD=1 if nphases < 4 else 4,
            tRRD=2, tRC=None, tRAS=5, tZQCS=None)
        self.submodules.controller = LiteDRAMController(phy, geom, timing, 100e6,
            ControllerSettings(bank_byte_alignment=bba))
        self.submodules.crossbar = LiteDRAMCrossbar(self.controller.interface)
        self.port = self.crossbar.get_port()
        self.dfi  = self.controller.dfi


@passive
def dfi_monitor(dfi, nranks, per_bank, errors):
    open_row = {}
    while True:
        for phase in dfi.phases:
            cs_n = (yield phase.cs_n)
            if cs_n == 2**nranks - 1:
                continue
            cmd = ((yield phase.ras_n), (yield phase.cas_n), (yield phase.we_n))
            if cmd == (1, 1, 1) or cmd == (0, 0, 1):  # nop, refresh (only ever sent with all rows closed)
                if cmd == (0, 0, 1) and open_row:
                    errors.append("refresh with open rows %s" % open_row)
                continue
            ranks = [r for r in range(nranks) if not (cs_n >> r) & 1]
            bank  = (yield phase.bank)
            a     = (yield phase.address)
            for rank in ranks:
                if cmd == (0, 1, 1):    # activate
                    if (rank, bank) in open_row:
                        errors.append("activate on open bank %s" % ((rank, bank),))
                    open_row[(rank, bank)] = a
                elif cmd == (0, 1, 0):  # precharge (A10: all banks)
                    for key in list(open_row):
                        if key[0] == rank and (key[1] == bank or (a >> 10) & 1):
                            del open_row[key]
                elif cmd[0] == 1 and cmd[1] == 0:  # read/write
                    if (rank, bank) not in open_row:
                        errors.append("column access on closed bank %s" % ((rank, bank),))
                        continue
                    col = (a & 0x3ff) | ((a >> 11) << 10)  # A10 is the auto-precharge flag, not a column bit
                    per_bank.setdefault((rank, bank), []).append((open_row[(rank, bank)], col, int(cmd[2] == 0)))
                    if (a >> 10) & 1:
                        del open_row[(rank, bank)]
        yield


def core_case(name, seed, memtype, nphases, bankbits, rowbits, colbits, nranks, bba, n_random):
    prng     = random.Random(seed)
    dut      = Core(memtype, nphases, bankbits, rowbits, colbits, nranks, bba)
    align    = dut.controller.interface.address_align
    rankbits = log2_int(nranks)
    bba_w    = bba // (dut.controller.interface.data_width//8)
    aw       = dut.port.address_width
    addrs    = interesting_addresses(prng, aw, 0)
    prng.shuffle(addrs)
    addrs    = addrs[:20] + [prng.getrandbits(aw) for _ in range(n_random)]
    # a run of consecutive addresses across a column -> bank -> row carry
    base     = (prng.getrandbits(aw) | (2**(colbits - align + bankbits + rankbits) - 1)) & (2**aw - 1)
    addrs   += [(base + i) & (2**aw - 1) for i in range(-2, 3)]
    errors, observed, expected = [], {}, {}

    def master(port):
        yield port.rdata.ready.eq(1)
        yield port.wdata.valid.eq(1)          # write data always on offer
        yield port.wdata.we.eq(2**len(port.wdata.we) - 1)
        for a in addrs:
            we = prng.getrandbits(1)
            yield port.cmd.addr.eq(a)
            yield port.cmd.we.eq(we)
            yield port.cmd.valid.eq(1)
            yield
            n = 0
            while not (yield port.cmd.ready):
                yield
                n += 1
                if n > 2000:
                    raise TimeoutError(name)
            rank, bank, row, col = ref_decode(a, bankbits, rowbits, colbits, align, rankbits, bba_w)
            expected.setdefault((rank, bank), []).append((row, col, we))
            yield port.cmd.valid.eq(0)
            for _ in range(prng.choice([0, 0, 1, 3])):
                yield
        for _ in range(60):  # drain
            yield

    run_simulation(dut, [master(dut.port), dfi_monitor(dut.dfi, nranks, observed, errors)])
    if observed != expected:
        for key in sorted(set(observed) | set(expected)):
            if observed.get(key) != expected.get(key):
                errors.append("(rank, bank)=%s: DFI saw %s, expected %s" % (key, observed.get(key), expected.get(key)))
    print("part B: %-46s %3d commands, %2d banks used  %s" % (name, len(addrs), len(expected), "ok" if not errors else "FAIL"))
    for e in errors[:4]:
        print("     ", e)
    return not errors


def part_b():
    ok = True
    ok &= core_case("SDR 1:1 col 8, 4 banks",                       11, "SDR",  1, 2, 11, 8,  1, 0,      20)
    ok &= core_case("DDR2 1:2 col 12 (A10 crossed), 2 banks, bba",  12, "DDR2", 2, 1, 13, 12, 1, 0x1000, 20)
    ok &= core_case("DDR3 1:4 col 11 (A10 crossed), 2 ranks",       13, "DDR3", 4, 2, 12, 11, 2, 0,      20)
    return ok


if __name__ == "__main__":
    ok = part_a()
    ok &= part_b()
    print("PASS" if ok else "FAIL")
    sys.exit(0 if ok else 1)
