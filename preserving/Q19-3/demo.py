#!/usr/bin/env python3
# Demo for change 3 (litedram/phy/model.py): SDRAMPHYModel against an independent DRAM reference.
#
# A random but legal DFI trace (activates, precharges incl. precharge-all, masked writes, reads,
# back-to-back bursts, row and column command in the same cycle on different phases, random idle
# values on wrdata) is driven into SDRAMPHYModel.  A byte-addressed Python reference memory predicts
#   - the cycle in which rddata_valid is raised (command cycle + settings.read_latency) and the data
#     returned in that cycle on every phase,
#   - the final memory contents, which are read back through DFI at the end for every location that
#     was written plus locations that were never written (init image / zero),
# for SDR (1 phase), DDR2 (2 phases) and DDR3 (4 phases), with an init image laid out according to
# both address mappings.  rddata is only compared while rddata_valid is high.
# Exits 0 and prints PASS.

import sys, random
sys.path.insert(0, "/repo")

from migen import *

import litedram
assert litedram.__file__.startswith("/repo/"), litedram.__file__
from litedram.modules import MT48LC4M16, MT41K64M16, MT47H64M16
from litedram.phy.model import SDRAMPHYModel, get_sdram_phy_settings


# The simulator turns every memory word into a Signal, so keep the arrays small: few rows, and widen
# the DFI address bus afterwards (A10 is needed for precharge-all).
class SmallSDR(MT48LC4M16):   # 4 banks, 256 cols
    nrows = 8
class SmallDDR2(MT47H64M16):  # 8 banks, 1024 cols
    nrows = 4
class SmallDDR3(MT41K64M16):  # 8 banks, 1024 cols
    nrows = 8


class RefDRAM:
    """Byte addressed reference; location = (bank, row, col, byte lane)."""
    def __init__(self, nbanks, nrows, ncols, databits, init_words, mapping):
        self.bpc = databits//8  # bytes per column
        self.mem = {}
        self.nbanks, self.nrows, self.ncols = nbanks, nrows, ncols
        for i, w in enumerate(init_words):
            for b in range(4):
                a     = 4*i + b
                word  = a // self.bpc
                col   = word % ncols
                if mapping == "ROW_BANK_COL":
                    bank = (word // ncols) % nbanks
                    row  = word // (ncols*nbanks)
                else:
                    row  = (word // ncols) % nrows
                    bank = word // (ncols*nrows)
                assert row < nrows and bank < nbanks
                self.mem[(bank, row, col, a % self.bpc)] = (w >> (8*b)) & 0xff

    def burst_bytes(self, bank, row, col0, ncol):
        for k in range(ncol):
            for b in range(self.bpc):
                yield (bank, row, col0 + k, b)

    def read(self, bank, row, col0, ncol):
        v = 0
        for i, key in enumerate(self.burst_bytes(bank, row, col0, ncol)):
            v |= self.mem.get(key, 0) << (8*i)
        return v

    def write(self, bank, row, col0, ncol, data, mask):
        for i, key in enumerate(self.burst_bytes(bank, row, col0, ncol)):
            if not (mask >> i) & 1:
                self.mem[key] = (data >> (8*i)) & 0xff


def run_case(module_cls, rate, databits, mapping, seed, ncycles=300):
    rng      = random.Random(seed)
    module   = module_cls(100e6, rate)
    module.geom_settings.addressbits = 13
    settings = get_sdram_phy_settings(module.memtype, databits, 100e6)
    nbanks, nrows, ncols = 2**module.geom_settings.bankbits, 2**module.geom_settings.rowbits, 2**module.geom_settings.colbits
    init = [rng.getrandbits(32) for _ in range(3*ncols*databits//32 + 37)]  # ~3 rows + a partial one
    dut = SDRAMPHYModel(module, settings, init=list(init), address_mapping=mapping)
    ref = RefDRAM(nbanks, nrows, ncols, databits, init, mapping)

    P   = settings.nphases
    rl, wl = settings.read_latency, settings.write_latency
    dw  = settings.dfi_databits              # per phase
    W   = dw*P                               # bits per command
    ncol = W // databits                     # columns per command
    phases = dut.dfi.phases
    errors = []
    stats  = dict(act=0, pre=0, prea=0, wr=0, rd=0, b2b_rd=0, b2b_wr=0, dual=0, readback=0)

    def tb():
        open_row   = {b: None for b in range(nbanks)}
        act_cycle  = {b: -10 for b in range(nbanks)}
        wr_cycle   = {b: -10 for b in range(nbanks)}
        last_wr    = -10
        wr_due     = {}   # cycle -> (bank,row,col0,data,mask)
        rd_due     = {}   # cycle -> data
        touched    = set()
        last_col   = None
        readback   = None

        c = 0
        while True:
            # ---- observe cycle c-1 -------------------------------------------------------------
            if c > 0:
                exp = rd_due.pop(c - 1, None)
                # the model flags a returned burst with rddata_valid of phase 0
                valid = (yield phases[0].rddata_valid)
                if valid != (exp is not None):
                    errors.append(f"cycle {c-1}: rddata_valid {valid}, expected {exp is not None}")
                if exp is not None:
                    got = 0
                    for i, p in enumerate(phases):
                        got |= (yield p.rddata) << (i*dw)
                    if got != exp:
                        errors.append(f"cycle {c-1}: rddata {got:#x} != {exp:#x}")
                if c - 1 in wr_due:   # commit in the reference
                    ref.write(*wr_due.pop(c - 1))

            # ---- choose commands of cycle c ---------------------------------------------------------
            if readback is None and c >= ncycles:
                # final contents: all written locations + never written ones
                readback = sorted(touched)
                for _ in range(30):
                    readback.append((rng.randrange(nbanks), rng.randrange(nrows), rng.randrange(ncols//ncol)*ncol))
                for _ in range(40):                    # region covered by the init image (and around)
                    readback.append((rng.randrange(nbanks), rng.randrange(4), rng.randrange(ncols//ncol)*ncol))
                stats["readback"] = len(readback)
            row_cmd = col_cmd = None
            wr_safe = lambda b: c >= wr_cycle[b] + wl + 2
            rd_safe = c >= last_wr + wl + 2
            if readback is not None:
                if not readback:
                    if not rd_due and not wr_due:
                        break
                else:
                    b, r, col0 = readback[0]
                    if open_row[b] == r and c >= act_cycle[b] + 1 and rd_safe:
                        col_cmd = ("RD", b, col0)
                        readback.pop(0)
                        # prepare the next target's row meanwhile
                        if readback and P > 1:
                            b2, r2, _ = readback[0]
                            if b2 != b and open_row[b2] != r2 and wr_safe(b2):
                                row_cmd = ("ACT", b2, r2) if open_row[b2] is None else ("PRE", b2)
                    elif open_row[b] is None:
                        row_cmd = ("ACT", b, r)
                    elif open_row[b] != r and wr_safe(b):
                        row_cmd = ("PRE", b)
            else:
                busy = rng.random() < 0.85
                openb = [b for b in range(nbanks) if open_row[b] is not None and c >= act_cycle[b] + 1]
                if busy and openb and rng.random() < 0.7:
                    # back-to-back bursts are frequent: often repeat the type/bank of last cycle
                    b = rng.choice(openb)
                    col0 = rng.randrange(ncols//ncol)*ncol if rng.random() < 0.6 else rng.randrange(4)*ncol
                    col_in = col0 + rng.randrange(ncol)   # any column inside the burst
                    if rng.random() < 0.5:
                        if rd_safe:
                            col_cmd = ("RD", b, col_in)
                    else:
                        col_cmd = ("WR", b, col_in)
                if busy and (P > 1 or col_cmd is None) and rng.random() < 0.5:
                    cb = col_cmd[1] if col_cmd else None
                    b  = rng.randrange(nbanks)
                    if b != cb:
                        if open_row[b] is None:
                            row_cmd = ("ACT", b, rng.randrange(min(nrows, 4)) if rng.random() < 0.7 else rng.randrange(nrows))
                        elif wr_safe(b) and rng.random() < 0.5:
                            if col_cmd is None and rng.random() < 0.7 and all(wr_safe(x) for x in range(nbanks)):
                                row_cmd = ("PREA", b)
                            else:
                                row_cmd = ("PRE", b)

            # ---- drive cycle c ----------------------------------------------------------------------
            for p in phases:
                yield p.cs_n.eq(1); yield p.ras_n.eq(1); yield p.cas_n.eq(1); yield p.we_n.eq(1)
                yield p.address.eq(rng.getrandbits(len(p.address)))   # don't care when deselected
                yield p.bank.eq(rng.getrandbits(len(p.bank)))
                yield p.wrdata.eq(rng.getrandbits(dw))                # don't care unless a write is due
                yield p.wrdata_mask.eq(rng.getrandbits(dw//8))
            slots = rng.sample(range(P), 2) if P > 1 else [0, 0]
            if row_cmd and col_cmd:
                stats["dual"] += 1
            if row_cmd:
                p = phases[slots[0]]
                kind, b = row_cmd[0], row_cmd[1]
                yield p.cs_n.eq(0); yield p.ras_n.eq(0); yield p.bank.eq(b)
                if kind == "ACT":
                    yield p.address.eq(row_cmd[2])
                    open_row[b], act_cycle[b] = row_cmd[2], c
                    stats["act"] += 1
                elif kind == "PRE":
                    yield p.we_n.eq(0); yield p.address.eq(rng.getrandbits(10))   # A10 = 0
                    open_row[b] = None
                    stats["pre"] += 1
                else:
                    yield p.we_n.eq(0); yield p.address.eq((1 << 10) | rng.getrandbits(10))
                    for x in open_row: open_row[x] = None
                    stats["prea"] += 1
            if col_cmd:
                p = phases[slots[1]]
                kind, b, col = col_cmd
                col0 = col - col % ncol
                yield p.cs_n.eq(0); yield p.cas_n.eq(0); yield p.bank.eq(b); yield p.address.eq(col)
                if last_col == (kind, c - 1):
                    stats["b2b_rd" if kind == "RD" else "b2b_wr"] += 1
                last_col = (kind, c)
                if kind == "RD":
                    stats["rd"] += 1
                    # the reference answers with its contents at command time
                    rd_due[c + rl] = ref.read(b, open_row[b], col0, ncol)
                else:
                    stats["wr"] += 1
                    yield p.we_n.eq(0)
                    mask = rng.choice([0, 0, rng.getrandbits(W//8), rng.getrandbits(W//8), 2**(W//8) - 1])
                    wr_due[c + wl] = (b, open_row[b], col0, ncol, rng.getrandbits(W), mask)
                    wr_cycle[b] = last_wr = c
                    touched.add((b, open_row[b], col0))
            if c in wr_due:
                _, _, _, _, data, mask = wr_due[c]
                for i, p in enumerate(phases):
                    yield p.wrdata.eq((data >> (i*dw)) & (2**dw - 1))
                    yield p.wrdata_mask.eq((mask >> (i*dw//8)) & (2**(dw//8) - 1))
            yield
            c += 1

    run_simulation(dut, tb())
    return errors, stats, dict(rl=rl, wl=wl, P=P)


def main():
    ok = True
    cases = [
        (SmallSDR,  "1:1", 16, "ROW_BANK_COL"),
        (SmallSDR,  "1:1", 16, "BANK_ROW_COL"),
        (SmallDDR2, "1:2", 16, "ROW_BANK_COL"),
        (SmallDDR3, "1:4", 16, "BANK_ROW_COL"),
        (SmallDDR3, "1:4", 32, "ROW_BANK_COL"),
    ]
    total = {}
    for i, (cls, rate, databits, mapping) in enumerate(cases):
        errors, stats, info = run_case(cls, rate, databits, mapping, seed=77 + i)
        print(cls.__name__, databits, mapping, info, stats, "errors:", len(errors))
        for e in errors[:5]:
            print("   ", e)
        for k, v in stats.items():
            total[k] = total.get(k, 0) + v
        ok = ok and not errors and stats["rd"] > 100 and stats["wr"] > 30
    need = [k for k, v in total.items() if v == 0]
    if need:
        print("not exercised:", need)
    ok = ok and not need
    print("PASS" if ok else "FAIL")
    sys.exit(0 if ok else 1)


if __name__ == "__main__":
    main()
