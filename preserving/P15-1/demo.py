#!/venv/bin/python
"""
C15 demonstration (companion of patch1: two-stage read path, registered error flags).
The ECC port corrects any single and flags any double bit error.

Implementation-agnostic black-box check of LiteDRAMNativePortECC:
 - only the user port (port_from), the DRAM side port (port_to) and the CSR status values are used;
 - bit errors are injected in the *stored* words of a behavioural memory attached to port_to;
 - nothing is assumed about latencies, about where in a lane the check bits live or about the
   stored representation of a code word.

Checked for lane widths 8/16/32/64 (burst_cycles 8, 4 or 2 to keep the simulation short):
 1. write/read-back returns the data unchanged, no error counted;
 2. every single stored-bit flip of a lane (a sample of them for the 64-bit lane): data still correct, never counted as uncorrectable,
    counted as corrected for all positions of the lane except (at most) one - the overall parity;
 3. double flips (a deterministic sample of the pairs of positions of a lane): an uncorrectable
    error is counted, nothing is counted as corrected;
 4. partial byte enables inside an ECC word are counted as granularity errors, full writes are not;
 5. back-to-back write beats mixing partial and full byte enables;
 6. back-to-back reads mixing clean, single-flip and double-flip words;
 7. the same with random back-pressure on port_to.wdata / port_from.rdata (counts are then >= 1).
"""
import sys
sys.path.insert(0, "/repo")

import time
import random
import itertools

from migen import *

from litex.soc.cores.ecc import compute_m_n

from litedram.common import LiteDRAMNativePort
from litedram.frontend.ecc import LiteDRAMNativePortECC

# Python 3.12 shim ---------------------------------------------------------------------------------
# migen's bytecode based variable name extraction (used to name CSRs) does not know the Python 3.12
# opcodes; name the CSRs from the source line of the assignment instead. Test bench only.
import re, inspect, linecache
import litex.soc.interconnect.csr as _csr

def _get_obj_var_name(override=None, default=None):
    if override:
        return override
    frame = inspect.currentframe().f_back
    ourclass = frame.f_locals["self"].__class__
    while "self" in frame.f_locals and isinstance(frame.f_locals["self"], ourclass):
        frame = frame.f_back
    line = linecache.getline(frame.f_code.co_filename, frame.f_lineno)
    m = re.match(r"\s*(?:self\.)?(\w+)\s*=[^=]", line)
    if m is None:
        return default
    name = m.group(1)
    if len(name) > 2 and name[0] == "_" and name[1] != "_":
        name = name[1:]
    return name

_csr.get_obj_var_name = _get_obj_var_name

# The installed LiteX predates the CSR.wr_stb/rd_stb names used by this LiteDRAM: alias them.
if not hasattr(_csr.CSR(name="probe"), "wr_stb"):
    _csr_init = _csr.CSR.__init__
    def _csr_init_with_stb(self, *args, **kwargs):
        _csr_init(self, *args, **kwargs)
        self.wr_stb = self.re
        self.rd_stb = self.we
    _csr.CSR.__init__ = _csr_init_with_stb

SETTLE = 5  # cycles left to the status registers to settle after a transaction.


class DUT(Module):
    def __init__(self, k, burst):
        self.burst     = BURST = burst
        _, n = compute_m_n(k)
        self.k         = k
        self.code_bits  = n + 1
        self.from_width = k*BURST
        # DRAM side: the lanes are padded so that the port is a whole number of bytes.
        self.lane_to    = n + 1
        while (self.lane_to*BURST) % 8:
            self.lane_to += 1
        self.to_width   = self.lane_to*BURST
        self.port_from = LiteDRAMNativePort("both", 24, self.from_width)
        self.port_to   = LiteDRAMNativePort("both", 24, self.to_width)
        # (single line call: the CSR name extraction of LiteX/Python 3.12 needs it)
        ecc = LiteDRAMNativePortECC(self.port_from, self.port_to, burst_cycles=BURST, with_error_injection=False, with_we_error_detection=True)
        self.submodules.ecc = ecc


class Memory:
    """Behavioural memory on port_to with stored-bit error injection."""
    def __init__(self, port, stall=0, seed=1):
        self.port  = port
        self.mem   = {}
        self.flip  = {}   # addr -> xor mask applied to the stored word when read.
        self.wlog  = []   # (addr, we) of the writes seen.
        self.stall = stall
        self.prng  = random.Random(seed)

    @passive
    def handler(self):
        port   = self.port
        wqueue = []
        rqueue = []
        rbusy  = False
        nbytes = len(port.wdata.we)
        yield port.cmd.ready.eq(1)
        while True:
            # Observe the handshakes that complete on the coming clock edge.
            if (yield port.cmd.valid) and (yield port.cmd.ready):
                addr = (yield port.cmd.addr)
                if (yield port.cmd.we):
                    wqueue.append(addr)
                else:
                    rqueue.append(addr)
            if (yield port.wdata.valid) and (yield port.wdata.ready):
                addr = wqueue.pop(0)
                data = (yield port.wdata.data)
                we   = (yield port.wdata.we)
                mask = 0
                for b in range(nbytes):
                    if we & (1 << b):
                        mask |= 0xff << (8*b)
                self.mem[addr] = (self.mem.get(addr, 0) & ~mask) | (data & mask)
                self.wlog.append((addr, we))
            if rbusy and (yield port.rdata.ready):
                rbusy = False
            # Drive next cycle.
            yield port.wdata.ready.eq(int(len(wqueue) > 0 and self.prng.randrange(100) >= self.stall))
            if not rbusy:
                if rqueue and self.prng.randrange(100) >= self.stall:
                    addr = rqueue.pop(0)
                    yield port.rdata.valid.eq(1)
                    yield port.rdata.data.eq(self.mem.get(addr, 0) ^ self.flip.get(addr, 0))
                    rbusy = True
                else:
                    yield port.rdata.valid.eq(0)
                    yield port.rdata.data.eq(0)
            yield


class Driver:
    def __init__(self, dut, stall=0, seed=2):
        self.dut   = dut
        self.port  = dut.port_from
        self.stall = stall
        self.prng  = random.Random(seed)

    def cmd(self, addr, we):
        port = self.port
        yield port.cmd.valid.eq(1)
        yield port.cmd.we.eq(we)
        yield port.cmd.addr.eq(addr)
        yield
        while not (yield port.cmd.ready):
            yield
        yield port.cmd.valid.eq(0)

    def write(self, addr, data, we):
        port = self.port
        yield from self.cmd(addr, 1)
        yield port.wdata.valid.eq(1)
        yield port.wdata.data.eq(data)
        yield port.wdata.we.eq(we)
        yield
        while not (yield port.wdata.ready):
            yield
        yield port.wdata.valid.eq(0)
        yield port.wdata.we.eq(0)
        for _ in range(SETTLE):
            yield

    def read(self, addr):
        port = self.port
        yield from self.cmd(addr, 0)
        timeout = 0
        while True:
            ready = int(self.prng.randrange(100) >= self.stall)
            yield port.rdata.ready.eq(ready)
            yield
            if (yield port.rdata.valid) and ready:
                data = (yield port.rdata.data)
                break
            timeout += 1
            assert timeout < 1000, "read timeout"
        yield port.rdata.ready.eq(0)
        yield
        for _ in range(SETTLE):
            yield
        return data

    def counters(self):
        ecc = self.dut.ecc
        sec = (yield ecc.sec_errors.status)
        ded = (yield ecc.ded_errors.status)
        wer = (yield ecc.we_errors.status)
        return sec, ded, wer


def check(cond, msg):
    if not cond:
        print("FAIL:", msg)
        sys.exit(1)


def scenario(k, burst, stall, lanes, n_pairs, seed, n_singles=None):
    t0     = time.time()
    dut    = DUT(k, burst)
    BURST  = burst
    mem    = Memory(dut.port_to, stall=stall, seed=seed)
    drv    = Driver(dut, stall=stall, seed=seed + 1)
    prng   = random.Random(seed + 2)
    lane   = dut.lane_to
    exact  = (stall == 0)
    stats  = {"single": 0, "double": 0, "we": 0}

    def delta_ok(d, expect_count):
        if not expect_count:
            return d == 0
        return d == 1 if exact else d >= 1

    def main():
        full_we = 2**(dut.from_width//8) - 1
        words   = [prng.getrandbits(dut.from_width) for _ in range(4)]
        words[0] = 0
        words[1] = 2**dut.from_width - 1

        # 1. Clean write / read-back.
        for a, w in enumerate(words):
            c0 = yield from drv.counters()
            yield from drv.write(a, w, full_we)
            c1 = yield from drv.counters()
            check(c1 == c0, f"k={k}: full write changed counters {c0}->{c1}")
        for a, w in enumerate(words):
            c0 = yield from drv.counters()
            r  = yield from drv.read(a)
            c1 = yield from drv.counters()
            check(r == w, f"k={k}: clean read-back mismatch @{a}")
            check(c1 == c0, f"k={k}: clean read changed counters {c0}->{c1}")

        # 2. Single flips.
        for l in lanes:
            not_counted = []
            positions = list(range(dut.code_bits))
            if n_singles is not None:
                positions = sorted(set([0, 1, dut.code_bits - 1] + prng.sample(positions, n_singles)))
            for b in positions:
                a = prng.randrange(len(words))
                mem.flip = {a: 1 << (l*lane + b)}
                c0 = yield from drv.counters()
                r  = yield from drv.read(a)
                c1 = yield from drv.counters()
                check(r == words[a], f"k={k}: single flip lane {l} bit {b} not corrected")
                check(c1[1] == c0[1], f"k={k}: single flip lane {l} bit {b} reported uncorrectable")
                if c1[0] == c0[0]:
                    not_counted.append(b)
                else:
                    check(delta_ok(c1[0] - c0[0], True), f"k={k}: single flip lane {l} bit {b} sec delta {c1[0]-c0[0]}")
                stats["single"] += 1
            check(len(not_counted) <= 1, f"k={k}: lane {l}: positions not counted as corrected: {not_counted}")

        # 3. Double flips.
        for l in lanes:
            pairs = list(itertools.combinations(range(dut.code_bits), 2))
            if n_pairs is not None and len(pairs) > n_pairs:
                pairs = prng.sample(pairs, n_pairs)
            for b0, b1 in pairs:
                a = prng.randrange(len(words))
                mem.flip = {a: (1 << (l*lane + b0)) | (1 << (l*lane + b1))}
                c0 = yield from drv.counters()
                _  = yield from drv.read(a)
                c1 = yield from drv.counters()
                check(c1[0] == c0[0], f"k={k}: double flip lane {l} bits {b0},{b1} counted as corrected")
                check(delta_ok(c1[1] - c0[1], True), f"k={k}: double flip lane {l} bits {b0},{b1} ded delta {c1[1]-c0[1]}")
                stats["double"] += 1
        # Flips in two different lanes are two single errors: data still correct.
        if BURST > 1:
            mem.flip = {2: (1 << 3) | (1 << ((BURST - 1)*lane + 2))}
            c0 = yield from drv.counters()
            r  = yield from drv.read(2)
            c1 = yield from drv.counters()
            check(r == words[2] and c1[1] == c0[1] and c1[0] > c0[0], f"k={k}: two lanes single flips")
        mem.flip = {}

        # 4. Byte enables.
        lane_bytes = k//8
        patterns   = [full_we, 0]
        for l in lanes:
            for sub in ([0] if lane_bytes == 1 else [1, 2**lane_bytes - 2, 2**(lane_bytes - 1)]):
                # lane l partially (or not at all when lane is one byte) enabled, others full.
                patterns.append((full_we & ~((2**lane_bytes - 1) << (l*lane_bytes))) | (sub << (l*lane_bytes)))
        for we in patterns:
            partial = any(((we >> (i*lane_bytes)) & (2**lane_bytes - 1)) != 2**lane_bytes - 1 for i in range(BURST))
            c0 = yield from drv.counters()
            yield from drv.write(3, words[3], we)
            c1 = yield from drv.counters()
            check(c1[:2] == c0[:2], f"k={k}: write changed sec/ded counters")
            check(delta_ok(c1[2] - c0[2], partial), f"k={k}: we={we:#x} partial={partial} we_errors delta {c1[2]-c0[2]}")
            stats["we"] += 1
        # 5. Back-to-back beats (cmds first, then the data beats without pause): partial, full,
        # partial, full; then four full ones.
        for wes, n_partial in [([1, full_we, full_we >> 1, full_we], 2), ([full_we]*4, 0)]:
            c0 = yield from drv.counters()
            n0 = len(mem.wlog)
            for a in range(4):
                yield from drv.cmd(a, 1)
            port = dut.port_from
            for a, we in enumerate(wes):
                yield port.wdata.valid.eq(1)
                yield port.wdata.data.eq(words[a])
                yield port.wdata.we.eq(we)
                yield
                while not (yield port.wdata.ready):
                    yield
            yield port.wdata.valid.eq(0)
            yield port.wdata.we.eq(0)
            timeout = 0
            while len(mem.wlog) < n0 + 4 or timeout < SETTLE:
                yield
                timeout += 1
                assert timeout < 1000
            c1 = yield from drv.counters()
            d  = c1[2] - c0[2]
            check(c1[:2] == c0[:2], f"k={k}: burst write changed sec/ded counters")
            check(d == n_partial if exact else (d >= n_partial and (n_partial or d == 0)), f"k={k}: burst write we_errors delta {d}, {n_partial} partial beats")
            stats["we"] += 4
        for a in range(4):
            r = yield from drv.read(a)
            check(r == words[a], f"k={k}: read-back after burst write mismatch @{a}")
        # 6. Back-to-back reads: @0 with a single flip, @1 clean, @2 with a double flip, @3 clean.
        mem.flip = {0: 1 << 3, 2: 0b11 << ((BURST - 1)*lane + 4)}
        c0 = yield from drv.counters()
        for a in range(4):
            yield from drv.cmd(a, 0)
        port, got, timeout = dut.port_from, [], 0
        while len(got) < 4:
            ready = int(drv.prng.randrange(100) >= stall)
            yield port.rdata.ready.eq(ready)
            yield
            if (yield port.rdata.valid) and ready:
                got.append((yield port.rdata.data))
            timeout += 1
            assert timeout < 1000, "burst read timeout"
        yield port.rdata.ready.eq(0)
        for _ in range(SETTLE + 1):
            yield
        c1 = yield from drv.counters()
        mem.flip = {}
        check([got[a] == words[a] for a in (0, 1, 3)] == [True]*3, f"k={k}: burst read data mismatch")
        check(delta_ok(c1[0] - c0[0], True) and delta_ok(c1[1] - c0[1], True), f"k={k}: burst read counters {c0}->{c1}")
        # Full rewrite and final read-back.
        yield from drv.write(3, words[3], full_we)
        r = yield from drv.read(3)
        check(r == words[3], f"k={k}: final read-back mismatch")

    run_simulation(dut, [main(), mem.handler()])
    print(f"  k={k:2d} lane={lane:2d} stall={stall:2d}%: {stats['single']} single, {stats['double']} double, {stats['we']} we patterns OK ({time.time() - t0:.1f} s)")


def main():
    import litedram
    print("litedram from", litedram.__file__)
    # (data bits per lane, stall %, lanes exercised, number of double flip pairs per lane (None: all))
    scenario( 8, 8,  0, [0, 7], 12, seed=10)
    scenario(16, 4,  0, [3],    16, seed=20)
    scenario(32, 2,  0, [1],    16, seed=30)
    scenario(64, 1,  0, [0],     5, seed=40, n_singles=8)
    scenario( 8, 8, 40, [2],    12, seed=50)
    scenario(32, 2, 40, [0],    10, seed=60, n_singles=12)
    print("PASS")


if __name__ == "__main__":
    main()
