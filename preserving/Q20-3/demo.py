#!/usr/bin/env python3
# Demo 3: LPDDR5 PHY - every DFI command is decoded back from the CS/CA *pads* of LPDDR5SimPHY (CS sampled
# once per CK, CA on both CK edges) with an independent JEDEC (JESD209-5) command decoder and compared
# with the DFI command (operation, bank, row/column, AP/AB flag, MR address/operand, CK slot); a command
# on the cycle right after an accepted one is the only thing that is dropped.
import sys
sys.path.insert(0, "/repo")

import random
from functools import partial

from migen import *

# Environment shims (this sandbox: Python 3.12 + a litex release without CSR.wr_stb) ----------------
import dis, inspect
from litex.soc.interconnect import csr as _csr

def _get_obj_var_name(override=None, default=None):
    # migen's tracer does not know the Python >= 3.11 bytecode: find `x = CSR()` / `self.x = CSR()` with dis
    if override:
        return override
    frame = inspect.currentframe().f_back
    ourclass = frame.f_locals["self"].__class__
    while "self" in frame.f_locals and isinstance(frame.f_locals["self"], ourclass):
        frame = frame.f_back
    for ins in dis.get_instructions(frame.f_code):
        if ins.offset > frame.f_lasti:
            if ins.opname in ["STORE_ATTR", "STORE_FAST", "STORE_NAME", "STORE_DEREF"]:
                name = ins.argval
                return name[1:] if len(name) > 2 and name[0] == "_" and name[1] != "_" else name
            if ins.opname not in ["LOAD_FAST", "LOAD_ATTR", "LOAD_GLOBAL", "LOAD_DEREF", "COPY", "CACHE"]:
                break
    return default

if sys.version_info >= (3, 11):
    _csr.get_obj_var_name = _get_obj_var_name
if not hasattr(_csr.CSR(name="probe"), "wr_stb"):  # CSR write strobe name used by this LiteDRAM version
    _csr_init = _csr.CSR.__init__
    def _csr_init_wr_stb(self, *args, **kwargs):
        _csr_init(self, *args, **kwargs)
        self.wr_stb = self.re
    _csr.CSR.__init__ = _csr_init_wr_stb

import litedram
assert litedram.__file__.startswith("/repo"), litedram.__file__

from litedram.phy.lpddr5.simphy import LPDDR5SimPHY
import test.phy_common

def generate_clocks(max):  # same clocks as test/test_lpddr5.py
    def phase(ck, phase):
        p = ck // 2 - 1
        p -= (ck // 4) * phase//90
        p %= ck
        return p
    sys = 8 * max
    clocks = {"sys": (sys, phase(sys, 0)), "sys_90": (sys, phase(sys, 90)),
              "sys_180": (sys, phase(sys, 180)), "sys_270": (sys, phase(sys, 270))}
    for i in range(1, log2_int(max) + 1):
        n = 2**i
        for ph in [0, 90, 180, 270]:
            clocks[f"sys{n}x" + (f"_{ph}" if ph else "")] = (sys // n, phase(sys // n, ph))
    return clocks

run_simulation = partial(test.phy_common.run_simulation, clocks=generate_clocks(max=8))

# DFI side ----------------------------------------------------------------------------------------

CMDS = {  # name: (cas_n, ras_n, we_n)
    "ACT": (1, 0, 1), "RD": (0, 1, 1), "WR": (0, 1, 0), "PRE": (1, 0, 0),
    "REF": (0, 0, 1), "ZQC": (1, 1, 0), "MRS": (0, 0, 0), "NOP": (1, 1, 1),
}
IDLE = dict(cs_n=1, cas_n=1, ras_n=1, we_n=1, bank=0, address=0)
ZQC_LATCH = 0b10000110

def dfi_cmd(name, bank=0, address=0, cs_n=0):
    cas_n, ras_n, we_n = CMDS[name]
    return dict(cs_n=cs_n, cas_n=cas_n, ras_n=ras_n, we_n=we_n, bank=bank, address=address)

def expected_command(d, masked_write):
    """Reference meaning of a DFI command: None if not a command, else (kind, fields)"""
    if d["cs_n"] != 0:
        return None
    name = {v: k for k, v in CMDS.items()}[(d["cas_n"], d["ras_n"], d["we_n"])]
    a, b = d["address"], d["bank"]
    bit = lambda v, n: (v >> n) & 1
    col = (a >> 4) & 0x3f  # C5..C0 = DFI address[9:4] (address[3:0] is the burst address)
    if name == "ACT": return ("ACT", dict(bank=b & 0xf, row=a & 0x3ffff))
    if name == "RD":  return ("RD16", dict(bank=b & 0xf, col=col, ap=bit(a, 10)))
    if name == "WR":  return ("MWR" if masked_write else "WR16", dict(bank=b & 0xf, col=col, ap=bit(a, 10)))
    if name == "PRE": return ("PRE", dict(bank=b & 0xf, ab=bit(a, 10)))
    if name == "REF": return ("REF", dict(bank=b & 0x7, ab=bit(a, 10)))
    if name == "MRS": return ("MRW", dict(ma=b & 0x7f, op=a & 0xff))
    if name == "ZQC":
        if b == 0: return ("MPC", dict(op=(a & 0xff) if a != 0 else ZQC_LATCH))  # address 0: ZQC latch (BIOS compat.)
        if b == 1: return ("MRR", dict(ma=a & 0x7f))
        if b == 2: return ("NOP", dict())
        return None
    return None

def expected_stream(sequence, masked_write):
    """[(ck, kind, fields)]: a command is dropped only if one was accepted in the previous cycle"""
    out, dropped, prev_accepted = [], 0, False
    for cyc, d in enumerate(sequence):
        e = expected_command(d, masked_write) if d else None
        accepted = e is not None and not prev_accepted
        if e is not None and not accepted:
            dropped += 1
        if accepted:
            out.append((cyc, *e))
        prev_accepted = accepted
    return out, dropped

# Pads side ---------------------------------------------------------------------------------------

def decode_ck(r, f):
    """Decode one LPDDR5 command: r/f are CA[6:0] on the rising/falling CK edge (CS high)"""
    b = lambda v, n: (v >> n) & 1
    bits = lambda v, lo, hi: (v >> lo) & ((1 << (hi - lo + 1)) - 1)
    h = tuple(b(r, i) for i in range(7))
    if h[:3] == (1, 1, 1):  # ACT-1: H H H R14-17 | BA0-3 R11-13
        return ("ACT-1", dict(bank=bits(f, 0, 3), row_hi=(bits(r, 3, 6) << 14) | (bits(f, 4, 6) << 11)))
    if h[:3] == (1, 1, 0):  # ACT-2: H H L R7-10 | R0-6
        return ("ACT-2", dict(row_lo=(bits(r, 3, 6) << 7) | f))
    cas_like = {(0, 1, 0): "MWR", (0, 1, 1): "WR16", (1, 0, 0): "RD16"}
    if h[:3] in cas_like:  # x x x C0 C3-5 | BA0-3 C1-2 AP
        col = b(r, 3) | (bits(f, 4, 5) << 1) | (bits(r, 4, 6) << 3)
        return (cas_like[h[:3]], dict(bank=bits(f, 0, 3), col=col, ap=b(f, 6)))
    if h[:4] == (0, 0, 1, 1):  # CAS: L L H H WS_WR WS_RD WS_FS | DC0-3 WRX WXSA WXSB
        assert f == 0, "CAS data copy / write X bits must be 0"
        return ("CAS", dict(ws_wr=h[4], ws_rd=h[5], ws_fs=h[6]))
    table = {
        (0, 0, 0, 1, 1, 1, 1): "PRE", (0, 0, 0, 1, 1, 1, 0): "REF", (0, 0, 0, 1, 1, 0, 1): "MRW-1",
        (0, 0, 0, 1, 1, 0, 0): "MRR", (0, 0, 0, 0, 0, 0, 0): "NOP",
    }
    if h in table:
        name = table[h]
        if name == "PRE":   return (name, dict(bank=bits(f, 0, 3), ab=b(f, 6)))                 # CA4, CA5 are V
        if name == "REF":   assert b(f, 3) == 0 and b(f, 4) == 0, "RFM/SB0 must be 0"
        if name == "REF":   return (name, dict(bank=bits(f, 0, 2), ab=b(f, 6)))                 # CA5 is V
        if name == "MRW-1": return (name, dict(ma=f))
        if name == "MRR":   return (name, dict(ma=f))
        if name == "NOP":   return (name, dict())
    if h[:6] == (0, 0, 0, 1, 0, 0):  # MRW-2: L L L H L L OP7 | OP0-6
        return ("MRW-2", dict(op=(h[6] << 7) | f))
    if h[:6] == (0, 0, 0, 0, 1, 1):  # MPC: L L L L H H OP7 | OP0-6
        return ("MPC", dict(op=(h[6] << 7) | f))
    raise AssertionError(f"reserved/unsupported encoding on the pads: {h} {f:07b}")

def decode_pads(cs, ca_r, ca_f):
    """per CK lists -> [(start_ck, kind, fields)]"""
    small = [(t, *decode_ck(ca_r[t], ca_f[t])) for t in range(len(cs)) if cs[t]]
    full = []
    it = iter(small)
    for t, name, f in it:
        if name in ["PRE", "REF", "MPC", "NOP"]:  # single command: sent on the 2nd CK, after a DESELECT
            assert t >= 1 and cs[t-1] == 0
            full.append((t - 1, name, f))
            continue
        t2, name2, f2 = next(it)
        assert t2 == t + 1, f"second half of {name}@{t} not adjacent: {name2}@{t2}"
        if name == "ACT-1":
            assert name2 == "ACT-2", name2
            full.append((t, "ACT", dict(bank=f["bank"], row=f["row_hi"] | f2["row_lo"])))
        elif name == "MRW-1":
            assert name2 == "MRW-2", name2
            full.append((t, "MRW", dict(ma=f["ma"], op=f2["op"])))
        elif name == "CAS":
            assert name2 in ["RD16", "WR16", "MWR", "MRR"], name2
            sync = (f["ws_wr"], f["ws_rd"], f["ws_fs"])
            legal = [(0, 0, 0), (0, 1, 0)] if name2 in ["RD16", "MRR"] else [(0, 0, 0), (1, 0, 0)]
            assert sync in legal, f"CAS WCK sync bits {sync} do not match {name2}"
            full.append((t, name2, f2))
        else:
            raise AssertionError(f"unexpected first command {name}@{t}")
    return full

# Simulation --------------------------------------------------------------------------------------

def run(phy, sequence, masked_write=True):
    n = len(sequence) + 4
    cs, ca = [], []

    def driver(dfi):
        for d in sequence + [None] * 4:
            for sig, val in {**IDLE, **(d or {})}.items():
                yield getattr(dfi.p0, sig).eq(val)
            yield

    def cs_sampler(pads):
        for _ in range(n):
            cs.append((yield pads.cs))
            yield

    def ca_sampler(pads):
        for _ in range(2*n):
            ca.append((yield pads.ca))
            yield

    run_simulation(phy, {"sys": [driver(phy.dfi)], "sys_270": [cs_sampler(phy.pads)], "sys2x": [ca_sampler(phy.pads)]})
    # CS is shifted by 180 deg and CA by 270 deg: CA samples 2+2k, 3+2k belong to CS sample k
    ca_r = [ca[2 + 2*k] for k in range(n - 1)]
    ca_f = [ca[3 + 2*k] for k in range(n - 1)]
    cs = cs[:n - 1]
    expected, dropped = expected_stream(sequence, masked_write)
    decoded = decode_pads(cs, ca_r, ca_f)
    assert len(decoded) == len(expected), (len(decoded), len(expected))
    for (t, kind, f), (c, ekind, ef) in zip(decoded, expected):
        assert t == c + 1, f"DFI cycle {c}: {kind} starts at CK {t}, expected {c + 1}"  # 1 CK of serialization
        assert (kind, f) == (ekind, ef), f"DFI cycle {c}: pads {kind} {f} != DFI {ekind} {ef}"
    assert sum(cs) == sum(1 if k in ["PRE", "REF", "MPC", "NOP"] else 2 for _, k, _ in decoded)
    return len(decoded), dropped

def random_cmd(rng, kinds, cs_n=None):
    name = rng.choice(kinds)
    if name == "ZQC":
        bank = rng.choice([0, 0, 1, 1, 2, rng.randrange(3, 128)])
    elif name == "MRS":
        bank = rng.randrange(128)
    else:
        bank = rng.randrange(16)
    address = rng.choice([rng.randrange(1 << 18)] * 7 + [0])
    return dfi_cmd(name, bank=bank, address=address, cs_n=rng.choice([0]*9 + [1]) if cs_n is None else cs_n)

def all_types(rng, repeat):
    seq = []
    for name in ["ACT", "RD", "WR", "PRE", "REF", "ZQC", "MRS"]:
        for i in range(repeat):
            d = random_cmd(rng, [name], cs_n=0)
            if name == "ZQC":
                d["bank"] = i % 3  # MPC / MRR / NOP
            seq += [d, None] + [None] * rng.choice([0, 0, 1, 3])
    return seq

def random_traffic(rng, ncycles):
    """Random commands with all spacings, including back-to-back ones (second one must be dropped)"""
    kinds = ["ACT", "RD", "WR", "PRE", "REF", "ZQC", "MRS", "NOP"]
    seq = [None] * ncycles
    c = 0
    while c < ncycles:
        seq[c] = random_cmd(rng, kinds)
        c += rng.choice([1, 1, 1, 2, 2, 2, 3, 4, 6])
    return seq

if __name__ == "__main__":
    rng = random.Random(5)
    freq = 100e6
    for wck_ck_ratio in [2, 4]:
        for masked_write in [True, False]:
            burst = [random_cmd(rng, ["ACT", "RD", "WR", "PRE", "REF", "MRS"], cs_n=0) for _ in range(5)]  # 2nd, 4th dropped
            seq = all_types(rng, repeat=3) + burst + [None] + random_traffic(rng, 45)
            phy = LPDDR5SimPHY(sys_clk_freq=freq, wck_ck_ratio=wck_ck_ratio, masked_write=masked_write)
            n, dropped = run(phy, seq, masked_write=masked_write)
            print(f"WCK:CK={wck_ck_ratio}:1 masked_write={masked_write!s:5}: {n} commands decoded, {dropped} dropped")
            assert dropped >= 2
    print("PASS")
