#!/usr/bin/env python3
# Demo 1 - C09 (AXI port: protocol-correct responses and memory semantics), emphasis on the WRITE path:
# write bursts (FIXED/INCR/WRAP, all sizes, random ids/strobes), one B per burst with the right id and not
# before the burst's data has been handed to the native port, read-after-B sees the data, with and without
# read-modify-write. Self-contained; passes on the unchanged code and with patch1 applied.
import os, sys, random
sys.path.insert(0, os.path.dirname(os.path.dirname(os.path.abspath(__file__))))

from migen import *
from litedram.common import LiteDRAMNativePort
from litedram.frontend.axi import LiteDRAMAXIPort, LiteDRAMAXI2Native
from litex.soc.interconnect.axi import BURST_FIXED, BURST_INCR, BURST_WRAP

# Reference AXI burst arithmetic (from the AXI4 specification, not from the implementation) ---------

def beat_addrs(addr, burst, length, size):
    nbytes = 1 << size
    if burst == BURST_FIXED:
        return [addr]*(length + 1)
    if burst == BURST_INCR:
        aligned = (addr//nbytes)*nbytes
        return [addr] + [aligned + i*nbytes for i in range(1, length + 1)]
    container = (length + 1)*nbytes
    lower     = (addr//container)*container
    return [lower + ((addr - lower + i*nbytes) % container) for i in range(length + 1)]

def active_lanes(a, size, nbytes_word):
    nbytes = 1 << size
    lo = a % nbytes_word
    hi = ((a//nbytes)*nbytes + nbytes - 1) % nbytes_word
    return sum(1 << l for l in range(lo, hi + 1))

def lanes_to_mask(lanes, nbytes_word):
    return sum(0xff << (8*l) for l in range(nbytes_word) if (lanes >> l) & 1)

class Tx:
    pass

# Traffic generation --------------------------------------------------------------------------------

def make_traffic(prng, cfg):
    """Rounds of concurrent writes (to one region) and reads (of the other regions). A round only starts
    when every transaction of the previous rounds has completed (B received / last R beat received), so
    every read is issued after the response of every write it can observe: its data is fully determined."""
    B        = cfg["data_width"]//8
    full     = (1 << B) - 1
    nregions = 4
    rwords   = cfg["mem_words"]//nregions
    ref      = list(cfg["init"])
    writes, reads = [], []
    for rnd in range(cfg["rounds"]):
        wregion = rnd % nregions
        def gen(region, is_write):
            while True:
                t = Tx()
                t.round = rnd
                t.burst = prng.choice(cfg["bursts"])
                t.size  = prng.choice(cfg["sizes"])
                nbytes  = 1 << t.size
                if t.burst == BURST_WRAP:
                    t.len = prng.choice([1, 3, 7, 15])
                elif t.burst == BURST_FIXED:
                    t.len = prng.randrange(0, 16)
                else:
                    t.len = prng.randrange(0, cfg["max_len"] + 1)
                lo   = region*rwords*B
                addr = lo + prng.randrange(rwords*B)
                if t.burst == BURST_WRAP or cfg["aligned"] or prng.randrange(3):
                    addr = (addr//nbytes)*nbytes
                t.id    = prng.randrange(1 << cfg["id_width"])
                t.addrs = beat_addrs(addr, t.burst, t.len, t.size)
                if all(lo <= a < lo + rwords*B for a in t.addrs) and (addr % 4096) + (t.len + 1)*nbytes <= 4096:
                    t.addr  = addr + cfg["base"]
                    t.words = [a//B for a in t.addrs]
                    t.lanes = [active_lanes(a, t.size, B) for a in t.addrs]
                    return t
        nw = prng.randrange(cfg["wr_per_round"][0], cfg["wr_per_round"][1] + 1)
        nr = prng.randrange(cfg["rd_per_round"][0], cfg["rd_per_round"][1] + 1)
        for _ in range(nr):
            t = gen(prng.choice([r for r in range(nregions) if r != wregion]), False)
            t.exp = [ref[w] for w in t.words]
            t.index = len(reads)
            reads.append(t)
        for _ in range(nw):
            t = gen(wregion, True)
            t.data = [prng.randrange(1 << cfg["data_width"]) for _ in t.words]
            mode   = cfg["strobes"]
            if mode == "full":
                t.strb = list(t.lanes)
            elif mode == "random":
                t.strb = [l & prng.randrange(1 << B) if prng.randrange(4) else l for l in t.lanes]
            else: # "rmw_safe": partial beats first, then full beats (see notes: W must not run ahead of AW).
                npart  = prng.randrange(0, len(t.words) + 1)
                t.strb = []
                for i, l in enumerate(t.lanes):
                    s = l
                    if i < npart:
                        s = l & prng.randrange(full)        # never the full word
                    elif l != full:
                        s = l                               # narrow beat: partial anyway
                    t.strb.append(s)
            t.partial = any(s != full for s in t.strb)
            for w, d, s in zip(t.words, t.data, t.strb):
                m = lanes_to_mask(s, B)
                ref[w] = (ref[w] & ~m) | (d & m)
            t.index = len(writes)
            writes.append(t)
    return writes, reads, ref

# Simulation ----------------------------------------------------------------------------------------

class Harness:
    def __init__(self, cfg):
        self.cfg  = cfg
        self.prng = random.Random(cfg["seed"])
        init_prng = random.Random(cfg["seed"] + 1000)
        cfg["init"] = [init_prng.randrange(1 << cfg["data_width"]) for _ in range(cfg["mem_words"])]
        self.writes, self.reads, self.ref = make_traffic(self.prng, cfg)
        self.mem    = list(cfg["init"])
        self.errors = []
        self.cycle  = 0
        self.b_count = 0          # write responses received
        self.r_count = 0          # read bursts completed
        self.wdata_count = 0      # write data beats handed to the native port
        self.axi  = LiteDRAMAXIPort(data_width=cfg["data_width"], address_width=32, id_width=cfg["id_width"])
        self.port = LiteDRAMNativePort("both", 24, cfg["data_width"])
        self.dut  = LiteDRAMAXI2Native(self.axi, self.port,
            w_buffer_depth         = cfg["w_depth"],
            r_buffer_depth         = cfg["r_depth"],
            base_address           = cfg["base"],
            with_read_modify_write = cfg["rmw"])
        self.done = False

    def err(self, msg):
        if len(self.errors) < 10:
            self.errors.append("cycle %d: %s" % (self.cycle, msg))

    def stall(self, prng, key):
        return prng.randrange(100) < self.cfg[key]

    def round_open(self, rnd):
        nw = sum(1 for t in self.writes if t.round < rnd)
        nr = sum(1 for t in self.reads  if t.round < rnd)
        return self.b_count >= nw and self.r_count >= nr

    # AXI master -----------------------------------------------------------------------------------
    @passive
    def aw_gen(self):
        prng, ch = random.Random(self.cfg["seed"] + 1), self.axi.aw
        for t in self.writes:
            while not self.round_open(t.round) or self.stall(prng, "aw_stall"):
                yield
            yield ch.addr.eq(t.addr); yield ch.burst.eq(t.burst); yield ch.len.eq(t.len)
            yield ch.size.eq(t.size); yield ch.id.eq(t.id);       yield ch.valid.eq(1)
            yield
            while not (yield ch.ready):
                yield
            t.aw_cycle = self.cycle
            yield ch.valid.eq(0)

    @passive
    def w_gen(self):
        prng, ch = random.Random(self.cfg["seed"] + 2), self.axi.w
        for t in self.writes:
            while not self.round_open(t.round):
                yield
            if self.cfg["strobes"] == "rmw_safe":
                # Address first, previous bursts finished (documented restriction of the demo traffic).
                while not (hasattr(t, "aw_cycle") and self.cycle >= t.aw_cycle + 4 and self.b_count >= t.index):
                    yield
            for i in range(len(t.data)):
                while self.stall(prng, "w_stall"):
                    yield
                yield ch.data.eq(t.data[i]); yield ch.strb.eq(t.strb[i])
                yield ch.last.eq(i == len(t.data) - 1); yield ch.valid.eq(1)
                yield
                while not (yield ch.ready):
                    yield
                yield ch.valid.eq(0)
            t.w_sent = True

    @passive
    def b_gen(self):
        prng, ch = random.Random(self.cfg["seed"] + 3), self.axi.b
        ready, beats_before = 0, 0
        while True:
            if (yield ch.valid) and ready:
                if self.b_count >= len(self.writes):
                    self.err("unexpected write response")
                else:
                    t = self.writes[self.b_count]
                    if (yield ch.id) != t.id:
                        self.err("B id %d, expected %d" % ((yield ch.id), t.id))
                    if (yield ch.resp) != 0:
                        self.err("B resp not OKAY")
                    if not getattr(t, "w_sent", False):
                        self.err("B before the last W beat was accepted")
                    need = sum(len(x.data) for x in self.writes[:self.b_count + 1])
                    if self.wdata_count < need:
                        self.err("B before the data reached the native port (%d < %d)" % (self.wdata_count, need))
                    self.b_count += 1
            ready = 0 if self.stall(prng, "b_stall") else 1
            yield ch.ready.eq(ready)
            yield

    @passive
    def ar_gen(self):
        prng, ch = random.Random(self.cfg["seed"] + 4), self.axi.ar
        for t in self.reads:
            while not self.round_open(t.round) or self.stall(prng, "ar_stall"):
                yield
            yield ch.addr.eq(t.addr); yield ch.burst.eq(t.burst); yield ch.len.eq(t.len)
            yield ch.size.eq(t.size); yield ch.id.eq(t.id);       yield ch.valid.eq(1)
            yield
            while not (yield ch.ready):
                yield
            yield ch.valid.eq(0)

    @passive
    def r_gen(self):
        prng, ch = random.Random(self.cfg["seed"] + 5), self.axi.r
        ready, beat = 0, 0
        B = self.cfg["data_width"]//8
        while True:
            if (yield ch.valid) and ready:
                if self.r_count >= len(self.reads):
                    self.err("unexpected read beat")
                else:
                    t = self.reads[self.r_count]
                    m = lanes_to_mask(t.lanes[beat], B)
                    d = (yield ch.data)
                    if (d & m) != (t.exp[beat] & m):
                        self.err("read %d beat %d data %x, expected %x (mask %x)" % (t.index, beat, d, t.exp[beat], m))
                    if (yield ch.id) != t.id:
                        self.err("read %d beat %d id %d, expected %d" % (t.index, beat, (yield ch.id), t.id))
                    if (yield ch.resp) != 0:
                        self.err("R resp not OKAY")
                    last = int(beat == t.len)
                    if (yield ch.last) != last:
                        self.err("read %d beat %d last %d, expected %d" % (t.index, beat, (yield ch.last), last))
                    beat += 1
                    if last:
                        beat = 0
                        self.r_count += 1
            ready = 0 if self.stall(prng, "r_stall") else 1
            yield ch.ready.eq(ready)
            yield

    # Native port: in-order memory (commands execute in acceptance order; a write executes when its data
    # has been handed over, a read samples the memory after every older write has executed) ----------
    @passive
    def native_gen(self):
        prng, p = random.Random(self.cfg["seed"] + 6), self.port
        B = self.cfg["data_width"]//8
        ops, retq = [], []
        cmd_ready = wready = rvalid = 0
        while True:
            self.cycle += 1
            if (yield p.cmd.valid) and cmd_ready:
                ops.append({"we": (yield p.cmd.we), "addr": (yield p.cmd.addr), "data": None})
            pend = [o for o in ops if o["we"] and o["data"] is None]
            if (yield p.wdata.valid) and not pend:
                self.err("write data offered without an accepted write command")
            if (yield p.wdata.valid) and wready:
                if pend:
                    pend[0]["data"] = ((yield p.wdata.data), (yield p.wdata.we))
                    self.wdata_count += 1
            if rvalid and (yield p.rdata.ready):
                retq.pop(0)
                rvalid = 0
            while ops:
                o = ops[0]
                if o["addr"] >= self.cfg["mem_words"]:
                    self.err("native address %x out of range" % o["addr"])
                    o["addr"] %= self.cfg["mem_words"]
                if o["we"]:
                    if o["data"] is None:
                        break
                    m = lanes_to_mask(o["data"][1], B)
                    self.mem[o["addr"]] = (self.mem[o["addr"]] & ~m) | (o["data"][0] & m)
                else:
                    retq.append(self.mem[o["addr"]])
                ops.pop(0)
            self.ops_left = len(ops) + len(retq)
            cmd_ready = 0 if self.stall(prng, "cmd_stall") else 1
            # As in the controller, write data is requested at least one cycle after its command.
            wready    = 0 if self.stall(prng, "wdata_stall") else 1
            wready   &= int(any(o["we"] and o["data"] is None for o in ops))
            if retq and (rvalid or not self.stall(prng, "rdata_stall")):
                rvalid = 1
                yield p.rdata.data.eq(retq[0])
            yield p.rdata.valid.eq(rvalid)
            yield p.cmd.ready.eq(cmd_ready)
            yield p.wdata.ready.eq(wready)
            yield

    def main_gen(self):
        while self.b_count < len(self.writes) or self.r_count < len(self.reads):
            if self.cycle > self.cfg["max_cycles"]:
                self.err("timeout: %d/%d write responses, %d/%d reads" % (
                    self.b_count, len(self.writes), self.r_count, len(self.reads)))
                return
            yield
        for _ in range(64): # nothing more must come out.
            yield
        if self.ops_left:
            self.err("native operations left pending")
        if (yield self.axi.b.valid) or (yield self.axi.r.valid):
            self.err("spurious response after the end of the traffic")

    def run(self):
        gens = [self.native_gen(), self.aw_gen(), self.w_gen(), self.b_gen(), self.ar_gen(), self.r_gen(), self.main_gen()]
        run_simulation(self.dut, gens)
        if self.mem != self.ref:
            bad = [i for i in range(len(self.mem)) if self.mem[i] != self.ref[i]]
            self.err("memory differs from the reference at words %s" % bad[:8])
        return self.errors

DEFAULTS = dict(data_width=32, id_width=4, mem_words=128, base=0, w_depth=16, r_depth=16, rmw=False, aligned=False,
    rounds=10, wr_per_round=(1, 3), rd_per_round=(0, 3), max_len=20, strobes="random",
    bursts=[BURST_FIXED, BURST_INCR, BURST_INCR, BURST_WRAP], sizes=[0, 1, 2, 2, 2],
    aw_stall=30, w_stall=30, b_stall=30, ar_stall=30, r_stall=30, cmd_stall=30, wdata_stall=30, rdata_stall=30,
    max_cycles=20000, seed=1)

SCENARIOS = [
    ("no stalls, byte strobes",              dict(aw_stall=0, w_stall=0, b_stall=0, ar_stall=0, r_stall=0, cmd_stall=0, wdata_stall=0, rdata_stall=0, seed=11)),
    ("random stalls everywhere",             dict(seed=12)),
    ("slow native write data, B stalled",    dict(wdata_stall=85, b_stall=85, seed=13, rounds=8)),
    ("slow W channel, fast address",         dict(w_stall=85, aw_stall=0, seed=14, rounds=8)),
    ("slow AW channel, data first",          dict(aw_stall=90, w_stall=0, seed=15, rounds=8)),
    ("depth 4/2, base 0x40000000, 64 bit",   dict(w_depth=4, r_depth=2, base=0x40000000, data_width=64, sizes=[0, 1, 2, 3, 3, 3], id_width=8, seed=16)),
    ("single-beat writes, many responses",   dict(max_len=0, bursts=[BURST_INCR], wr_per_round=(6, 12), b_stall=70, seed=17, rounds=6)),
    ("RMW enabled, full-word traffic",       dict(rmw=True, strobes="full", sizes=[2], aligned=True, seed=18)),
    ("RMW, partial strobes, no stalls",      dict(rmw=True, strobes="rmw_safe", aw_stall=0, w_stall=0, b_stall=0, ar_stall=0, r_stall=0, cmd_stall=0, wdata_stall=0, rdata_stall=0, seed=19, max_len=6)),
    ("RMW, partial strobes, random stalls",  dict(rmw=True, strobes="rmw_safe", seed=20, max_len=6)),
    ("RMW, partial, slow native, base 2^28", dict(rmw=True, strobes="rmw_safe", seed=21, max_len=4, base=0x10000000, cmd_stall=70, rdata_stall=70, wdata_stall=70, w_depth=2, r_depth=2, rounds=6)),
]

def main():
    ok = True
    for name, over in SCENARIOS:
        cfg = dict(DEFAULTS); cfg.update(over)
        h = Harness(cfg)
        errors = h.run()
        print("%-40s writes=%3d reads=%3d cycles=%5d : %s" % (name, len(h.writes), len(h.reads), h.cycle, "ok" if not errors else "FAIL"))
        for e in errors:
            print("    " + e)
        ok &= not errors
    print("PASS" if ok else "FAIL")
    sys.exit(0 if ok else 1)

if __name__ == "__main__":
    main()
