#!/usr/bin/env python3
# Self-contained demonstration: full LiteDRAMController (bank machines + multiplexer + refresher) in a plain
# migen simulation; a DFI monitor with a per-rank bank state model checks the observable part of C02 and C04.
# Exits 0 and prints PASS on the unchanged code and with the change applied.
import sys, random
sys.path.insert(0, "/repo")

from migen import *

import litedram
assert litedram.__file__.startswith("/repo/"), litedram.__file__
from litedram.common import PhySettings, GeomSettings, TimingSettings
from litedram.core.controller import ControllerSettings, LiteDRAMController

FOCUS = "refresh requests accounted as owed refreshes"


class Failure(Exception):
    pass


def build(nranks, nphases, postponing, zq_period, trefi=110, trp=3, trfc=9, tzqcs=14, auto_precharge=True):
    phy = PhySettings(phytype="SIM", memtype="DDR3", databits=8, dfi_databits=16, nphases=nphases,
        rdphase=0, wrphase=nphases - 1, cl=4, cwl=3, read_latency=4, write_latency=1, nranks=nranks)
    geom = GeomSettings(bankbits=2, rowbits=13, colbits=10)
    timing = TimingSettings(tRP=trp, tRCD=3, tWR=3, tWTR=2, tREFI=trefi, tRFC=trfc, tFAW=None, tCCD=1,
        tRRD=2, tRC=9, tRAS=6, tZQCS=tzqcs if zq_period else None)
    clk_freq = 1e6
    cs = ControllerSettings(cmd_buffer_depth=4, refresh_postponing=postponing,
        refresh_zqcs_freq=clk_freq/(zq_period or 1000), with_auto_precharge=auto_precharge)
    dut = LiteDRAMController(phy, geom, timing, clk_freq, cs)
    dut.par = dict(nranks=nranks, nphases=nphases, postponing=postponing, zq_period=zq_period, trefi=trefi,
        trp=trp, trfc=trfc, tzqcs=tzqcs, nbanks=4, colsplit=10 - 3)
    return dut


def bank_driver(dut, n, rng, mode, cycles, queues, stats):
    """Native-interface traffic on bank machine n. mode: 'mixed', 'read', 'write', 'idle'."""
    req = getattr(dut.interface, "bank%d" % n)
    split = dut.par["colsplit"]
    rows = [rng.randrange(2**13) for _ in range(3)]
    t = 0
    while t < cycles:
        if mode == "idle":
            yield
            t += 1
            continue
        we = {"read": 0, "write": 1}.get(mode, rng.randrange(2))
        row = rng.choice(rows)
        col = rng.randrange(2**split)
        yield req.valid.eq(1)
        yield req.we.eq(we)
        yield req.addr.eq((row << split) | col)
        yield
        t += 1
        while not (yield req.ready):
            yield
            t += 1
            if t > cycles + 2000:
                raise Failure("bank %d: request never accepted" % n)
        queues[n].append((we, row, col << 3))
        stats["accepted"] += 1
        yield req.valid.eq(0)
        for _ in range(rng.choice([0, 0, 0, 1, 2, 7]) if mode == "mixed" else 0):
            yield
            t += 1
    yield req.valid.eq(0)


def monitor(dut, cycles, queues, log):
    p = dut.par
    nranks, nphases, nbanks = p["nranks"], p["nphases"], p["nbanks"]
    rdphase, wrphase = 0, nphases - 1
    open_row = [[None]*nbanks for _ in range(nranks)]
    last_cmd = [None]*nranks        # (name, cycle) of the last non-NOP command seen by the rank
    busy_until = [0]*nranks        # tRFC / tZQCS window: no command before this cycle
    for cycle in range(cycles):
        for ph, phase in enumerate(dut.dfi.phases):
            cs_n  = (yield phase.cs_n)
            ras   = not (yield phase.ras_n)
            cas   = not (yield phase.cas_n)
            we    = not (yield phase.we_n)
            a     = (yield phase.address)
            ba    = (yield phase.bank)
            rd_en = (yield phase.rddata_en)
            wr_en = (yield phase.wrdata_en)
            name = {(0, 0, 0): None, (1, 0, 0): "ACT", (1, 0, 1): "PRE", (1, 1, 0): "REF",
                    (0, 1, 0): "RD", (0, 1, 1): "WR", (0, 0, 1): "ZQC", (1, 1, 1): "MRS"}[(ras, cas, we)]
            sel = [r for r in range(nranks) if not (cs_n >> r) & 1]
            if rd_en != (name == "RD") or wr_en != (name == "WR"):
                raise Failure("cycle %d: data enable strobes do not match the command %s" % (cycle, name))
            if name is None:
                continue
            if not sel:
                raise Failure("cycle %d: command %s without a chip select" % (cycle, name))
            if name == "MRS":
                raise Failure("cycle %d: mode register set during operation" % cycle)
            if name == "RD" and ph != rdphase or name == "WR" and ph != wrphase:
                raise Failure("cycle %d: %s on phase %d" % (cycle, name, ph))
            if name in ("REF", "ZQC") and len(sel) != nranks:
                raise Failure("cycle %d: %s does not select all ranks" % (cycle, name))
            if name in ("ACT", "RD", "WR") and len(sel) != 1:
                raise Failure("cycle %d: %s selects %d ranks" % (cycle, name, len(sel)))
            for r in sel:
                if cycle < busy_until[r]:
                    raise Failure("cycle %d: %s inside the tRFC/tZQCS window of rank %d" % (cycle, name, r))
                banks = open_row[r]
                if name == "ACT":
                    if banks[ba] is not None:
                        raise Failure("cycle %d: ACT on open bank %d.%d" % (cycle, r, ba))
                    banks[ba] = a
                elif name in ("RD", "WR"):
                    if banks[ba] is None:
                        raise Failure("cycle %d: %s on closed bank %d.%d" % (cycle, name, r, ba))
                    q = queues[r*nbanks + ba]
                    if not q:
                        raise Failure("cycle %d: %s nobody asked for" % (cycle, name))
                    we_q, row_q, col_q = q.pop(0)
                    if we_q != (name == "WR") or row_q != banks[ba] or col_q != (a & ~(1 << 10)):
                        raise Failure("cycle %d: %s row %x col %x on bank %d.%d does not match request %r" % (
                            cycle, name, banks[ba], a, r, ba, (we_q, row_q, col_q)))
                    if a & (1 << 10):
                        banks[ba] = None
                    log["rw"].append(cycle)
                elif name == "PRE":
                    if a & (1 << 10):
                        banks[:] = [None]*nbanks
                    else:
                        banks[ba] = None
                elif name in ("REF", "ZQC"):
                    if any(b is not None for b in banks):
                        raise Failure("cycle %d: %s with an open bank in rank %d" % (cycle, name, r))
                    if name == "REF":
                        pname, pcycle, pall = last_cmd[r] or (None, None, None)
                        if pname != "PRE" or not pall:
                            raise Failure("cycle %d: REF not preceded by a precharge-all (%s)" % (cycle, pname))
                        if cycle - pcycle < p["trp"]:
                            raise Failure("cycle %d: REF %d cycles after precharge-all" % (cycle, cycle - pcycle))
                        busy_until[r] = cycle + p["trfc"]
                        if r == 0:
                            log["ref"].append(cycle)
                    else:
                        if a & (1 << 10):
                            raise Failure("cycle %d: ZQ calibration long instead of short" % cycle)
                        busy_until[r] = cycle + p["tzqcs"]
                        if r == 0:
                            log["zqc"].append(cycle)
                last_cmd[r] = (name, cycle, bool(a & (1 << 10)))
        yield


def scenario(title, cycles, modes, seed, **kw):
    dut = build(**kw)
    p = dut.par
    rng = random.Random(seed)
    n = p["nranks"]*p["nbanks"]
    queues = [[] for _ in range(n)]
    stats = {"accepted": 0}
    log = {"ref": [], "zqc": [], "rw": []}
    gens = [bank_driver(dut, i, random.Random(rng.random()), modes[i % len(modes)], cycles, queues, stats)
            for i in range(n)]
    gens.append(monitor(dut, cycles, queues, log))
    run_simulation(dut, gens)
    # C04: k-th refresh no later than (k + postponing) tREFI plus a fixed service latency.
    N, trefi = p["postponing"], p["trefi"]
    latency = 64 + N*(p["trp"] + p["trfc"] + 4)
    refs = log["ref"]
    expected = (cycles - latency)//trefi - N
    if len(refs) < expected:
        raise Failure("%s: only %d refreshes in %d cycles" % (title, len(refs), cycles))
    for k, c in enumerate(refs, start=1):
        if c > (k + N)*trefi + latency:
            raise Failure("%s: refresh %d at cycle %d is late" % (title, k, c))
    # Traffic resumes after every maintenance window.
    active = any(m != "idle" for m in modes)
    if active:
        if not any(c > refs[-1] for c in log["rw"]) and cycles - refs[-1] > 100:
            raise Failure("%s: no traffic after the last refresh" % title)
        if stats["accepted"] < cycles//40:
            raise Failure("%s: traffic starved (%d requests)" % (title, stats["accepted"]))
    # ZQ calibration recurs at its period (served with the first refresh after the period elapsed).
    if p["zq_period"]:
        zq = log["zqc"]
        bound = p["zq_period"] + N*trefi + latency + p["tzqcs"]
        for a, b in zip([0] + zq, zq + [cycles]):
            if b - a > bound:
                raise Failure("%s: no ZQ calibration between cycles %d and %d" % (title, a, b))
    elif log["zqc"]:
        raise Failure("%s: unexpected ZQ calibration" % title)
    print("  %-46s refreshes=%3d zqcs=%2d reads/writes=%5d" % (title, len(refs), len(log["zqc"]), len(log["rw"])))


def standalone(title, cycles, postponing, seed, max_stall):
    """Refresher alone behind a stub of the multiplexer that grants the bus after a random delay."""
    from litedram.core.refresher import Refresher
    class Obj: pass
    settings = Obj()
    settings.with_refresh = True
    settings.timing = Obj()
    settings.timing.tREFI, settings.timing.tRP, settings.timing.tRFC, settings.timing.tZQCS = 100, 2, 7, 11
    settings.geom = Obj()
    settings.geom.addressbits, settings.geom.bankbits = 14, 3
    settings.phy = Obj()
    settings.phy.nranks = 2
    zq_period = 1500
    dut = Refresher(settings, clk_freq=1e6, zqcs_freq=1e6/zq_period, postponing=postponing)
    rng = random.Random(seed)
    refs, zqcs = [], []

    def stub():
        granted, stall, last_cmd = False, 0, None
        for cycle in range(cycles):
            valid = (yield dut.cmd.valid)
            last  = (yield dut.cmd.last)
            if granted and valid:
                cmd = ((yield dut.cmd.ras), (yield dut.cmd.cas), (yield dut.cmd.we))
                a10 = ((yield dut.cmd.a) >> 10) & 1
                if cmd == (1, 0, 1):
                    if not a10:
                        raise Failure("%s: cycle %d: precharge of a single bank" % (title, cycle))
                    last_cmd = ("PRE", cycle)
                elif cmd == (1, 1, 0):
                    if last_cmd is None or last_cmd[0] != "PRE" or cycle - last_cmd[1] < 2:
                        raise Failure("%s: cycle %d: REF not preceded by precharge-all + tRP" % (title, cycle))
                    refs.append(cycle)
                    last_cmd = ("REF", cycle)
                elif cmd == (0, 0, 1):
                    if a10 or last_cmd is None or last_cmd[0] != "PRE" or cycle - last_cmd[1] < 2:
                        raise Failure("%s: cycle %d: bad ZQCS" % (title, cycle))
                    zqcs.append(cycle)
                    last_cmd = ("ZQC", cycle)
                elif cmd != (0, 0, 0):
                    raise Failure("%s: cycle %d: unexpected command %r" % (title, cycle, cmd))
            # Multiplexer stub: grant after a random stall, release on last.
            if granted:
                if last:
                    granted = False
                    yield dut.cmd.ready.eq(0)
            elif valid:
                if stall == 0:
                    stall = 1 + rng.randrange(max_stall)
                stall -= 1
                if stall == 0:
                    granted = True
                    last_cmd = None
                    yield dut.cmd.ready.eq(1)
            yield

    run_simulation(dut, [stub()])
    N, trefi = postponing, 100
    latency = max_stall + 8 + N*(2 + 7 + 4)
    if len(refs) < (cycles - latency)//trefi - N:
        raise Failure("%s: only %d refreshes in %d cycles" % (title, len(refs), cycles))
    for k, c in enumerate(refs, start=1):
        if c > (k + N)*trefi + latency:
            raise Failure("%s: refresh %d at cycle %d is late" % (title, k, c))
    for a, b in zip(refs, refs[1:]):
        if b - a < 7:
            raise Failure("%s: refreshes %d cycles apart (tRFC)" % (title, b - a))
    for a, b in zip([0] + zqcs, zqcs + [cycles]):
        if b - a > zq_period + N*trefi + latency + 11 + 2:
            raise Failure("%s: no ZQ calibration between cycles %d and %d" % (title, a, b))
    print("  %-46s refreshes=%3d zqcs=%2d" % (title, len(refs), len(zqcs)))


def main():
    for postponing, max_stall in [(1, 60), (3, 40), (8, 90)]:
        standalone("refresher alone, postponing %d, stalls < %d" % (postponing, max_stall), 5000, postponing,
            10 + postponing, max_stall)
    print("demo (%s)" % FOCUS)
    scenario("2 ranks, 2 phases, postponing 1, ZQCS, mixed", 2000, ["mixed"], 1,
        nranks=2, nphases=2, postponing=1, zq_period=700)
    scenario("1 rank, 4 phases, postponing 4, saturating", 2300, ["mixed", "write", "read", "mixed"], 2,
        nranks=1, nphases=4, postponing=4, zq_period=None)
    scenario("1 rank, 1 phase, postponing 2, ZQCS, one bank", 1500, ["write", "idle", "idle", "idle"], 3,
        nranks=1, nphases=1, postponing=2, zq_period=500, auto_precharge=False)
    print("PASS")


if __name__ == "__main__":
    try:
        main()
    except Failure as e:
        print("FAIL:", e)
        sys.exit(1)
