#!/usr/bin/env python3
"""demo2: LPDDR4 DFI command -> CS/CA encoding, seen through a JEDEC decoder (C20).

Same harness as demo1, but the traffic concentrates on the commands whose JEDEC encoding contains
"V" bits (READ-1 / WRITE-1 / MASK WRITE-1 2nd edge CA3, PRECHARGE and REFRESH 2nd edge CA[5:3],
MRR-1 1st edge CA5) with every bank/address bit exercised (walking ones + random values), on all
phases, on
  * the PHY core `LPDDR4PHY` (observed on `phy.out.cs/ca`, 8 slots per sys cycle),
  * `LPDDR4SimPHY` and `DoubleRateLPDDR4SimPHY` (observed on the serialized pads).
The CS/CA stream is decoded the way a DRAM does it: the operation is selected by the JEDEC command
code bits, the operands are taken from their JEDEC positions, "V" positions (valid level, but not
part of the command) are not looked at. Operation, bank, row/column, AP/AB, MR address/operand,
relative slot of every command and absence of any other CS activity are compared with what was
given on DFI; only the constant latency of the command path is inferred.

Works on the unmodified tree and with patch2 applied. Run: cd /repo && /venv/bin/python _out/demo2.py
"""
import sys
import dis
import random

sys.path.insert(0, "/repo")

# Environment shims (Python 3.12 vs migen name tracer, LiteX CSR strobe name) ----------------------

def install_env_shims():
    from litex.soc.interconnect.csr import CSR
    if not hasattr(CSR, "wr_stb"):
        CSR.wr_stb = property(lambda self: self.re)
    if sys.version_info < (3, 11):
        return
    import migen.fhdl.tracer as tracer
    cache = {}
    stores = ("STORE_NAME", "STORE_ATTR", "STORE_FAST", "STORE_DEREF", "STORE_GLOBAL")
    skips  = ("LOAD_GLOBAL", "LOAD_ATTR", "LOAD_FAST", "LOAD_FAST_CHECK", "LOAD_DEREF", "LOAD_NAME",
              "COPY", "SWAP", "BUILD_LIST")
    def get_var_name(frame):
        code = frame.f_code
        if code not in cache:
            instrs = list(dis.get_instructions(code))
            cache[code] = (instrs, {i.offset: n for n, i in enumerate(instrs)})
        instrs, index = cache[code]
        n = index.get(frame.f_lasti)
        if n is None or not instrs[n].opname.startswith("CALL"):
            return None
        for i in instrs[n+1:]:
            if i.opname in stores:
                return i.argval
            if i.opname not in skips:
                return None
        return None
    tracer.get_var_name = get_var_name

install_env_shims()

from migen import *
from migen import run_simulation as migen_run_simulation

import litedram
assert litedram.__file__.startswith("/repo/"), litedram.__file__

from litedram.phy.utils import Latency
from litedram.phy.lpddr4.basephy import LPDDR4PHY
from litedram.phy.lpddr4.simphy import LPDDR4SimPHY, DoubleRateLPDDR4SimPHY
import test.phy_common

# DFI side -----------------------------------------------------------------------------------------

DFI_CMDS = {  # name: (cas_n, ras_n, we_n)
    "NOP": (1, 1, 1), "ACT": (1, 0, 1), "RD":  (0, 1, 1), "WR":  (0, 1, 0),
    "PRE": (1, 0, 0), "REF": (0, 0, 1), "ZQC": (1, 1, 0), "MRS": (0, 0, 0),
}

def dfi(name, bank=0, address=0, cs_n=0):
    cas_n, ras_n, we_n = DFI_CMDS[name]
    return dict(name=name, cs_n=cs_n, cas_n=cas_n, ras_n=ras_n, we_n=we_n, bank=bank, address=address)

def b(v, i):
    return (v >> i) & 1

def expected_operation(c, masked_write):
    """What a DFI command means for the DRAM (None: nothing must be sent, not a command)"""
    if c["cs_n"]:
        return None
    n, bank, a = c["name"], c["bank"], c["address"]
    if n == "ACT": return ("ACT", bank & 7, a & 0x1ffff)
    if n == "RD":  return ("RD", bank & 7, a & 0x3fc, b(a, 10))
    if n == "WR":  return ("MWR" if masked_write else "WR", bank & 7, a & 0x3fc, b(a, 10))
    if n == "PRE": return ("PRE", b(a, 10), bank & 7)
    if n == "REF": return ("REF", b(a, 10), bank & 7)
    if n == "MRS": return ("MRW", bank & 0x3f, a & 0xff)
    if n == "ZQC":
        if bank == 0: return ("MPC", a & 0x7f)
        if bank == 1: return ("MRR", a & 0x3f)
    return None

def expected_stream(sequence, masked_write, extended):
    """[(anchor slot, operation)] for the commands that must reach the DRAM.

    A command occupies slots phase..phase+3 of its cycle (8 slots per cycle), its last "small
    command" (CS high) is on phase+2 = the anchor. A command is dropped when it would overlap a
    previous one, i.e. there was a command (basic check: on DFI, extended check: sent to the
    DRAM) on one of the 3 previous phases.
    """
    ops = {}
    for cyc, cmds in enumerate(sequence):
        for phase, c in cmds.items():
            op = expected_operation(c, masked_write)
            if op is not None:
                ops[8*cyc + phase] = op
    sent = {}
    for g in sorted(ops):
        blockers = sent if extended else ops
        if not any((g - d) in blockers for d in (1, 2, 3)):
            sent[g] = ops[g]
    return [(g + 2, op) for g, op in sorted(sent.items())]

# DRAM side: independent JEDEC LPDDR4 decoder ------------------------------------------------------

def decode_small(e1, e2):
    """Decode one 2-slot command from CA[5:0] on CS=H (e1) and the following CS=L slot (e2)"""
    if b(e1, 0):  # ACTIVATE-1/2
        if b(e1, 1) == 0:
            return ("ACT-1", dict(ba=e2 & 7, r12_15=(e1 >> 2) & 0xf, r16=b(e2, 3), r10=b(e2, 4), r11=b(e2, 5)))
        return ("ACT-2", dict(r6_9=(e1 >> 2) & 0xf, r0_5=e2))
    code = tuple(b(e1, i) for i in range(5))
    table = {
        (0, 1, 1, 0, 0): ("MRW-1", dict(op7=b(e1, 5), ma=e2)),
        (0, 1, 1, 0, 1): ("MRW-2", dict(op6=b(e1, 5), op0_5=e2)),
        (0, 1, 1, 1, 0): ("MRR-1", dict(ma=e2)),                              # CA5: V
        (0, 0, 0, 1, 0): ("REF",   dict(ab=b(e1, 5), ba=e2 & 7)),             # 2nd CA3-5: V
        (0, 0, 1, 0, 0): ("WR-1",  dict(ba=e2 & 7, c9=b(e2, 4), ap=b(e2, 5))),  # 2nd CA3: V
        (0, 0, 1, 1, 0): ("MWR-1", dict(ba=e2 & 7, c9=b(e2, 4), ap=b(e2, 5))),
        (0, 1, 0, 0, 0): ("RD-1",  dict(ba=e2 & 7, c9=b(e2, 4), ap=b(e2, 5))),
        (0, 1, 0, 0, 1): ("CAS-2", dict(c8=b(e1, 5), c2_7=e2)),
        (0, 0, 0, 0, 1): ("PRE",   dict(ab=b(e1, 5), ba=e2 & 7)),             # 2nd CA3-5: V
        (0, 0, 0, 0, 0): ("MPC",   dict(op=e2 | (b(e1, 5) << 6))),
    }
    assert code in table, f"not an LPDDR4 command: CA={e1:06b}"
    return table[code]

def decode_stream(cs, ca):
    """CS/CA per slot -> [(anchor slot, operation)]"""
    smalls = []
    s = 0
    while s < len(cs) - 1:
        if cs[s]:
            assert cs[s+1] == 0, f"CS high on two consecutive slots at {s}"
            smalls.append((s, *decode_small(ca[s], ca[s+1])))
            s += 2
        else:
            s += 1
    second = {"ACT-1": "ACT-2", "MRW-1": "MRW-2", "RD-1": "CAS-2", "WR-1": "CAS-2", "MWR-1": "CAS-2", "MRR-1": "CAS-2"}
    out = []
    i = 0
    while i < len(smalls):
        slot, name, f = smalls[i]
        if name in second:
            assert i + 1 < len(smalls), f"{name} at slot {slot} not completed"
            slot2, name2, f2 = smalls[i+1]
            assert name2 == second[name] and slot2 == slot + 2, f"{name}@{slot} followed by {name2}@{slot2}"
            i += 2
            if name == "ACT-1":
                row = f2["r0_5"] | f2["r6_9"] << 6 | f["r10"] << 10 | f["r11"] << 11 | f["r12_15"] << 12 | f["r16"] << 16
                op = ("ACT", f["ba"], row)
            elif name == "MRW-1":
                op = ("MRW", f["ma"], f2["op0_5"] | f2["op6"] << 6 | f["op7"] << 7)
            elif name == "MRR-1":
                op = ("MRR", f["ma"])
            else:
                op = (name[:-2], f["ba"], f2["c2_7"] << 2 | f2["c8"] << 8 | f["c9"] << 9, f["ap"])
            out.append((slot2, op))
        else:
            assert name in ("PRE", "REF", "MPC"), f"unexpected {name} at slot {slot}"
            i += 1
            out.append((slot, (name, *f.values())))
    return out

def compare(name, got, want, slot_multiple):
    assert len(want) > 0
    assert len(got) == len(want), f"{name}: {len(got)} commands on CS/CA, expected {len(want)}\n got={got[:6]}\nwant={want[:6]}"
    offset = got[0][0] - want[0][0]
    assert offset % slot_multiple == 0, f"{name}: command path latency of {offset} slots shifts the DFI phases"
    for (gs, gop), (ws, wop) in zip(got, want):
        assert gop == wop,          f"{name}: slot {gs}: got {gop} expected {wop}"
        assert gs - ws == offset,   f"{name}: {wop} at slot {gs}, expected {ws + offset}"
    return offset

# Stimulus -----------------------------------------------------------------------------------------

def random_command(rng):
    kind = rng.choice(["RD", "WR", "PRE", "REF", "ZQC", "RD", "WR", "PRE", "REF", "ZQC", "ACT", "MRS"])
    address = rng.choice([rng.getrandbits(17), 1 << rng.randrange(17), (1 << 17) - 1 - (1 << rng.randrange(17))])
    bank = rng.choice([rng.getrandbits(6), 1 << rng.randrange(6), 63 - (1 << rng.randrange(6))])
    if kind == "ZQC":
        return dfi("ZQC", bank=rng.choice([0, 1, 1, 1, 2]), address=address)  # MPC, MRR, not a command
    return dfi(kind, bank=bank, address=address)

def random_sequence(rng, ncmds, gaps):
    slots = {}
    g = rng.randrange(8)
    for _ in range(ncmds):
        slots[g] = random_command(rng)
        g += rng.choice(gaps)
    sequence = [{} for _ in range(g // 8 + 1)]
    for g, c in slots.items():
        sequence[g // 8][g % 8] = c
    return sequence

def corner_sequence():
    rd, act, pre, mrw = dfi("RD", 5, 0x7fc), dfi("ACT", 2, 0x1e1e1), dfi("PRE", 3, 1 << 10), dfi("MRS", 0x33, 0xaa)
    return [
        {0: rd, 4: act},                 # back to back
        {0: act, 3: rd},                 # p3 overlaps p0
        {1: pre, 4: rd, 5: mrw},         # p4 overlaps p1, p5 follows a dropped p4 (depends on the check)
        {},
        {6: act},                        # crosses the cycle boundary ...
        {0: rd, 1: pre, 2: mrw},         # ... and blocks p0, p1 of the next cycle
        {},
        {7: mrw},
        {2: pre, 6: dfi("REF", 4, 0)},   # p2 is the first free phase after p7
        {},
        {5: rd},
        {0: act, 4: dfi("ZQC", 0, 0x4f)},  # p0 still inside p5 of the previous cycle
        {},
        {0: rd, 2: act, 4: pre, 6: mrw},   # chain: the extended check lets p4 through, the basic one does not
        {},
    ]

# Simulation ---------------------------------------------------------------------------------------

def dfi_driver(dfi_if, sequence, extra=6):
    for cmds in list(sequence) + [{}]*extra:
        for p, phase in enumerate(dfi_if.phases):
            c = cmds.get(p) or dfi("NOP", cs_n=1)
            for sig in ["cs_n", "cas_n", "ras_n", "we_n", "bank", "address"]:
                yield getattr(phase, sig).eq(c[sig])
        yield

class FakePads:
    def __init__(self):
        self.dq = Signal(16)

def run_core(sequence, masked_write, extended):
    phy = LPDDR4PHY(FakePads(), sys_clk_freq=100e6, phytype="demo", masked_write=masked_write,
        ser_latency=Latency(sys=1), des_latency=Latency(sys=2), extended_overlaps_check=extended)
    cs, ca = [], []
    def monitor():
        for _ in range(len(sequence) + 6):
            cs_w = (yield phy.out.cs)
            ca_w = []
            for bit in range(6):
                ca_w.append((yield phy.out.ca[bit]))
            for slot in range(8):
                cs.append(b(cs_w, slot))
                ca.append(sum(b(ca_w[bit], slot) << bit for bit in range(6)))
            yield
    migen_run_simulation(phy, [dfi_driver(phy.dfi, sequence), monitor()])
    return cs, ca

CLOCKS = {  # as in test/test_lpddr4.py
    "sys": (64, 31), "sys2x": (32, 15), "sys8x": (8, 3), "sys8x_ddr": (4, 1), "sys8x_90": (8, 1), "sys8x_90_ddr": (4, 3),
}

def run_pads(phy, sequence):
    cs, ca = [], []
    def monitor(pads):
        yield
        for _ in range(8*(len(sequence) + 6) - 2):
            cs.append((yield pads.cs))
            ca.append((yield pads.ca))
            yield
    test.phy_common.run_simulation(phy, {
        "sys":      [dfi_driver(phy.dfi, sequence)],
        "sys8x_90": [monitor(phy.pads)],
    }, clocks=CLOCKS)
    return cs, ca

def main():
    rng = random.Random(2020)
    total = 0
    # PHY core: corner cases + random traffic, both overlap checks, masked and unmasked writes
    for masked_write in [True, False]:
        for extended in [False, True]:
            cfg = f"core(masked_write={masked_write}, extended={extended})"
            seqs = {"corner": corner_sequence()}
            if not extended:
                seqs["v-bits-dense"]  = random_sequence(rng, 200, gaps=[3, 4, 4, 4, 4, 5, 6, 7, 8, 9, 11])
                seqs["v-bits-sparse"] = random_sequence(rng, 100, gaps=[4, 5, 7, 9, 13, 17])
            for name, seq in seqs.items():
                want = expected_stream(seq, masked_write, extended)
                got = decode_stream(*run_core(seq, masked_write, extended))
                offset = compare(f"{cfg} {name}", got, want, slot_multiple=8)
                total += len(want)
                print(f"{cfg:48s} {name:14s} {len(want):3d} commands ok, latency {offset//8} sys cycles")
    # Serialized pads, single- and double-rate PHY
    seq = corner_sequence()[:9] + random_sequence(rng, 24, gaps=[4, 4, 5, 6, 7, 9])
    for name, phy in [
            ("LPDDR4SimPHY",           LPDDR4SimPHY(sys_clk_freq=100e6, masked_write=False)),
            ("DoubleRateLPDDR4SimPHY", DoubleRateLPDDR4SimPHY(sys_clk_freq=100e6, serdes_reset_cnt=-1))]:
        masked_write = name.startswith("Double")
        want = expected_stream(seq, masked_write, extended=False)
        got = decode_stream(*run_pads(phy, seq))
        offset = compare(name, got, want, slot_multiple=1)
        total += len(want)
        print(f"{name:48s} {'pads':14s} {len(want):3d} commands ok, latency {offset} slots")
    print(f"PASS ({total} commands checked)")

if __name__ == "__main__":
    main()
