#!/usr/bin/env python3
# Demo for change 3 (LiteDRAMNativePortCDC: reads in flight tracked with issue/retire counters,
# registered-output (buffered) asynchronous FIFOs for commands and read data).
#
# Checks C08 on LiteDRAMNativePortCDC directly: the far ("native") side is driven by a model of
# what the crossbar does with a port: commands are executed strictly in order, write data is
# pulled blindly (wdata.ready pulsed `write latency` cycles after the command, data sampled
# whatever wdata.valid is), read data is returned without back-pressure (rdata.ready ignored; a
# word presented while ready=0 is lost). Only values at valid&ready handshakes are looked at.
#
# Exits 0 / prints PASS when: the far side saw exactly the user's commands in the user's order,
# the user got exactly the read words a sequential memory would return (once, in order), the
# final memory equals the reference memory, no write word was missing and no read word dropped.

import sys
import time
import random

sys.path.insert(0, "/repo")

from migen import *

import litedram
assert litedram.__file__.startswith("/repo/"), litedram.__file__

from litedram.common import LiteDRAMNativePort
from litedram.frontend.adapter import LiteDRAMNativePortCDC

AW = 24
DW = 32

# Far side model -----------------------------------------------------------------------------------

class BlindCore:
    def __init__(self, port, seed, wlat=3, rlat=5, stall=30):
        self.port   = port
        self.prng   = random.Random(seed)
        self.wlat   = wlat
        self.rlat   = rlat
        self.stall  = stall
        self.mem    = {}
        self.cmds   = []  # (we, addr) in order of acceptance
        self.errors = []
        self.nrdata = 0

    @passive
    def handler(self):
        port  = self.port
        queue = []      # [we, addr, earliest cycle]
        cmd_ready_d   = 0
        wdata_ready_d = None  # address of the write whose data is pulled in this cycle
        rdata_valid_d = 0
        now = 0
        while True:
            # What happened on the edge that just passed.
            if cmd_ready_d and (yield port.cmd.valid):
                we   = (yield port.cmd.we)
                addr = (yield port.cmd.addr)
                self.cmds.append((we, addr))
                lat = (self.wlat if we else self.rlat) + self.prng.randrange(3)
                queue.append([we, addr, now + lat])
            if wdata_ready_d is not None:
                if not (yield port.wdata.valid):
                    self.errors.append("cycle %d: write data pulled but none available" % now)
                else:
                    data = (yield port.wdata.data)
                    we   = (yield port.wdata.we)
                    old  = self.mem.get(wdata_ready_d, 0)
                    for b in range(DW//8):
                        if we & (1 << b):
                            old = (old & ~(0xff << 8*b)) | (data & (0xff << 8*b))
                    self.mem[wdata_ready_d] = old
            if rdata_valid_d:
                self.nrdata += 1
                if not (yield port.rdata.ready):
                    self.errors.append("cycle %d: read word presented while rdata.ready=0 (lost)" % now)
            # What to drive until the next edge.
            wdata_ready_d = None
            rdata_valid_d = 0
            if queue and queue[0][2] <= now:
                we, addr, _ = queue.pop(0)
                if we:
                    wdata_ready_d = addr
                else:
                    rdata_valid_d = 1
                    yield port.rdata.data.eq(self.mem.get(addr, 0))
            cmd_ready_d = int(len(queue) < 48 and self.prng.randrange(100) >= self.stall)
            yield port.cmd.ready.eq(cmd_ready_d)
            yield port.wdata.ready.eq(int(wdata_ready_d is not None))
            yield port.rdata.valid.eq(rdata_valid_d)
            if not rdata_valid_d:
                # legal garbage on the idle bus
                yield port.rdata.data.eq(self.prng.getrandbits(DW))
            now += 1
            yield

# User side ----------------------------------------------------------------------------------------

class User:
    """ops: list of ("w", addr, data, we) / ("r", addr). Write data is offered before its command."""
    def __init__(self, port, ops, seed, gap=20, rstall=lambda cycle, prng: prng.randrange(100) < 30):
        self.port    = port
        self.ops     = ops
        self.prng    = random.Random(seed)
        self.gap     = gap
        self.rstall  = rstall
        self.wsent   = 0
        self.rdata   = []
        self.nreads  = sum(1 for op in ops if op[0] == "r")
        self.cmd_done = False

    def cmd_gen(self):
        port = self.port
        nw = 0
        for op in self.ops:
            while self.prng.randrange(100) < self.gap:
                yield
            if op[0] == "w":
                nw += 1
                while self.wsent < nw:  # data first, then the command
                    yield
            yield port.cmd.valid.eq(1)
            yield port.cmd.we.eq(int(op[0] == "w"))
            yield port.cmd.addr.eq(op[1])
            yield
            while not (yield port.cmd.ready):
                yield
            yield port.cmd.valid.eq(0)
            # legal garbage while idle
            yield port.cmd.we.eq(self.prng.getrandbits(1))
            yield port.cmd.addr.eq(self.prng.getrandbits(AW))
        self.cmd_done = True
        while len(self.rdata) < self.nreads:
            yield
        for _ in range(400):  # let the last writes drain
            yield

    @passive
    def wdata_gen(self):
        port = self.port
        for op in self.ops:
            if op[0] != "w":
                continue
            while self.prng.randrange(100) < self.gap//2:
                yield
            yield port.wdata.valid.eq(1)
            yield port.wdata.data.eq(op[2])
            yield port.wdata.we.eq(op[3])
            yield
            while not (yield port.wdata.ready):
                yield
            self.wsent += 1
            yield port.wdata.valid.eq(0)
            yield port.wdata.data.eq(self.prng.getrandbits(DW))
            yield port.wdata.we.eq(self.prng.getrandbits(DW//8))
        while True:
            yield

    @passive
    def rdata_gen(self):
        port = self.port
        ready_d = 0
        cycle = 0
        while True:
            if ready_d and (yield port.rdata.valid):
                self.rdata.append((yield port.rdata.data))
            ready_d = int(not self.rstall(cycle, self.prng))
            yield port.rdata.ready.eq(ready_d)
            cycle += 1
            yield

@passive
def timeout(n):
    for _ in range(n):
        yield
    raise TimeoutError("simulation did not finish in %d cycles" % n)

# Reference ----------------------------------------------------------------------------------------

def reference(ops):
    mem, rdata = {}, []
    for op in ops:
        if op[0] == "w":
            _, addr, data, we = op
            old = mem.get(addr, 0)
            for b in range(DW//8):
                if we & (1 << b):
                    old = (old & ~(0xff << 8*b)) | (data & (0xff << 8*b))
            mem[addr] = old
        else:
            rdata.append(mem.get(op[1], 0))
    return mem, rdata

def make_ops(seed, n, naddr=12, pw=50):
    prng  = random.Random(seed)
    addrs = [prng.getrandbits(AW) for _ in range(naddr)]
    ops   = []
    for _ in range(n):
        if prng.randrange(100) < pw:
            we = prng.choice([0xf, 0xf, 0xf, 0x3, 0xc, 0x5, 0x1])
            ops.append(("w", prng.choice(addrs), prng.getrandbits(DW), we))
        else:
            ops.append(("r", prng.choice(addrs)))
    return ops

# Scenario runner ----------------------------------------------------------------------------------

class DUT(Module):
    def __init__(self, mode, **cdc_kwargs):
        self.user_port = LiteDRAMNativePort(mode, AW, DW, clock_domain="user")
        self.core_port = LiteDRAMNativePort(mode, AW, DW, clock_domain="native")
        self.submodules.cdc = LiteDRAMNativePortCDC(self.user_port, self.core_port, **cdc_kwargs)

def run(name, clocks, ops, mode="both", seed=1, core_kwargs={}, user_kwargs={}, cdc_kwargs={}):
    dut  = DUT(mode, **cdc_kwargs)
    core = BlindCore(dut.core_port, seed, **core_kwargs)
    user = User(dut.user_port, ops, seed + 1, **user_kwargs)
    tmo  = 120000 // min(c if isinstance(c, int) else c[0] for c in clocks.values())
    generators = {
        "user":   [user.cmd_gen(), user.wdata_gen(), user.rdata_gen(), timeout(tmo)],
        "native": [core.handler()],
    }
    timed_out = False
    t0 = time.time()
    try:
        run_simulation(dut, generators, clocks)
    except TimeoutError:
        timed_out = True
    ref_mem, ref_rdata = reference(ops)
    exp_cmds = [(int(op[0] == "w"), op[1]) for op in ops]
    problems = list(core.errors)
    if timed_out:
        problems.append("timeout (words or commands lost?)")
    if core.cmds != exp_cmds:
        problems.append("commands seen by the far side differ from the commands issued")
    if user.rdata != ref_rdata:
        problems.append("read data differs: got %d words, expected %d" % (len(user.rdata), len(ref_rdata)))
    if core.mem != ref_mem:
        problems.append("final memory differs")
    print("%-60s %5.1fs  %s" % (name, time.time() - t0, "ok" if not problems else "FAIL: " + "; ".join(problems[:3])))
    return not problems

def main():
    ok = True
    stall_long = lambda period, busy: (lambda c, p: (c % period) < busy)
    # Read pipelining against every read-data FIFO depth: the consumer stalls for long periods, the far side
    # answers as fast as it can (no stall, minimal latency) and never looks at rdata.ready.
    for n, (depth, clocks) in enumerate([
        (4,  {"user": 3,       "native": 20}),
        (4,  {"user": 20,      "native": 3}),
        (8,  {"user": (10, 4), "native": 10}),
        (16, {"user": 5,       "native": (13, 2)}),
        (16, {"user": 13,      "native": 5}),
        (32, {"user": 4,       "native": 9}),
    ]):
        period = (40 if clocks["native"] != 3 and clocks["native"] != 5 else 8)*depth
        ok &= run("reads, rdata_depth=%d, clocks %s" % (depth, clocks), clocks,
            make_ops(20 + n, 3*depth + 16, pw=8), seed=20 + n,
            cdc_kwargs=dict(rdata_depth=depth),
            user_kwargs=dict(gap=0, rstall=stall_long(period, period - 2*depth)),
            core_kwargs=dict(stall=0, rlat=1, wlat=1))
    # Mixed traffic on few addresses (read-after-write / write-after-read ordering), all clock relations.
    clockings = {
        "same period, in phase":     {"user": 10,      "native": 10},
        "same period, out of phase": {"user": (10, 7), "native": (10, 2)},
        "user faster 4/15":          {"user": 4,       "native": (15, 6)},
        "user slower 19/6":          {"user": 19,      "native": 6},
        "drifting 10/11":            {"user": 11,      "native": 10},
    }
    for i, (name, clocks) in enumerate(clockings.items()):
        ok &= run("mixed r/w on 4 addresses, " + name, clocks, make_ops(40 + i, 50, naddr=4), seed=40 + i,
            core_kwargs=dict(stall=[0, 50, 20, 70, 30][i], wlat=1 + i % 3, rlat=1 + i))
    # Exhausted read credits must not hold back writes for ever / reorder them around reads.
    ok &= run("reads then writes behind a stalled consumer", {"user": 6, "native": 10},
        [("r", a) for a in range(40)] + [("w", a, 0x1000 + a, 0xf) for a in range(20)] + [("r", a) for a in range(20)],
        seed=50, user_kwargs=dict(gap=0, rstall=stall_long(2000, 900)), core_kwargs=dict(stall=10))
    # Read-only port (commands are reads whatever cmd.we says there is no write data channel to follow).
    ok &= run("read-only port, small FIFOs", {"user": 7, "native": (9, 1)},
        make_ops(51, 60, pw=0), mode="read", seed=51, cdc_kwargs=dict(cmd_depth=4, rdata_depth=4),
        user_kwargs=dict(gap=5, rstall=stall_long(150, 100)))
    print("PASS" if ok else "FAIL")
    sys.exit(0 if ok else 1)

if __name__ == "__main__":
    main()
