#!/usr/bin/env python3
# demo1: C16, refresh part - "the refresh interval handed to the controller is not longer than the
# datasheet refresh interval" - for the whole module library, the SPD images, and (cycle level) for
# the real Refresher driven with the interval a module hands over.
# Passes on the unchanged code and with patch1 applied.
import os, sys, csv, inspect
from fractions import Fraction

sys.path.insert(0, "/repo")

from migen import *

import litedram
assert litedram.__file__.startswith("/repo/"), litedram.__file__
import litedram.modules as M
from litedram.modules import SDRAMModule
from litedram.core.refresher import Refresher

errors = []
checked = 0

def module_classes():
    for name, cls in sorted(vars(M).items()):
        if inspect.isclass(cls) and issubclass(cls, SDRAMModule) and \
           all(hasattr(cls, a) for a in ("memtype", "nbanks", "nrows", "ncols")):
            yield name, cls

def datasheet_trefi_ns(cls, frm):
    t = cls.technology_timings.tREFI
    if isinstance(t, dict):
        t = t[frm]
    if isinstance(t, tuple):
        t = t[1]
    return Fraction(t)

def check(tag, module, trefi_ns):
    global checked
    checked += 1
    period = Fraction(10**9)/Fraction(module.clk_freq)
    cycles = module.timing_settings.tREFI
    if not isinstance(cycles, int) or cycles < 0:
        errors.append(f"{tag}: tREFI={cycles!r} is not a cycle count")
    elif cycles*period > trefi_ns:
        errors.append(f"{tag}: {cycles} cycles = {float(cycles*period)} ns > datasheet {float(trefi_ns)} ns")
    elif trefi_ns >= 100*period and cycles*period < trefi_ns*Fraction(9, 10):
        # sanity only: the controller is not made to refresh absurdly often either
        errors.append(f"{tag}: {cycles} cycles is less than 90% of the datasheet interval")

freqs = [10e6, 12.5e6, 33.333e6, 50e6, 66.6e6, 75e6, 83.3333e6, 100e6, 111.1e6, 125e6, 133.33e6,
         150e6, 166.666e6, 200e6, 225e6, 250e6, 300e6, 333.3e6, 400e6]

# 1. whole library ------------------------------------------------------------------------------
for name, cls in module_classes():
    frms = ["1x", "2x", "4x"] if cls.memtype == "DDR4" else [None]
    for sg in cls.speedgrade_timings:
        for rate in ["1:1", "1:2", "1:4"]:
            for f in freqs:
                for frm in frms:
                    m = cls(clk_freq=f, rate=rate, speedgrade=None if sg == "default" else sg,
                            fine_refresh_mode=frm)
                    check(f"{name}/{sg}/{rate}/{f}/{frm}", m, datasheet_trefi_ns(cls, frm or "1x"))

# 2. SPD images -----------------------------------------------------------------------------------
def load_spd(path):
    data = [0]*512
    with open(path) as fd:
        for row in csv.DictReader(fd):
            if len(row["Byte Number"].split("-")) == 1:
                data[int(row["Byte Number"])] = int(row["Byte Value"], 16)
    return data

spd_dir = "/repo/test/spd_data"
for fn in sorted(os.listdir(spd_dir)):
    data = load_spd(os.path.join(spd_dir, fn))
    ddr4 = data[2] == 0x0c
    for f in freqs:
        for frm in (["1x", "2x", "4x"] if ddr4 else [None]):
            m = SDRAMModule.from_spd_data(data, f, fine_refresh_mode=frm)
            # JEDEC: 64 ms / 8192 rows at normal temperature, divided by the fine-refresh factor
            ref = Fraction(64*10**6, 8192)/{None: 1, "1x": 1, "2x": 2, "4x": 4}[frm]
            check(f"SPD:{fn}/{f}/{frm}", m, ref)

# 3. cycle level: real Refresher fed with the interval of a module ----------------------------------
def refresher_gaps(module, postponing, n=6):
    class Obj: pass
    s = Obj(); s.with_refresh = True; s.refresh_zqcs_freq = 1e0
    s.timing = module.timing_settings
    s.geom = module.geom_settings
    s.phy = Obj(); s.phy.nranks = 1
    dut = Refresher(s, clk_freq=module.clk_freq, postponing=postponing)
    stamps = []
    def gen():
        yield dut.cmd.ready.eq(1)
        cycle = 0
        while len(stamps) < n*postponing and cycle < 40000:
            if (yield dut.cmd.valid) and (yield dut.cmd.cas) and (yield dut.cmd.ras) and not (yield dut.cmd.we):
                stamps.append(cycle)
            yield
            cycle += 1
    run_simulation(dut, [gen()])
    return stamps

for cls, f, rate, post in [(M.IS42S16160, 50e6, "1:1", 1), (M.MT41K128M16, 100e6, "1:4", 1),
                            (M.MT41K128M16, 83.3333e6, "1:4", 2), (M.MT40A1G8, 125e6, "1:4", 4)]:
    m = cls(clk_freq=f, rate=rate)
    stamps = refresher_gaps(m, post)
    period = Fraction(10**9)/Fraction(f)
    limit = datasheet_trefi_ns(cls, "1x")
    tag = f"sim:{cls.__name__}/{f}/post{post}"
    checked += 1
    if len(stamps) < 6*post:
        errors.append(f"{tag}: only {len(stamps)} refreshes seen")
        continue
    # auto-refresh commands of one batch are counted once (the command is held for a cycle or more)
    starts = [s for i, s in enumerate(stamps) if i == 0 or s != stamps[i-1] + 1]
    nrefs = len(starts)
    span  = (starts[-1] - starts[0])*period
    # long-run average interval between refreshes must not exceed the datasheet interval
    if span > (nrefs - 1)*limit:
        errors.append(f"{tag}: {nrefs} refreshes spread over {float(span)} ns, more than {nrefs-1} x tREFI")
    # and never more than `postponing` intervals without a refresh
    worst = max(b - a for a, b in zip(starts, starts[1:]))*period
    if worst > post*limit:
        errors.append(f"{tag}: {float(worst)} ns without refresh (limit {float(post*limit)} ns)")

print(f"demo1: {checked} checks")
if errors:
    for e in errors[:20]:
        print("FAIL", e)
    print(f"{len(errors)} errors")
    sys.exit(1)
print("PASS")
