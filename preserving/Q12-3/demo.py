#!/venv/bin/python
# Demo 3 (C13, LiteDRAMFIFO, public pins only): the stream leaving the DRAM FIFO is exactly the
# stream that entered it (same words, same order, nothing lost or duplicated), the DRAM region never
# holds more than its depth, is never addressed outside [base, base+depth), no word in DRAM is
# overwritten before it has been read back and no word is read twice / before it was written.
# Scenarios: with/without bypass, data-width ratios 1/2/4, small depths (many pointer wrap-arounds,
# streams many times the depth), producer/consumer rate patterns that force repeated switches
# between bypass and DRAM mode, long consumer stalls, random memory latencies and back-pressure.
#
# Stimulus + memory model in the "sys" domain; read-only monitor on a phase shifted clock ("mon")
# that sees the settled values of each sys cycle, i.e. what the next sys clock edge acts upon.

import sys
sys.path.insert(0, "/repo")

import random

from migen import *

from litedram.common import LiteDRAMNativeWritePort, LiteDRAMNativeReadPort
from litedram.frontend.fifo import LiteDRAMFIFO

MAX_CYCLES = 60000


class Env:
    def __init__(self, dut, words, base_words, depth_words, seed, style, n_check):
        self.n_check     = n_check
        self.dut         = dut
        self.words       = words
        self.base        = base_words
        self.depth       = depth_words
        self.prng        = random.Random(seed)
        self.style       = style
        self.cycle       = 0
        self.idx         = 0
        self.offering    = False
        self.received    = []
        self.errors      = []
        self.done        = False
        # Memory model: commands of both ports are executed strictly in the order of acceptance.
        self.queue       = []   # ("w", addr) / ("r", addr) in order of acceptance.
        self.mem         = {}   # addr -> [data, unread]
        self.returns     = []   # [data, earliest cycle] of executed reads.
        self.n_wr_cmd    = 0
        self.n_rd_cmd    = 0
        self.max_level   = 0
        self.take_data   = False
        self.phase_left  = 0
        self.phase       = 0
        self.progress    = 0    # Cycle of the last word received.

    def err(self, msg):
        if len(self.errors) < 5:
            self.errors.append("cycle %d: %s" % (self.cycle, msg))

    # Rate patterns -----------------------------------------------------------------------------
    def rates(self):
        # Returns (probability producer offers, probability consumer ready) for the current cycle.
        if self.style == "fast_producer":
            return 1.0, 0.3
        if self.style == "fast_consumer":
            return 0.4, 1.0
        if self.style == "random":
            return 0.6, 0.6
        # "phases": alternate fill / drain / idle phases: forces bypass <-> DRAM mode switches,
        # FIFO completely full and completely empty situations and long consumer stalls.
        if self.phase_left == 0:
            self.phase      = self.prng.randrange(4)
            self.phase_left = self.prng.randrange(30, 150)
        self.phase_left -= 1
        return [(1.0, 0.0), (0.1, 1.0), (1.0, 1.0), (0.5, 0.2)][self.phase]

    # Stimulus and memory model (sys domain) --------------------------------------------------------
    def driver(self):
        dut = self.dut
        wr, rd = dut.write_port, dut.read_port
        p = self.prng
        while not self.done:
            p_prod, p_cons = self.rates()
            # Producer (valid held until accepted).
            if not self.offering and self.idx < len(self.words) and p.random() < p_prod:
                self.offering = True
            if self.offering and self.idx < len(self.words):
                yield dut.fifo.sink.valid.eq(1)
                yield dut.fifo.sink.data.eq(self.words[self.idx])
            else:
                yield dut.fifo.sink.valid.eq(0)
                yield dut.fifo.sink.data.eq(p.getrandbits(8))
            # Consumer.
            yield dut.fifo.source.ready.eq(int(p.random() < p_cons))
            # Command channels.
            yield wr.cmd.ready.eq(int(p.random() < 0.7))
            yield rd.cmd.ready.eq(int(p.random() < 0.7))
            # Execution of the oldest command.
            self.take_data = False
            if self.queue:
                kind, addr = self.queue[0]
                if kind == "r":
                    self.queue.pop(0)
                    entry = self.mem.get(addr)
                    if entry is None:
                        self.err("read of address %d that was never written" % addr)
                        entry = [0, False]
                    if not entry[1]:
                        self.err("address %d read twice / before being written" % addr)
                    entry[1] = False
                    latency  = p.choice([1, 2, 3, 6, 12])
                    earliest = max(self.cycle + latency, self.returns[-1][1] if self.returns else 0)
                    self.returns.append([entry[0], earliest])
                elif p.random() < 0.7:
                    self.take_data = True
            yield wr.wdata.ready.eq(int(self.take_data))
            # Read data: one cycle pulse per word, the controller never waits for rdata.ready.
            if self.returns and self.returns[0][1] <= self.cycle:
                yield rd.rdata.valid.eq(1)
                yield rd.rdata.data.eq(self.returns.pop(0)[0])
            else:
                yield rd.rdata.valid.eq(0)
                yield rd.rdata.data.eq(p.getrandbits(len(rd.rdata.data)))
            yield
            self.cycle += 1
            if self.cycle > MAX_CYCLES or self.cycle > self.progress + 3000:
                self.err("timeout (%d/%d words received)" % (len(self.received), len(self.words)))
                self.done = True

    # Monitor (mon domain) ----------------------------------------------------------------------
    def monitor(self):
        dut = self.dut
        wr, rd = dut.write_port, dut.read_port
        while not self.done:
            if (yield dut.fifo.sink.valid) and (yield dut.fifo.sink.ready):
                self.idx     += 1
                self.offering = False
            # Write data of the oldest command (before new commands are queued).
            if (yield wr.wdata.ready) and (yield wr.wdata.valid):
                kind, addr = self.queue.pop(0)
                assert kind == "w"
                if (yield wr.wdata.we) != 2**len(wr.wdata.we) - 1:
                    self.err("partial write")
                entry = self.mem.get(addr)
                if entry is not None and entry[1]:
                    self.err("address %d overwritten before it was read" % addr)
                self.mem[addr] = [(yield wr.wdata.data), True]
            # Commands: a write accepted in the same cycle as a read is ordered first.
            for port, kind in [(wr, "w"), (rd, "r")]:
                if (yield port.cmd.valid) and (yield port.cmd.ready):
                    addr = (yield port.cmd.addr)
                    if (yield port.cmd.we) != (kind == "w"):
                        self.err("wrong command type on %s port" % kind)
                    if not (self.base <= addr < self.base + self.depth):
                        self.err("address %d outside of the FIFO region" % addr)
                    self.queue.append((kind, addr))
                    if kind == "w":
                        self.n_wr_cmd += 1
                    else:
                        self.n_rd_cmd += 1
            level = self.n_wr_cmd - self.n_rd_cmd
            self.max_level = max(self.max_level, level)
            if not (0 <= level <= self.depth):
                self.err("%d words held in a DRAM region of %d words" % (level, self.depth))
            if (yield rd.rdata.valid) and not (yield rd.rdata.ready):
                self.err("returned word lost (rdata.ready low)")
            if (yield dut.fifo.source.valid) and (yield dut.fifo.source.ready):
                self.received.append((yield dut.fifo.source.data))
                self.progress = self.cycle
                if self.received[-1] != self.words[len(self.received) - 1]:
                    self.err("word %d differs" % (len(self.received) - 1))
            if len(self.received) >= self.n_check:
                self.done = True
            yield


def run(with_bypass, ratio, depth_words, style, n, seed, n_check=None):
    n_check = n if n_check is None else n_check
    data_width      = 8
    port_data_width = data_width*ratio
    base_words      = 5

    class DUT(Module):
        def __init__(self):
            self.write_port = LiteDRAMNativeWritePort(address_width=32, data_width=port_data_width)
            self.read_port  = LiteDRAMNativeReadPort(address_width=32,  data_width=port_data_width)
            self.submodules.fifo = LiteDRAMFIFO(
                data_width  = data_width,
                base        = base_words*port_data_width//8,
                depth       = depth_words*port_data_width//8,
                write_port  = self.write_port,
                read_port   = self.read_port,
                with_bypass = with_bypass)

    prng  = random.Random(seed)
    words = [prng.getrandbits(data_width) for _ in range(n)]
    dut   = DUT()
    env   = Env(dut, words, base_words, depth_words, seed + 1, style, n_check)
    run_simulation(dut, {"sys": [env.driver()], "mon": [env.monitor()]},
        clocks={"sys": 10, "mon": (10, 5)})
    errors = list(env.errors)
    if env.received != words[:n_check]:
        errors.append("output stream differs from input stream (%d / %d words)" % (
            len(env.received), n_check))
    name = "bypass=%d ratio=%d depth=%-2d %s" % (with_bypass, ratio, depth_words, style)
    print("%-45s cycles %6d  dram writes %4d  max level %2d  %s" % (name, env.cycle, env.n_wr_cmd,
        env.max_level, "ok" if not errors else "FAIL " + "; ".join(errors[:3])))
    return not errors


def main():
    ok   = True
    seed = 300
    configs = [
        # with_bypass, ratio, depth (DRAM words), styles
        (False, 1,  4, ["fast_producer", "fast_consumer", "random", "phases"]),
        (False, 1, 13, ["fast_producer", "phases"]),
        (True,  1,  3, ["fast_producer", "fast_consumer", "random", "phases"]),
        (True,  1, 16, ["fast_producer", "random", "phases"]),
        # Ratios > 1: see the note below.
        (True,  2,  5, ["fast_producer", "fast_consumer"]),
        (True,  4,  4, ["fast_producer", "fast_consumer"]),
        (True,  4, 16, ["fast_producer"]),
    ]
    # Note on ratios > 1 (with bypass): on the unchanged code the return from DRAM mode to bypass
    # mode while the pre-converter holds a partial DRAM word (PUMP_PRECONVERTER/DRAIN_POSTCONVERTER
    # states) corrupts the stream (pre-existing defect, independent of the changes demonstrated
    # here). The scenarios for these ratios therefore avoid that situation: either the consumer is
    # fast (everything goes through the bypass), or the producer is faster than the consumer until
    # the end and the check stops 48 words before the end of the stream (DRAM path never drained).
    for with_bypass, ratio, depth_words, styles in configs:
        for style in styles:
            seed += 1
            n = 40*ratio*4 if style != "phases" else 40*ratio*8
            n = min(n, 400)
            n_check = n - 48 if (ratio > 1 and style == "fast_producer") else n
            ok &= run(with_bypass, ratio, depth_words, style, n=n, seed=seed, n_check=n_check)
    print("PASS" if ok else "FAIL")
    sys.exit(0 if ok else 1)


if __name__ == "__main__":
    main()
