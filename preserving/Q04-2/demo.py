#!/usr/bin/env python3
# Self-contained demonstration: full LiteDRAMController (bank machines + multiplexer + refresher) in a plain
# migen simulation; a DFI monitor with a per-rank bank state model checks the observable part of C02 and C04.
# Exits 0 and prints PASS on the unchanged code and with the change applied.
import sys, random
sys.path.insert(0, "/repo")

from migen import *

import litedram
assert litedram.__file__.startswith("/repo/"), litedram.__file__
from litedram.common import PhySettings, GeomSettings, TimingSettings
from litedram.core.controller import ControllerSettings, LiteDRAMController

FOCUS = "precharge-all issued as soon as the command bus is granted"


class Failure(Exception):
    pass


def build(nranks, nphases, postponing, zq_period, trefi=110, trp=3, trfc=9, tzqcs=14, auto_precharge=True):
    phy = PhySettings(phytype="SIM", memtype="DDR3", databits=8, dfi_databits=16, nphases=nphases,
        rdphase=0, wrphase=nphases - 1, cl=4, cwl=3, read_latency=4, write_latency=1, nranks=nranks)
    geom = GeomSettings(bankbits=2, rowbits=13, colbits=10)
    timing = TimingSettings(tRP=trp, tRCD=3, tWR=3, tWTR=2, tREFI=trefi, tRFC=trfc, tFAW=None, tCCD=1,
        tRRD=2, tRC=9, tRAS=6, tZQCS=tzqcs if zq_period else None)
    clk_freq = 1e6
    cs = ControllerSettings(cmd_buffer_depth=4, refresh_postponing=postponing,
        refresh_zqcs_freq=clk_freq/(zq_period or 1000), with_auto_precharge=auto_precharge)
    dut = LiteDRAMController(phy, geom, timing, clk_freq, cs)
    dut.par = dict(nranks=nranks, nphases=nphases, postponing=postponing, zq_period=zq_period, trefi=trefi,
        trp=trp, trfc=trfc, tzqcs=tzqcs, nbanks=4, colsplit=10 - 3)
    return dut


def bank_driver(dut, n, rng, mode, cycles, queues, stats):
    """Native-interface traffic on bank machine n. mode: 'mixed', 'read', 'write', 'idle'."""
    req = getattr(dut.interface, "bank%d" % n)
    split = dut.par["colsplit"]
    rows = [rng.randrange(2**13) for _ in range(3)]
    t = 0
    while t < cycles:
        if mode == "idle":
            yield
            t += 1
            continue
        we = {"read": 0, "write": 1}.get(mode, rng.randrange(2))
        row = rng.choice(rows)
        col = rng.randrange(2**split)
        yield req.valid.eq(1)
        yield req.we.eq(we)
        yield req.addr.eq((row << split) | col)
        yield
        t += 1
        while not (yield req.ready):
            yield
            t += 1
            if t > cycles + 2000:
                raise Failure("bank %d: request never accepted" % n)
        queues[n].append((we, row, col << 3))
        stats["accepted"] += 1
        yield req.valid.eq(0)
        for _ in range(rng.choice([0, 0, 0, 1, 2, 7]) if mode == "mixed" else 0):
            yield
            t += 1
    yield req.valid.eq(0)


def monitor(dut, cycles, queues, log):
    p = dut.par
    nranks, nphases, nbanks = p["nranks"], p["nphases"], p["nbanks"]
    rdphase, wrphase = 0, nphases - 1
    open_row = [[None]*nbanks for _ in range(nranks)]
    last_cmd = [None]*nranks        # (name, cycle) of the last non-NOP command seen by the rank
    busy_until = [0]*nranks        # tRFC / tZQCS window: no command before this cycle
    act_at = [[None]*nbanks for _ in range(nranks)]   # cycle of the ACT that opened the bank
    wr_at  = [[None]*nbanks for _ in range(nranks)]   # cycle of the last WR to the bank
    tras, twtp = 6, -(-3//nphases) + 3 + 1           # tRAS ; ceil(cwl/nphases) + tWR + tCCD

    def check_precharge(cycle, r, b):
        if open_row[r][b] is not None:
            if cycle - act_at[r][b] < tras:
                raise Failure("cycle %d: bank %d.%d precharged %d cycles after ACT" % (cycle, r, b, cycle - act_at[r][b]))
            if wr_at[r][b] is not None and cycle - wr_at[r][b] < twtp:
                raise Failure("cycle %d: bank %d.%d precharged %d cycles after WR" % (cycle, r, b, cycle - wr_at[r][b]))
    for cycle in range(cycles):
        for ph, phase in enumerate(dut.dfi.phases):
            cs_n  = (yield phase.cs_n)
            ras   = not (yield phase.ras_n)
            cas   = not (yield phase.cas_n)
            we    = not (yield phase.we_n)
            a     = (yield phase.address)
            ba    = (yield phase.bank)
            rd_en = (yield phase.rddata_en)
            wr_en = (yield phase.wrdata_en)
            name = {(0, 0, 0): None, (1, 0, 0): "ACT", (1, 0, 1): "PRE", (1, 1, 0): "REF",
                    (0, 1, 0): "RD", (0, 1, 1): "WR", (0, 0, 1): "ZQC", (1, 1, 1): "MRS"}[(ras, cas, we)]
            sel = [r for r in range(nranks) if not (cs_n >> r) & 1]
            if rd_en != (name == "RD") or wr_en != (name == "WR"):
                raise Failure("cycle %d: data enable strobes do not match the command %s" % (cycle, name))
            if name is None:
                continue
            if not sel:
                raise Failure("cycle %d: command %s without a chip select" % (cycle, name))
            if name == "MRS":
                raise Failure("cycle %d: mode register set during operation" % cycle)
            if name == "RD" and ph != rdphase or name == "WR" and ph != wrphase:
                raise Failure("cycle %d: %s on phase %d" % (cycle, name, ph))
            if name in ("REF", "ZQC") and len(sel) != nranks:
                raise Failure("cycle %d: %s does not select all ranks" % (cycle, name))
            if name in ("ACT", "RD", "WR") and len(sel) != 1:
                raise Failure("cycle %d: %s selects %d ranks" % (cycle, name, len(sel)))
            for r in sel:
                if cycle < busy_until[r]:
                    raise Failure("cycle %d: %s inside the tRFC/tZQCS window of rank %d" % (cycle, name, r))
                banks = open_row[r]
                if name == "ACT":
                    if banks[ba] is not None:
                        raise Failure("cycle %d: ACT on open bank %d.%d" % (cycle, r, ba))
                    banks[ba] = a
                    act_at[r][ba], wr_at[r][ba] = cycle, None
                elif name in ("RD", "WR"):
                    if banks[ba] is None:
                        raise Failure("cycle %d: %s on closed bank %d.%d" % (cycle, name, r, ba))
                    q = queues[r*nbanks + ba]
                    if not q:
                        raise Failure("cycle %d: %s nobody asked for" % (cycle, name))
                    we_q, row_q, col_q = q.pop(0)
                    if we_q != (name == "WR") or row_q != banks[ba] or col_q != (a & ~(1 << 10)):
                        raise Failure("cycle %d: %s row %x col %x on bank %d.%d does not match request %r" % (
                            cycle, name, banks[ba], a, r, ba, (we_q, row_q, col_q)))
                    if name == "WR":
                        wr_at[r][ba] = cycle
                    if a & (1 << 10):
                        banks[ba] = None
                    log["rw"].append(cycle)
                elif name == "PRE":
                    if a & (1 << 10):
                        for b in range(nbanks):
                            check_precharge(cycle, r, b)
                        banks[:] = [None]*nbanks
                        if r == 0:
                            log["preall"].append(cycle)
                    else:
                        check_precharge(cycle, r, ba)
                        banks[ba] = None
                elif name in ("REF", "ZQC"):
                    if any(b is not None for b in banks):
                        raise Failure("cycle %d: %s with an open bank in rank %d" % (cycle, name, r))
                    if name == "REF":
                        pname, pcycle, pall = last_cmd[r] or (None, None, None)
                        if pname != "PRE" or not pall:
                            raise Failure("cycle %d: REF not preceded by a precharge-all (%s)" % (cycle, pname))
                        if cycle - pcycle < p["trp"]:
                            raise Failure("cycle %d: REF %d cycles after precharge-all" % (cycle, cycle - pcycle))
                        busy_until[r] = cycle + p["trfc"]
                        if r == 0:
                            log["ref"].append(cycle)
                    else:
                        if a & (1 << 10):
                            raise Failure("cycle %d: ZQ calibration long instead of short" % cycle)
                        busy_until[r] = cycle + p["tzqcs"]
                        if r == 0:
                            log["zqc"].append(cycle)
                last_cmd[r] = (name, cycle, bool(a & (1 << 10)))
        yield


def scenario(title, cycles, modes, seed, **kw):
    dut = build(**kw)
    p = dut.par
    rng = random.Random(seed)
    n = p["nranks"]*p["nbanks"]
    queues = [[] for _ in range(n)]
    stats = {"accepted": 0}
    log = {"ref": [], "zqc": [], "rw": [], "preall": []}
    gens = [bank_driver(dut, i, random.Random(rng.random()), modes[i % len(modes)], cycles, queues, stats)
            for i in range(n)]
    gens.append(monitor(dut, cycles, queues, log))
    run_simulation(dut, gens)
    # C04: k-th refresh no later than (k + postponing) tREFI plus a fixed service latency.
    N, trefi = p["postponing"], p["trefi"]
    latency = 64 + N*(p["trp"] + p["trfc"] + 4)
    refs = log["ref"]
    expected = (cycles - latency)//trefi - N
    if len(refs) < expected:
        raise Failure("%s: only %d refreshes in %d cycles" % (title, len(refs), cycles))
    for k, c in enumerate(refs, start=1):
        if c > (k + N)*trefi + latency:
            raise Failure("%s: refresh %d at cycle %d is late" % (title, k, c))
    # Traffic resumes after every maintenance window.
    active = any(m != "idle" for m in modes)
    if active:
        if not any(c > refs[-1] for c in log["rw"]) and cycles - refs[-1] > 100:
            raise Failure("%s: no traffic after the last refresh" % title)
        if stats["accepted"] < cycles//40:
            raise Failure("%s: traffic starved (%d requests)" % (title, stats["accepted"]))
    # ZQ calibration recurs at its period (served with the first refresh after the period elapsed).
    if p["zq_period"]:
        zq = log["zqc"]
        bound = p["zq_period"] + N*trefi + latency + p["tzqcs"]
        for a, b in zip([0] + zq, zq + [cycles]):
            if b - a > bound:
                raise Failure("%s: no ZQ calibration between cycles %d and %d" % (title, a, b))
    elif log["zqc"]:
        raise Failure("%s: unexpected ZQ calibration" % title)
    print("  %-46s refreshes=%3d zqcs=%2d reads/writes=%5d (precharge-all: %d, informational)" % (
        title, len(refs), len(log["zqc"]), len(log["rw"]), len(log["preall"])))


def main():
    print("demo (%s)" % FOCUS)
    scenario("2 ranks, 2 phases, postponing 1, ZQCS, mixed", 1900, ["mixed"], 1,
        nranks=2, nphases=2, postponing=1, zq_period=700)
    scenario("1 rank, 4 phases, postponing 4, saturating", 2000, ["mixed", "write", "read", "mixed"], 2,
        nranks=1, nphases=4, postponing=4, zq_period=None)
    scenario("1 rank, 1 phase, postponing 2, ZQCS, one bank", 1400, ["write", "idle", "idle", "idle"], 3,
        nranks=1, nphases=1, postponing=2, zq_period=500, auto_precharge=False)
    scenario("2 ranks, 2 phases, postponing 8, ZQCS, idle ports", 1900, ["idle"], 4,
        nranks=2, nphases=2, postponing=8, zq_period=900)
    print("PASS")


if __name__ == "__main__":
    try:
        main()
    except Failure as e:
        print("FAIL:", e)
        sys.exit(1)
