#!/usr/bin/env python3
# demo1: LiteDRAMNativePortCDC delivers every command, write word and read word exactly once and in order
# (property C08): memory semantics seen through the crossing are unchanged for several clock ratios/phases,
# FIFO depths, traffic patterns and user-side read back-pressure (the controller side never waits for
# rdata.ready, like the real crossbar). Self-contained; passes on clean HEAD and with patch1 applied.
#
# A reference byte memory is compared with (a) every word returned to the user, in order, and (b) the final
# content of a behavioural native-side memory, for random command sequences / byte enables / handshake timings.

import os
import sys
import random

sys.path.insert(0, os.path.dirname(os.path.dirname(os.path.abspath(__file__))))
sys.path.insert(0, "/repo")

from migen import *

import litedram
from litedram.common import LiteDRAMNativePort
from litedram.frontend.adapter import LiteDRAMNativePortCDC

# Reference / behavioural memory (byte addressed) ----------------------------------------------------

def init_byte(a):
    return (a*37 + 11) & 0xff

class ByteMem:
    def __init__(self):
        self.bytes = {}

    def read(self, word_addr, nbytes):
        v = 0
        for j in range(nbytes):
            a = word_addr*nbytes + j
            v |= self.bytes.get(a, init_byte(a)) << (8*j)
        return v

    def write(self, word_addr, nbytes, data, we):
        for j in range(nbytes):
            if (we >> j) & 1:
                self.bytes[word_addr*nbytes + j] = (data >> (8*j)) & 0xff

    def content(self):
        return {a: v for a, v in self.bytes.items() if v != init_byte(a)}

# Native side: in-order memory with random command/data/response timing ------------------------------

def native_model(port, mem, rng, p_cmd, p_wready, lat, stats):
    nbytes    = port.data_width//8
    queue     = []
    cyc       = 0
    cmd_ready = 0
    w_ready   = 0
    r_valid   = 0
    while True:
        if cmd_ready and (yield port.cmd.valid):
            we   = (yield port.cmd.we)
            addr = (yield port.cmd.addr)
            queue.append((we, addr, cyc + rng.randint(*lat)))
            stats["native_cmds"] += 1
        if w_ready and (yield port.wdata.valid):
            assert queue and queue[0][0]
            mem.write(queue[0][1], nbytes, (yield port.wdata.data), (yield port.wdata.we))
            queue.pop(0)
        if r_valid:
            queue.pop(0)
        stats["native_pending"] = len(queue)
        cmd_ready = int(len(queue) < 8 and rng.random() < p_cmd)
        w_ready   = int(bool(queue) and queue[0][0] == 1 and rng.random() < p_wready)
        r_valid   = int(bool(queue) and queue[0][0] == 0 and queue[0][2] <= cyc + 1)
        yield port.cmd.ready.eq(cmd_ready)
        yield port.wdata.ready.eq(w_ready)
        yield port.rdata.valid.eq(r_valid)
        yield port.rdata.data.eq(mem.read(queue[0][1], nbytes) if r_valid else 0)
        yield
        cyc += 1

# User side: holds each command until accepted, offers write data no later than its command ----------

def user_driver(port, ops, rng, p_gap, lead, stats, drain_idle):
    writes   = [i for i, op in enumerate(ops) if op["we"]]
    cmd_i    = 0
    cmd_act  = False
    d_i      = 0
    d_act    = False
    gap      = 0
    cycles   = 0
    while cmd_i < len(ops) or d_i < len(writes):
        if cmd_act and (yield port.cmd.ready):
            cmd_act = False
            cmd_i  += 1
            gap     = rng.randint(1, 6) if rng.random() < p_gap else 0
        if d_act and (yield port.wdata.ready):
            d_act = False
            d_i  += 1
        if not d_act and d_i < len(writes) and writes[d_i] <= cmd_i + lead:
            op    = ops[writes[d_i]]
            d_act = True
            yield port.wdata.data.eq(op["data"])
            yield port.wdata.we.eq(op["mask"])
        if not cmd_act and cmd_i < len(ops):
            if gap:
                gap -= 1
            else:
                op = ops[cmd_i]
                # Data of a write is on offer (or already taken) when its command is presented.
                if not op["we"] or writes.index(cmd_i) < d_i or (writes.index(cmd_i) == d_i and d_act):
                    cmd_act = True
                    yield port.cmd.we.eq(op["we"])
                    yield port.cmd.addr.eq(op["addr"])
                    yield port.cmd.last.eq(op["last"])
        yield port.cmd.valid.eq(cmd_act)
        yield port.wdata.valid.eq(d_act)
        yield
        cycles += 1
        if cycles > 20000:
            raise TimeoutError("user driver stuck (cmd %d/%d)" % (cmd_i, len(ops)))
    yield port.cmd.valid.eq(0)
    yield port.wdata.valid.eq(0)
    # Drain: all reads returned and native side idle for long enough to cover anything still
    # travelling inside the adapter (FIFOs, chunk conversion of the last access).
    idle = 0
    while idle < drain_idle:
        yield
        cycles += 1
        done = len(stats["rdata"]) >= stats["n_reads"] and stats["native_pending"] == 0
        idle = idle + 1 if done else 0
        if cycles > 40000:
            raise TimeoutError("drain stuck: %d/%d reads" % (len(stats["rdata"]), stats["n_reads"]))

@passive
def rdata_sink(port, stats, rng, p_ready):
    ready = 0
    while True:
        if ready and (yield port.rdata.valid):
            stats["rdata"].append((yield port.rdata.data))
        ready = int(rng.random() < p_ready)
        yield port.rdata.ready.eq(ready)
        yield

# Scenario generation -------------------------------------------------------------------------------

def make_ops(rng, n, mode, order, span, user_bytes, p_last):
    ops  = []
    addr = rng.randrange(span)
    for i in range(n):
        if order == "ascending":
            addr = (addr + 1) % span
        elif order == "descending":
            addr = (addr - 1) % span
        elif order == "repeated":
            addr = addr if rng.random() < 0.6 else rng.randrange(span)
        else:
            addr = rng.randrange(span)
        we = {"write": 1, "read": 0, "both": int(rng.random() < 0.5)}[mode]
        mask = rng.choice([2**user_bytes - 1, rng.getrandbits(user_bytes), rng.getrandbits(user_bytes), 0])
        ops.append(dict(we=we, addr=addr, data=rng.getrandbits(8*user_bytes), mask=mask,
                        last=int(rng.random() < p_last)))
    ops[-1]["last"] = 1
    return ops

class DUT(Module):
    def __init__(self, mode, dw, depths):
        self.user   = LiteDRAMNativePort(mode, address_width=24, data_width=dw, clock_domain="user")
        self.native = LiteDRAMNativePort(mode, address_width=24, data_width=dw, clock_domain="native")
        self.submodules.cdc = LiteDRAMNativePortCDC(self.user, self.native, **depths)

def run_scenario(seed, mode, dw, order, clocks, depths, n=40, span=6, p_last=0.0,
                 p_cmd=0.7, p_wready=0.7, lat=(1, 4), p_gap=0.3, lead=0, p_rready=1.0):
    rng   = random.Random(seed)
    ub    = dw//8
    ops   = make_ops(rng, n, mode, order, span, ub, p_last)
    ref   = ByteMem()
    mem   = ByteMem()
    exp   = []
    for op in ops:
        if op["we"]:
            ref.write(op["addr"], ub, op["data"], op["mask"])
        else:
            exp.append(ref.read(op["addr"], ub))
    stats = dict(rdata=[], n_reads=len(exp), native_cmds=0, native_pending=0)
    dut   = DUT(mode, dw, depths)
    gens  = {
        "user": [
            user_driver(dut.user, ops, rng, p_gap, lead, stats, 200),
            rdata_sink(dut.user, stats, random.Random(seed + 1), p_rready),
        ],
        "native": [
            passive(native_model)(dut.native, mem, random.Random(seed + 2), p_cmd, p_wready, lat, stats),
        ],
    }
    run_simulation(dut, gens, clocks)
    tag = "seed=%d mode=%s %s clocks=%s depths=%s" % (seed, mode, order, clocks, depths)
    assert stats["rdata"] == exp, "%s: read data mismatch\n got %s\n exp %s" % (
        tag, [hex(v) for v in stats["rdata"]], [hex(v) for v in exp])
    assert mem.content() == ref.content(), "%s: final memory mismatch" % tag
    assert stats["native_cmds"] == len(ops), "%s: %d native commands for %d user commands" % (
        tag, stats["native_cmds"], len(ops))
    return len(ops), len(exp)

def main():
    print("litedram from", litedram.__file__)
    seed  = 5000
    total = [0, 0]
    clock_sets = [
        {"user": 10,      "native": 10},           # equal, in phase
        {"user": 10,      "native": (10, 4)},      # equal, out of phase
        {"user": 10,      "native": (7, 3)},       # faster controller
        {"user": (6, 1),  "native": 16},           # slower controller
        {"user": 20,      "native": 3},            # much faster controller
        {"user": 100,     "native": (99, 13)},     # drifting
    ]
    depth_sets = [
        dict(),
        dict(cmd_depth=4, wdata_depth=4,  rdata_depth=4),
        dict(cmd_depth=8, wdata_depth=16, rdata_depth=8),
    ]
    for ci, clocks in enumerate(clock_sets):
        for mode in ["both", "write", "read"]:
            for order in ["ascending", "random"]:
                seed += 1
                k = seed % 4
                res = run_scenario(seed, mode, 32, order, clocks, depth_sets[(ci + seed) % 3],
                    n        = 48,
                    span     = 8,
                    p_cmd    = [1.0, 0.7, 0.3, 0.9][k],
                    p_wready = [1.0, 0.5, 0.8, 0.3][k],
                    lat      = [(1, 1), (1, 4), (2, 9), (1, 2)][k],
                    p_gap    = [0.0, 0.3, 0.1, 0.0][k],
                    lead     = [0, 1, 0, 3][k],
                    p_last   = [0.0, 0.3, 1.0, 0.1][k],
                    p_rready = [0.15, 1.0, 0.5, 0.05][(k + seed//4) % 4])
                total[0] += res[0]
                total[1] += res[1]
    print("commands checked: %d, reads checked: %d" % tuple(total))
    print("PASS")

if __name__ == "__main__":
    main()
