import sys
sys.path.insert(0, "/repo")

import random

from migen import *

import litedram
from litedram import modules as sdram_modules
from litedram.phy.model import SDRAMPHYModel
from litedram.core.controller import ControllerSettings, LiteDRAMController
from litedram.core.crossbar import LiteDRAMCrossbar

assert litedram.__file__.startswith("/repo/"), litedram.__file__

# ---------------------------------------------------------------------------------------------------
# Complete memory core (user ports, crossbar, controller, DFI-level DRAM model) with a small geometry
# ---------------------------------------------------------------------------------------------------

NROWS = 32
NCOLS = 64


class Core(Module):
    def __init__(self, base, rate, nports, nbanks=None, trefi=110, clk_freq=100e6, **controller_kwargs):
        geom   = dict(nrows=NROWS, ncols=NCOLS)
        if nbanks is not None:
            geom["nbanks"] = nbanks
        tiny   = type("Tiny" + base.__name__, (base,), geom)
        module = tiny(clk_freq, rate)
        # Keep A10 (auto-precharge / precharge-all) on the bus although rows and columns are short.
        module.geom_settings.addressbits = 13
        module.timing_settings.tREFI = trefi
        self.sdram_module = module

        self.submodules.phy = phy = SDRAMPHYModel(module, data_width=16, clk_freq=clk_freq)
        settings = ControllerSettings(**controller_kwargs)
        self.submodules.controller = controller = LiteDRAMController(
            phy_settings        = phy.settings,
            geom_settings       = module.geom_settings,
            timing_settings     = module.timing_settings,
            clk_freq            = clk_freq,
            controller_settings = settings)
        self.comb += controller.dfi.connect(phy.dfi)
        self.submodules.crossbar = crossbar = LiteDRAMCrossbar(controller.interface)
        self.ports = [crossbar.get_port() for _ in range(nports)]

        self.nphases    = phy.settings.nphases
        self.rdphase    = phy.settings.rdphase
        self.wrphase    = phy.settings.wrphase
        self.nbanks     = 2**module.geom_settings.bankbits
        self.bankbits   = module.geom_settings.bankbits
        self.align      = controller.interface.address_align
        self.colshift   = module.geom_settings.colbits - self.align   # column bits in a port address
        self.data_bytes = controller.interface.data_width//8

    def address(self, bank, row, col):
        # ROW_BANK_COL port address, col counted in port words.
        return (row << (self.bankbits + self.colshift)) | (bank << self.colshift) | col

    def split(self, address):
        col  = address & (2**self.colshift - 1)
        bank = (address >> self.colshift) & (self.nbanks - 1)
        row  = address >> (self.colshift + self.bankbits)
        return bank, row, col


class Op:
    def __init__(self, we, addr, data=0, be=None, gap=0):
        self.we, self.addr, self.data, self.be, self.gap = we, addr, data, be, gap
        self.t_offer = self.t_accept = self.t_done = None
        self.expected = None


class Bench:
    """Drives the ports according to the native-port protocol and checks C01 (data), C02 (DFI bank
    state machine) and C05 (every command accepted and completed, latency recorded)."""
    def __init__(self, dut, programs):
        self.dut      = dut
        self.programs = programs
        self.cycle    = 0
        self.memory   = {}                                     # reference: address -> word
        self.wq       = [[] for _ in programs]                 # writes whose data is offered
        self.rq       = [[] for _ in programs]                 # reads waiting for their data
        self.per_bank = [[] for _ in range(dut.nbanks)]        # accepted requests, per bank, in order
        self.errors   = []
        self.stats    = dict(act=0, pre=0, rd=0, wr=0, ref=0, zqc=0)
        self.remaining = sum(len(p) for p in programs)

    # helpers -----------------------------------------------------------------------------------
    def error(self, msg):
        self.errors.append("cycle %d: %s" % (self.cycle, msg))

    def ref_write(self, addr, data, be):
        old = self.memory.get(addr, 0)
        for i in range(self.dut.data_bytes):
            if (be >> i) & 1:
                old = (old & ~(0xff << (8*i))) | (data & (0xff << (8*i)))
        self.memory[addr] = old

    # generators --------------------------------------------------------------------------------
    @passive
    def clock(self):
        while True:
            yield
            self.cycle += 1

    def cmd_gen(self, n):
        port = self.dut.ports[n]
        full = 2**self.dut.data_bytes - 1
        for op in self.programs[n]:
            for _ in range(op.gap):
                yield
            if op.be is None:
                op.be = full
            yield port.cmd.addr.eq(op.addr)
            yield port.cmd.we.eq(op.we)
            yield port.cmd.valid.eq(1)
            if op.we:
                self.wq[n].append(op)          # data offered together with the command
            yield
            op.t_offer = self.cycle
            while not (yield port.cmd.ready):
                yield
            op.t_accept = self.cycle
            bank, row, col = self.dut.split(op.addr)
            self.per_bank[bank].append((row, col, op.we))
            # Commands take effect in the order in which they are accepted.
            if op.we:
                self.ref_write(op.addr, op.data, op.be)
            else:
                op.expected = self.memory.get(op.addr, 0)
                self.rq[n].append(op)
            yield port.cmd.valid.eq(0)
        # Wait until everything of this port is finished.
        while self.wq[n] or self.rq[n]:
            yield

    @passive
    def wdata_gen(self, n):
        port = self.dut.ports[n]
        while True:
            if self.wq[n]:
                op = self.wq[n][0]
                yield port.wdata.data.eq(op.data)
                yield port.wdata.we.eq(op.be)
                yield port.wdata.valid.eq(1)
                yield
                while not (yield port.wdata.ready):
                    yield
                op.t_done = self.cycle
                if op.t_accept is None:
                    self.error("port %d: write data taken before its command was accepted" % n)
                self.wq[n].pop(0)
                self.remaining -= 1
                yield port.wdata.valid.eq(0)
            else:
                yield

    @passive
    def rdata_gen(self, n):
        port = self.dut.ports[n]
        yield port.rdata.ready.eq(1)
        while True:
            if (yield port.rdata.valid):
                data = (yield port.rdata.data)
                if not self.rq[n]:
                    self.error("port %d: read data without a read command" % n)
                else:
                    op = self.rq[n].pop(0)
                    op.t_done = self.cycle
                    self.remaining -= 1
                    if data != op.expected:
                        self.error("port %d: read @0x%x returned 0x%x, expected 0x%x" % (
                            n, op.addr, data, op.expected))
            yield

    @passive
    def dfi_monitor(self):
        dut      = self.dut
        phases   = dut.phy.dfi.phases
        open_row = [None]*dut.nbanks
        while True:
            for np, p in enumerate(phases):
                if (yield p.cs_n):
                    continue
                cmd = ((yield p.ras_n), (yield p.cas_n), (yield p.we_n))
                if cmd == (1, 1, 1):
                    continue
                bank = (yield p.bank)
                a    = (yield p.address)
                if cmd == (0, 1, 1):   # activate
                    self.stats["act"] += 1
                    if open_row[bank] is not None:
                        self.error("ACT on bank %d which is not precharged" % bank)
                    open_row[bank] = a
                elif cmd == (0, 1, 0): # precharge
                    self.stats["pre"] += 1
                    for b in range(dut.nbanks):
                        if b == bank or (a >> 10) & 1:
                            open_row[b] = None
                elif cmd == (0, 0, 1): # refresh
                    self.stats["ref"] += 1
                    if any(r is not None for r in open_row):
                        self.error("REF while a bank is open: %s" % open_row)
                elif cmd == (1, 1, 0): # zq calibration
                    self.stats["zqc"] += 1
                    if any(r is not None for r in open_row):
                        self.error("ZQC while a bank is open: %s" % open_row)
                elif cmd[0] == 1 and cmd[1] == 0: # read / write
                    we = 1 - cmd[2]
                    self.stats["wr" if we else "rd"] += 1
                    if we:
                        if np != dut.wrphase or not (yield p.wrdata_en):
                            self.error("WR not on the write phase / without wrdata_en")
                    else:
                        if np != dut.rdphase or not (yield p.rddata_en):
                            self.error("RD not on the read phase / without rddata_en")
                    if not self.per_bank[bank]:
                        self.error("RD/WR on bank %d without a request" % bank)
                        continue
                    row, col, req_we = self.per_bank[bank].pop(0)
                    if req_we != we:
                        self.error("bank %d: direction does not match the oldest request" % bank)
                    if open_row[bank] != row:
                        self.error("bank %d: RD/WR with row %s open, request addressed row %d" % (
                            bank, open_row[bank], row))
                    if (a & 0x3ff) != (col << dut.align):
                        self.error("bank %d: column 0x%x, request addressed 0x%x" % (
                            bank, a & 0x3ff, col << dut.align))
                    if (a >> 10) & 1:  # auto-precharge
                        open_row[bank] = None
                else:
                    self.error("unexpected DFI command %s" % (cmd,))
            yield

    @passive
    def watchdog(self, limit):
        for _ in range(limit):
            yield
        self.error("not finished after %d cycles (%d operations pending): deadlock/starvation" % (
            limit, self.remaining))
        raise TimeoutError

    def run(self, limit=6000, latency_bound=1500):
        n = len(self.programs)
        gens  = [self.clock()]
        gens += [self.cmd_gen(i)   for i in range(n)]
        gens += [self.wdata_gen(i) for i in range(n)]
        gens += [self.rdata_gen(i) for i in range(n)]
        gens += [self.dfi_monitor(), self.watchdog(limit)]
        try:
            run_simulation(self.dut, gens)
        except TimeoutError:
            pass
        worst_accept = worst_done = 0
        for prog in self.programs:
            for op in prog:
                if op.t_accept is None or op.t_done is None:
                    self.error("operation @0x%x never %s" % (
                        op.addr, "accepted" if op.t_accept is None else "completed"))
                    continue
                worst_accept = max(worst_accept, op.t_accept - op.t_offer)
                worst_done   = max(worst_done,   op.t_done   - op.t_accept)
        if max(worst_accept, worst_done) > latency_bound:
            self.error("latency above bound: accept %d, completion %d" % (worst_accept, worst_done))
        return worst_accept, worst_done


def readback(dut, addresses):
    return [Op(0, a) for a in addresses]


def random_program(dut, prng, n_ops, banks, rows, cols, p_write=0.5, max_gap=3, partial=True, tag=0):
    full = 2**dut.data_bytes - 1
    prog = []
    for i in range(n_ops):
        addr = dut.address(prng.choice(banks), prng.choice(rows), prng.choice(cols))
        gap  = prng.randrange(max_gap + 1) if max_gap else 0
        if prng.random() < p_write:
            be   = prng.randrange(1, full + 1) if (partial and prng.random() < 0.5) else full
            data = prng.getrandbits(8*dut.data_bytes)
            prog.append(Op(1, addr, data, be, gap))
        else:
            prog.append(Op(0, addr, gap=gap))
    return prog


def run_scenario(name, dut, programs, **kwargs):
    bench = Bench(dut, programs)
    worst = bench.run(**kwargs)
    status = "ok" if not bench.errors else "FAIL"
    print("%-58s %-4s cycles=%5d accept<=%3d done<=%3d %s" % (
        name, status, bench.cycle, worst[0], worst[1],
        " ".join("%s=%d" % kv for kv in bench.stats.items())))
    for e in bench.errors[:10]:
        print("    " + e)
    return not bench.errors

# ---------------------------------------------------------------------------------------------------
# Demo 3: read data return path.  Back-to-back (pipelined) reads with several reads in flight per port,
# read-after-write of the same address from another port, reads interleaved over banks.  Checks that
# each read returns exactly one word, in command order per port, with the last bytes written (C01),
# that everything completes within a bound (C05), and the DFI bank state machine (C02).
# The absolute number of cycles between a read command and its data is NOT checked.
# ---------------------------------------------------------------------------------------------------

def fill_then_stream(dut, prng, banks, rows, cols, n_reads):
    prog = []
    cells = [dut.address(b, r, c) for b in banks for r in rows for c in cols]
    full  = 2**dut.data_bytes - 1
    for a in cells:
        prog.append(Op(1, a, prng.getrandbits(8*dut.data_bytes), full, 0))
    for i in range(n_reads):
        prog.append(Op(0, prng.choice(cells), gap=0))   # back-to-back reads
    return prog


def main():
    ok = True
    configs = [
        (sdram_modules.MT48LC4M16, "1:1", 2, 4, dict()),
        (sdram_modules.MT46V32M16, "1:2", 2, 2, dict(with_auto_precharge=False)),
        (sdram_modules.MT47H64M16, "1:2", 3, 2, dict(cmd_buffer_buffered=True)),
        (sdram_modules.MT41K64M16, "1:4", 2, 2, dict(cmd_buffer_depth=4)),
    ]
    for n, (base, rate, nports, nbanks, kw) in enumerate(configs):
        prng = random.Random(300 + n)
        dut  = Core(base, rate, nports, nbanks=nbanks, **kw)
        banks = [0, 1]
        progs = [fill_then_stream(dut, prng, banks, rows=[2*i, 2*i + 1], cols=[0, 1, 2], n_reads=24)
                 for i in range(nports)]
        # Last port: partial writes and reads on the cells the first port is streaming from.
        shared = random_program(dut, prng, 20, banks, rows=[0, 1], cols=[0, 1, 2], p_write=0.5, max_gap=2)
        progs[-1] = progs[-1][:12] + shared
        addrs = sorted({op.addr for p in progs for op in p})
        progs[0] += readback(dut, addrs)
        name = "%s %s ports=%d banks=%d %s" % (base.__name__, rate, nports, nbanks,
            ",".join("%s=%s" % (k.replace("with_", "").replace("cmd_buffer_", "cb_"), v) for k, v in kw.items()))
        ok &= run_scenario(name, dut, progs)
    print("PASS" if ok else "FAIL")
    sys.exit(0 if ok else 1)


if __name__ == "__main__":
    main()
