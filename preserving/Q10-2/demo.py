#!/usr/bin/env python3
# Self-contained demonstration for change 2 (Wishbone burst up-converter: native commands issued from the CMD state).
# Checks C10 (Wishbone) and C11 (Avalon-MM) observable behaviour against a byte-accurate
# reference model, with a native-port memory model that has random handshake timings.
# Exits 0 and prints PASS on unchanged HEAD and with the patch applied.

import sys
sys.path.insert(0, "/repo")

import random
from collections import deque

from migen import *
from litex.gen.sim import run_simulation
from litex.soc.interconnect import wishbone, avalon

from litedram.common import LiteDRAMNativePort
from litedram.frontend.wishbone import LiteDRAMWishbone2Native
from litedram.frontend.avalon import LiteDRAMAvalonMM2Native

SELECT = ["wishbone"]

CTI_CLASSIC, CTI_INCR, CTI_END = 0b000, 0b010, 0b111

# Native port memory model ---------------------------------------------------------------------------

class NativeMem:
    """Behavioural native-port slave: commands accepted in order, write data requested (wdata.ready)
    only for already accepted write commands, read data returned in order after a random latency
    and held until taken. Commands execute in order: a read returns the memory content as it is
    once the data of all the writes accepted before it has been transferred."""
    def __init__(self, port, seed, p_cmd=0.5, p_wdata=0.5, p_rdata=0.6, rd_lat=(1, 5)):
        self.port    = port
        self.rng     = random.Random(seed)
        self.p_cmd   = p_cmd
        self.p_wdata = p_wdata
        self.p_rdata = p_rdata
        self.rd_lat  = rd_lat
        self.mem     = {}
        self.n_rd    = 0
        self.n_wr    = 0

    @passive
    def gen(self):
        port, rng = self.port, self.rng
        nbytes = port.data_width//8
        wq, rq = deque(), deque()
        cmd_ready = wd_ready = rd_valid = 0
        wr_accepted = wr_done = 0
        t = 0
        while True:
            # What happened during the current cycle.
            if wd_ready and (yield port.wdata.valid):
                addr = wq.popleft()
                data = (yield port.wdata.data)
                we   = (yield port.wdata.we)
                old  = self.mem.get(addr, 0)
                for b in range(nbytes):
                    if (we >> b) & 1:
                        old = (old & ~(0xff << (8*b))) | (data & (0xff << (8*b)))
                self.mem[addr] = old
                wr_done += 1
            if cmd_ready and (yield port.cmd.valid):
                addr = (yield port.cmd.addr)
                if (yield port.cmd.we):
                    wq.append(addr)
                    wr_accepted += 1
                    self.n_wr += 1
                else:
                    # [address, earliest cycle of the data, writes ordered before this read, data]
                    rq.append([addr, t + rng.randint(*self.rd_lat), wr_accepted, None])
                    self.n_rd += 1
            # Commands execute in order: a read sees exactly the writes accepted before it.
            for r in rq:
                if r[3] is None and wr_done >= r[2]:
                    assert wr_done == r[2]
                    r[3] = self.mem.get(r[0], 0)
            if rd_valid and (yield port.rdata.ready):
                rq.popleft()
                rd_valid = 0
            # Values for the next cycle.
            cmd_ready = int(rng.random() < self.p_cmd)
            wd_ready  = int(bool(wq) and rng.random() < self.p_wdata)
            if rq and rq[0][3] is not None and (t + 1 >= rq[0][1]) and (rd_valid or rng.random() < self.p_rdata):
                rd_valid = 1
            yield port.cmd.ready.eq(cmd_ready)
            yield port.wdata.ready.eq(wd_ready)
            yield port.rdata.valid.eq(rd_valid)
            yield port.rdata.data.eq(rq[0][3] if rd_valid else rng.getrandbits(port.data_width))
            yield
            t += 1

    def byte(self, a):
        nbytes = self.port.data_width//8
        return (self.mem.get(a//nbytes, 0) >> (8*(a % nbytes))) & 0xff


class Ref:
    """Byte addressed reference memory (addresses relative to the base address)."""
    def __init__(self):
        self.bytes = {}
    def write(self, word, nbytes, data, sel):
        for b in range(nbytes):
            if (sel >> b) & 1:
                self.bytes[word*nbytes + b] = (data >> (8*b)) & 0xff
    def read(self, word, nbytes):
        return sum(self.bytes.get(word*nbytes + b, 0) << (8*b) for b in range(nbytes))
    def check_against(self, mem, what):
        touched = set(self.bytes) | {a*(mem.port.data_width//8) + b
            for a in mem.mem for b in range(mem.port.data_width//8)}
        for a in sorted(touched):
            if mem.byte(a) != self.bytes.get(a, 0):
                raise AssertionError("%s: memory byte 0x%x is 0x%02x, expected 0x%02x" % (
                    what, a, mem.byte(a), self.bytes.get(a, 0)))

# Wishbone -----------------------------------------------------------------------------------------

def wishbone_scenario(wb_dw, port_dw, base, seed, n_ops=60, **mem_kwargs):
    rng   = random.Random(seed)
    what  = "wishbone %d->%d base=0x%x seed=%d%s" % (wb_dw, port_dw, base, seed, " (memory timing %s)" % ",".join("%s=%s" % kv for kv in sorted(mem_kwargs.items())) if mem_kwargs else "")
    wb    = wishbone.Interface(data_width=wb_dw, adr_width=30)
    port  = LiteDRAMNativePort("both", address_width=30, data_width=port_dw)
    dut   = Module()
    dut.submodules += LiteDRAMWishbone2Native(wb, port, base_address=base)
    mem   = NativeMem(port, seed, **mem_kwargs)
    ref   = Ref()
    nb    = wb_dw//8
    off   = base//nb
    full  = 2**nb - 1
    stats = {"acks": 0, "accesses": 0, "stray": 0}

    @passive
    def monitor():
        while True:
            if (yield wb.ack) and not ((yield wb.cyc) and (yield wb.stb)):
                stats["stray"] += 1
            yield

    def access(adr, we, data=0, sel=None, cti=CTI_CLASSIC, abort_after=None):
        """One Wishbone access, cyc stays asserted on return (caller ends the cycle)."""
        yield wb.adr.eq(off + adr)
        yield wb.we.eq(we)
        yield wb.dat_w.eq(data)
        yield wb.sel.eq(full if sel is None else sel)
        yield wb.cti.eq(cti)
        yield wb.cyc.eq(1)
        yield wb.stb.eq(1)
        yield
        n = 0
        while not (yield wb.ack):
            n += 1
            if abort_after is not None and n > abort_after:
                # Master drops the cycle before the acknowledge (at least one cycle with cyc low).
                yield wb.cyc.eq(0)
                yield wb.stb.eq(0)
                yield
                return None
            yield
        stats["acks"] += 1
        return (yield wb.dat_r)

    def end_cycle(idle):
        yield wb.cyc.eq(0)
        yield wb.stb.eq(0)
        yield wb.we.eq(0)
        yield wb.cti.eq(CTI_CLASSIC)
        yield wb.dat_w.eq(rng.getrandbits(wb_dw))
        yield wb.adr.eq(rng.getrandbits(20))
        for _ in range(idle):
            yield

    def do_read(adr, cti=CTI_CLASSIC):
        stats["accesses"] += 1
        data = yield from access(adr, 0, cti=cti)
        if data != ref.read(adr, nb):
            raise AssertionError("%s: read 0x%x returned 0x%x, expected 0x%x" % (
                what, adr, data, ref.read(adr, nb)))

    def do_write(adr, data, sel, cti=CTI_CLASSIC):
        stats["accesses"] += 1
        yield from access(adr, 1, data, sel, cti=cti)
        ref.write(adr, nb, data, sel)

    def master():
        for _ in range(8):
            yield
        for _ in range(n_ops):
            kind = rng.choice(["w", "w", "r", "wr", "burst_w", "burst_r", "abort_r", "abort_w", "mixed"])
            adr  = rng.randrange(0, 48)
            if kind == "w":
                yield from do_write(adr, rng.getrandbits(wb_dw), rng.getrandbits(nb))
            elif kind == "r":
                yield from do_read(adr)
            elif kind == "wr":
                # Write immediately followed by a read of the same word, cyc kept asserted.
                yield from do_write(adr, rng.getrandbits(wb_dw), rng.getrandbits(nb))
                yield from do_read(adr)
            elif kind == "burst_w":
                n = rng.randrange(2, 10)
                for i in range(n):
                    yield from do_write(adr + i, rng.getrandbits(wb_dw),
                        full if rng.random() < 0.5 else rng.getrandbits(nb),
                        CTI_END if i == n - 1 else CTI_INCR)
            elif kind == "burst_r":
                n = rng.randrange(2, 10)
                for i in range(n):
                    yield from do_read(adr + i, CTI_END if i == n - 1 else CTI_INCR)
            elif kind == "mixed":
                # Incrementing reads, a write into the words just read (maybe cached), read again.
                for i in range(3):
                    yield from do_read(adr + i, CTI_INCR)
                yield from do_write(adr + 1, rng.getrandbits(wb_dw), rng.getrandbits(nb), CTI_INCR)
                for i in range(3):
                    yield from do_read(adr + i, CTI_END if i == 2 else CTI_INCR)
            elif kind == "abort_r":
                r = yield from access(adr, 0, cti=rng.choice([CTI_CLASSIC, CTI_INCR]),
                    abort_after=rng.randrange(0, 6))
                if r is not None:
                    stats["accesses"] += 1
                    if r != ref.read(adr, nb):
                        raise AssertionError("%s: read 0x%x (not aborted in the end) got 0x%x exp 0x%x" % (what, adr, r, ref.read(adr, nb)))
            elif kind == "abort_w":
                data, sel = rng.getrandbits(wb_dw), rng.getrandbits(nb)
                r = yield from access(adr, 1, data, sel, abort_after=rng.randrange(0, 6))
                if r is not None:
                    stats["accesses"] += 1
                    ref.write(adr, nb, data, sel)
                else:
                    # The dropped write may or may not have been performed: define the word again.
                    yield from end_cycle(rng.randrange(0, 4))
                    yield from do_write(adr, rng.getrandbits(wb_dw), full)
            yield from end_cycle(rng.choice([0, 0, 1, 2, 5]))
        # Read everything back with classic cycles.
        for adr in range(0, 60):
            yield from do_read(adr)
            yield from end_cycle(0)
        for _ in range(80):
            yield

    run_simulation(dut, [master(), mem.gen(), monitor()])
    if stats["stray"]:
        raise AssertionError("%s: acknowledge outside of an access" % what)
    if stats["acks"] != stats["accesses"]:
        raise AssertionError("%s: %d acks for %d accesses" % (what, stats["acks"], stats["accesses"]))
    ref.check_against(mem, what)
    print("ok  %s accesses=%d native rd=%d wr=%d" % (what, stats["accesses"], mem.n_rd, mem.n_wr))

# Avalon -------------------------------------------------------------------------------------------

def avalon_scenario(av_dw, port_dw, base, seed, n_ops=40, **mem_kwargs):
    rng   = random.Random(seed)
    what  = "avalon %d->%d base=0x%x seed=%d%s" % (av_dw, port_dw, base, seed, " (memory timing %s)" % ",".join("%s=%s" % kv for kv in sorted(mem_kwargs.items())) if mem_kwargs else "")
    av    = avalon.AvalonMMInterface(adr_width=30, data_width=av_dw)
    port  = LiteDRAMNativePort("both", address_width=30, data_width=port_dw)
    dut   = Module()
    dut.submodules += LiteDRAMAvalonMM2Native(av, port, base_address=base)
    mem   = NativeMem(port, seed, **mem_kwargs)
    ref   = Ref()
    nb    = av_dw//8
    off   = base//nb
    full  = 2**nb - 1
    beats = []
    requested = [0]

    @passive
    def monitor():
        while True:
            if (yield av.readdatavalid):
                beats.append((yield av.readdata))
            yield

    def wait_accept():
        yield
        while (yield av.waitrequest):
            yield

    def idle_bus():
        yield av.read.eq(0)
        yield av.write.eq(0)
        yield av.burstcount.eq(rng.getrandbits(4))
        yield av.address.eq(rng.getrandbits(20))
        yield av.writedata.eq(rng.getrandbits(av_dw))
        yield av.byteenable.eq(rng.getrandbits(nb))

    def do_read(adr, n):
        expected = [ref.read(adr + i, nb) for i in range(n)]
        before   = len(beats)
        requested[0] += n
        yield av.address.eq(off + adr)
        yield av.read.eq(1)
        yield av.write.eq(0)
        yield av.burstcount.eq(n)
        yield av.byteenable.eq(full)
        yield from wait_accept()
        yield from idle_bus()
        timeout = 0
        while len(beats) < before + n:
            yield
            timeout += 1
            assert timeout < 2000, "%s: read burst of %d never completed" % (what, n)
        for _ in range(rng.choice([0, 1, 3, 8])):
            yield
        if beats[before:] != expected:
            raise AssertionError("%s: read 0x%x x%d returned %s, expected %s" % (
                what, adr, n, [hex(x) for x in beats[before:]], [hex(x) for x in expected]))

    def do_write(adr, datas, bes, gaps):
        n = len(datas)
        for i in range(n):
            yield av.write.eq(1)
            yield av.read.eq(0)
            yield av.writedata.eq(datas[i])
            yield av.byteenable.eq(bes[i])
            if i == 0:
                yield av.address.eq(off + adr)
                yield av.burstcount.eq(n)
            else:
                yield av.burstcount.eq(0) # Only meaningful on the first beat.
            yield from wait_accept()
            ref.write(adr + i, nb, datas[i], bes[i])
            if gaps and i != n - 1 and rng.random() < 0.4:
                # Master idle cycles inside the write burst.
                yield av.write.eq(0)
                yield av.writedata.eq(rng.getrandbits(av_dw))
                yield av.byteenable.eq(rng.getrandbits(nb))
                for _ in range(rng.randrange(1, 4)):
                    yield
        yield from idle_bus()
        for _ in range(rng.choice([0, 0, 1, 4])):
            yield

    def master():
        for _ in range(8):
            yield
        for _ in range(n_ops):
            kind = rng.choice(["w1", "r1", "wb", "wb", "rb", "wb_rb"])
            adr  = rng.randrange(0, 40)
            n    = rng.randrange(2, 17)
            if kind == "w1":
                yield from do_write(adr, [rng.getrandbits(av_dw)], [rng.getrandbits(nb)], False)
                yield from do_read(adr, 1)
            elif kind == "r1":
                yield from do_read(adr, 1)
            elif kind == "wb":
                yield from do_write(adr, [rng.getrandbits(av_dw) for _ in range(n)],
                    [full if rng.random() < 0.5 else rng.getrandbits(nb) for _ in range(n)], True)
            elif kind == "rb":
                yield from do_read(adr, n)
            elif kind == "wb_rb":
                yield from do_write(adr, [rng.getrandbits(av_dw) for _ in range(n)], [full]*n, True)
                yield from do_read(adr, n)
        for adr in range(0, 56, 8):
            yield from do_read(adr, 8)
        for _ in range(80):
            yield

    run_simulation(dut, [master(), mem.gen(), monitor()])
    if len(beats) != requested[0]:
        raise AssertionError("%s: %d readdatavalid beats for %d requested" % (what, len(beats), requested[0]))
    ref.check_against(mem, what)
    print("ok  %s readdatavalid beats=%d native rd=%d wr=%d" % (what, len(beats), mem.n_rd, mem.n_wr))
    return len(beats)

# Main ---------------------------------------------------------------------------------------------

def main():
    for wb_dw, port_dw, base in [
        (32,  64, 0x00000000),
        (32, 128, 0x10000000),
        (32, 256, 0x00000000),
        (16,  64, 0x00004000),
        (8,   64, 0x00000000),
        (32,  32, 0x00000000), # Same width and wider bus: untouched path, for reference.
        (64,  32, 0x10000000),
    ]:
        for seed in (1, 2, 3):
            wishbone_scenario(wb_dw, port_dw, base, seed)
        # Slow memory: a lot of back-pressure on cmd/wdata, late read data.
        wishbone_scenario(wb_dw, port_dw, base, 4, p_cmd=0.15, p_wdata=0.2, p_rdata=0.3, rd_lat=(3, 12))
        # Fast memory: cmd.ready (almost) always high.
        wishbone_scenario(wb_dw, port_dw, base, 5, p_cmd=0.97, p_wdata=0.9, p_rdata=0.95, rd_lat=(1, 2))
    print("PASS")

if __name__ == "__main__":
    main()
