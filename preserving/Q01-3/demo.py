#!/usr/bin/env python3
# Self-contained demonstration: whole memory core (crossbar + controller + SDRAMPHYModel) driven on
# its native ports, observed on the ports and on the DFI bus only (no look inside the controller).
#
# Checked (on every scenario of SCENARIOS):
#  C01  every read returns, in command order per port, the bytes last written (byte enables honoured),
#       writes/reads of different ports to the same address ordered by command acceptance;
#  C02  DFI command stream obeys the bank state machine (ACT only on a precharged bank, RD/WR only on
#       the open row that the request at the head of that bank's queue addressed, REF/ZQCS only with
#       all banks precharged, RD/WR on the PHY's rdphase/wrphase with their data-enable strobes);
#  C03  (controller-cycle granularity) tRCD, tRP, tRAS, tRC, tRFC, write recovery, tRRD, tCCD;
#  C05  every offered command is accepted and completed within a fixed bound.
#
# Usage: python demoN.py     (exit status 0 and "PASS" when every check holds)

import os
import sys
sys.path.insert(0, os.environ.get("LITEDRAM_ROOT", "/repo"))

import math
import random
from collections import deque

from migen import *

import litedram
from litedram.modules import MT41K64M16, MT48LC4M16
from litedram.phy.model import SDRAMPHYModel
from litedram.core.controller import ControllerSettings, LiteDRAMController
from litedram.core.crossbar import LiteDRAMCrossbar

# Scenarios ----------------------------------------------------------------------------------------
# pattern: "random"   - random banks/rows/columns, random read/write mix and byte enables
#          "conflict" - all ports hammer one bank, alternating between two rows (row misses)
#          "gaps"     - short bursts on one row separated by long idle times, then another row
# Short bursts separated by long idle times: rows stay open and unused for a long time.
SCENARIOS = [
    dict(name="ddr3-1:4 gaps 2 ports",          module="DDR3", nports=2, pattern="gaps",     ncmds=20, trefi=400, seed=21),
    dict(name="ddr3-1:4 gaps 1 port noAP",      module="DDR3", nports=1, pattern="gaps",     ncmds=20, trefi=300, seed=22,
         ctrl=dict(with_auto_precharge=False, cmd_buffer_depth=0)),
    dict(name="sdr-1:1 gaps 2 ports",           module="SDR",  nports=2, pattern="gaps",     ncmds=20, trefi=350, seed=23),
    dict(name="ddr3-1:4 random 2 ports",        module="DDR3", nports=2, pattern="random",   ncmds=22, trefi=160, seed=24),
]

LATENCY_BOUND = 1500  # cycles, generous: depends only on the configuration

# Small geometries keep the simulation fast (same timing parameters as the library modules).
class SmallDDR3(MT41K64M16):
    nrows = 8
    ncols = 128

class SmallSDR(MT48LC4M16):
    nrows = 8
    ncols = 64

class CheckError(Exception):
    pass

def check(cond, msg):
    if not cond:
        raise CheckError(msg)

# DUT ----------------------------------------------------------------------------------------------

class DUT(Module):
    def __init__(self, kind, nports, trefi, ctrl):
        clk_freq = 100e6
        if kind == "DDR3":
            module = SmallDDR3(clk_freq, "1:4")
        else:
            module = SmallSDR(clk_freq, "1:1")
        if trefi is not None:
            module.timing_settings.tREFI = trefi  # refresh more often than needed (legal)
        module.geom_settings.addressbits = 13  # address bus as wide as on the real parts (A10 exists)
        self.module = module
        self.submodules.phy  = SDRAMPHYModel(module, data_width=16, clk_freq=clk_freq)
        # (LiteDRAMCore without its CSR-driven DFI injector, which is transparent in hardware mode.)
        self.submodules.controller = LiteDRAMController(self.phy.settings, module.geom_settings,
            module.timing_settings, clk_freq, controller_settings=ControllerSettings(**ctrl))
        self.comb += self.controller.dfi.connect(self.phy.dfi)
        self.submodules.crossbar = LiteDRAMCrossbar(self.controller.interface)
        self.ports = [self.crossbar.get_port() for _ in range(nports)]

# Traffic ------------------------------------------------------------------------------------------

def make_ops(pattern, prng, port, nports, ncmds, aw, colw, bankw):
    # Address map ROW_BANK_COL: | row | bank | col | (col already without the burst alignment bits)
    def addr(row, bank, col):
        return ((row << (bankw + colw)) | (bank << colw) | col) & (2**aw - 1)
    ops = []
    if pattern == "random":
        for _ in range(ncmds):
            a = addr(prng.randrange(4), prng.randrange(2**bankw) if prng.random() < 0.5 else 1,
                     prng.randrange(4))
            ops.append(dict(addr=a, we=prng.random() < 0.5, gap=prng.choice([0, 0, 0, 1, 3, 9])))
    elif pattern == "conflict":
        for i in range(ncmds):
            row = (i // prng.choice([1, 2, 3]) + port) % 2
            ops.append(dict(addr=addr(row, 2, prng.randrange(4)), we=prng.random() < 0.5,
                            gap=prng.choice([0, 0, 2])))
    elif pattern == "gaps":
        i = 0
        while i < ncmds:
            row, bank = prng.randrange(3), prng.choice([0, 3])
            burst = prng.randrange(1, 5)
            for k in range(burst):
                ops.append(dict(addr=addr(row, bank, prng.randrange(4)), we=prng.random() < 0.5,
                                gap=(prng.choice([40, 75, 110, 180]) if k == burst - 1 else 0)))
            i += burst
    else:
        raise ValueError(pattern)
    return ops

class Scoreboard:
    """Golden memory, updated at the moment a command is accepted on a port."""
    def __init__(self, nbytes):
        self.nbytes = nbytes
        self.mem    = {}
    def write(self, addr, data, we):
        old = self.mem.get(addr, 0)
        for b in range(self.nbytes):
            if (we >> b) & 1:
                old = (old & ~(0xff << (8*b))) | (data & (0xff << (8*b)))
        self.mem[addr] = old
    def read(self, addr):
        return self.mem.get(addr, 0)

def port_driver(dut, port, ops, sb, prng, stats, now):
    """Master: holds each command until accepted, offers write data together with the command and
    holds it until taken, always accepts read data."""
    dw     = len(port.wdata.data)
    nbytes = dw // 8
    expected = deque()   # (expected data, time the read was accepted)
    wpending = deque()   # (data, we, time the write was accepted or None)
    yield port.rdata.ready.eq(1)
    queue = deque(ops)
    cur, gap, offered_at = None, 0, None
    cmd_valid = 0
    wdata_valid = 0
    while queue or cur is not None or expected or wpending:
        # Decide what to drive in the coming cycle
        if cur is None and queue and gap == 0:
            cur = queue.popleft()
            offered_at = now[0]
            if cur["we"]:
                cur["data"] = prng.getrandbits(dw)
                cur["mask"] = prng.choice([2**nbytes - 1, 2**nbytes - 1, prng.getrandbits(nbytes)])
                wpending.append([cur["data"], cur["mask"], None])
        elif cur is None and gap > 0:
            gap -= 1
        cmd_valid = int(cur is not None)
        yield port.cmd.valid.eq(cmd_valid)
        if cur is not None:
            yield port.cmd.we.eq(int(cur["we"]))
            yield port.cmd.addr.eq(cur["addr"])
        wdata_valid = int(len(wpending) > 0)
        yield port.wdata.valid.eq(wdata_valid)
        if wpending:
            yield port.wdata.data.eq(wpending[0][0])
            yield port.wdata.we.eq(wpending[0][1])
        yield
        # Sample what happened in that cycle
        t = now[0]
        if cmd_valid and (yield port.cmd.ready):
            stats["accept"] = max(stats["accept"], t - offered_at)
            if cur["we"]:
                sb.write(cur["addr"], cur["data"], cur["mask"])
                for w in wpending:
                    if w[2] is None:
                        w[2] = t
                        break
            else:
                expected.append((sb.read(cur["addr"]), t, cur["addr"]))
            gap = cur["gap"]
            cur = None
            stats["cmds"] += 1
        if wdata_valid and (yield port.wdata.ready):
            w = wpending.popleft()
            check(w[2] is not None, "write data taken before its command was accepted")
            stats["complete"] = max(stats["complete"], t - w[2])
        if (yield port.rdata.valid):
            check(len(expected) > 0, "read data returned although no read is outstanding")
            exp, t0, a = expected.popleft()
            got = (yield port.rdata.data)
            check(got == exp, "C01: read of 0x{:x} returned 0x{:x}, expected 0x{:x}".format(a, got, exp))
            stats["complete"] = max(stats["complete"], t - t0)
            stats["reads"] += 1
        check(cur is None or t - offered_at < LATENCY_BOUND, "C05: command not accepted within bound")
        for _, t0, _ in expected:
            check(t - t0 < LATENCY_BOUND, "C05: read data not returned within bound")
        for w in wpending:
            check(w[2] is None or t - w[2] < LATENCY_BOUND, "C05: write data not taken within bound")
    stats["done"] += 1

# DFI monitor --------------------------------------------------------------------------------------

@passive
def dfi_monitor(dut, stats, now):
    s        = dut.controller.settings
    phy, geom, tim = s.phy, s.geom, s.timing
    nphases  = phy.nphases
    nbanks   = 2**geom.bankbits
    colbits  = geom.colbits
    iface    = dut.controller.interface
    align    = iface.address_align
    split    = colbits - align
    banks_if = [getattr(iface, "bank" + str(b)) for b in range(nbanks)]
    phases   = dut.phy.dfi.phases
    wl_sys   = math.ceil(phy.cwl / nphases)

    open_row = [None]*nbanks
    used     = [False]*nbanks  # a read/write was issued since the bank was activated
    queue    = [deque() for _ in range(nbanks)]   # requests accepted by bank b, not yet issued
    t_act    = [None]*nbanks
    t_pre    = [None]*nbanks   # last explicit precharge (or precharge-all)
    t_wr     = [None]*nbanks
    t_wrap   = [None]*nbanks   # last write with auto-precharge
    t_rdap   = [None]*nbanks
    t_ref = t_zq = t_any_act = t_cas = None

    def ge(t_from, dist, what):
        if t_from is not None and dist is not None:
            check(now[0] - t_from >= dist, "C03: {} violated ({} < {}) at cycle {}".format(
                what, now[0] - t_from, dist, now[0]))

    while True:
        yield
        now[0] += 1
        t = now[0]
        for b, bif in enumerate(banks_if):
            if (yield bif.valid) and (yield bif.ready):
                a = (yield bif.addr)
                queue[b].append(((yield bif.we), a >> split, (a & (2**split - 1)) << align))
        for p, ph in enumerate(phases):
            if (yield ph.cs_n) != 0:
                continue
            ras, cas, we = (1 - (yield ph.ras_n)), (1 - (yield ph.cas_n)), (1 - (yield ph.we_n))
            if not (ras or cas or we):
                stats["nop_addr"] += int((yield ph.address) != 0)  # information only
                continue
            b, a = (yield ph.bank), (yield ph.address)
            stats["dfi"] += 1
            if ras and not cas and not we:            # activate
                check(open_row[b] is None, "C02: activate of bank {} that is not precharged".format(b))
                ge(t_pre[b], tim.tRP, "tRP")
                ge(t_act[b], tim.tRC, "tRC")
                ge(t_ref, tim.tRFC, "tRFC")
                ge(t_zq, tim.tZQCS, "tZQCS")
                ge(t_any_act, tim.tRRD, "tRRD")
                if t_wrap[b] is not None:
                    ge(t_wrap[b], wl_sys + tim.tWR + tim.tRP, "write recovery + tRP after auto-precharge")
                ge(t_rdap[b], tim.tRP, "tRP after read with auto-precharge")
                open_row[b], t_act[b], t_any_act = a, t, t
                t_wrap[b] = t_rdap[b] = None
                used[b] = False
                stats["act"] += 1
            elif ras and not cas and we:              # precharge
                targets = range(nbanks) if (a >> 10) & 1 else [b]
                for x in targets:
                    if open_row[x] is not None:
                        stats["unused_act"] += int(not used[x])  # information only
                        ge(t_act[x], tim.tRAS, "tRAS")
                        ge(t_wr[x], wl_sys + tim.tWR, "write recovery before precharge")
                    open_row[x] = None
                    t_pre[x] = t
                stats["pre"] += 1
            elif cas and not ras:                     # read / write
                check(open_row[b] is not None, "C02: read/write to bank {} without open row".format(b))
                check(len(queue[b]) > 0, "C02: read/write on bank {} without a request".format(b))
                q_we, q_row, q_col = queue[b].popleft()
                check(q_we == we, "C02: direction differs from the request")
                check(q_row == open_row[b], "C02: open row 0x{:x} is not the requested row 0x{:x}".format(
                    open_row[b], q_row))
                check((a & (2**colbits - 1) & ~(1 << 10)) == q_col, "C02: column differs from the request")
                ge(t_act[b], tim.tRCD, "tRCD")
                ge(t_cas, tim.tCCD, "tCCD")
                t_cas = t
                used[b] = True
                if we:
                    check(p == phy.wrphase, "C02: write not on wrphase")
                    check((yield ph.wrdata_en), "C02: write without wrdata_en")
                    t_wr[b] = t
                else:
                    check(p == phy.rdphase, "C02: read not on rdphase")
                    check((yield ph.rddata_en), "C02: read without rddata_en")
                if (a >> 10) & 1:                     # auto-precharge
                    open_row[b] = None
                    if we:
                        t_wrap[b] = t
                    else:
                        t_rdap[b] = t
                    stats["ap"] += 1
            elif cas and ras and not we:              # refresh
                check(all(r is None for r in open_row), "C02: refresh with an open bank")
                for x in range(nbanks):
                    ge(t_pre[x], tim.tRP, "tRP before refresh")
                ge(t_ref, tim.tRFC, "tRFC")
                t_ref = t
                stats["ref"] += 1
            elif we and not ras and not cas:          # ZQ calibration
                check(all(r is None for r in open_row), "C02: ZQCS with an open bank")
                t_zq = t
            else:
                check(False, "unexpected DFI command ras={} cas={} we={}".format(ras, cas, we))

# Run ----------------------------------------------------------------------------------------------

def run_scenario(sc):
    prng = random.Random(sc["seed"])
    dut  = DUT(sc["module"], sc["nports"], sc.get("trefi"), sc.get("ctrl", {}))
    geom = dut.module.geom_settings
    port = dut.ports[0]
    aw   = len(port.cmd.addr)
    colw = geom.colbits - dut.controller.interface.address_align
    sb   = Scoreboard(len(port.wdata.data)//8)
    stats = dict(cmds=0, reads=0, accept=0, complete=0, done=0, dfi=0, act=0, pre=0, ap=0, ref=0,
                 nop_addr=0, unused_act=0)
    now  = [0]
    gens = [dfi_monitor(dut, stats, now)]
    for i, p in enumerate(dut.ports):
        ops = make_ops(sc["pattern"], prng, i, sc["nports"], sc["ncmds"], aw, colw, geom.bankbits)
        gens.append(port_driver(dut, p, ops, sb, random.Random(sc["seed"]*100 + i), stats, now))
    run_simulation(dut, gens)
    check(stats["done"] == sc["nports"], "a port did not finish")
    check(stats["cmds"] == sc["nports"]*sc["ncmds"] or sc["pattern"] == "gaps", "commands lost")
    check(stats["ref"] > 0, "scenario did not see a refresh")
    print("  {:34s} cycles={:5d} cmds={:3d} reads={:3d} act={:3d} pre={:3d} ap={:3d} ref={:2d} "
          "max accept={:3d} max complete={:3d}".format(sc["name"], now[0], stats["cmds"], stats["reads"],
          stats["act"], stats["pre"], stats["ap"], stats["ref"], stats["accept"], stats["complete"]))
    print("  {:34s} (information: NOP slots with a non-zero address={}, rows closed unused={})".format(
          "", stats["nop_addr"], stats["unused_act"]))

def main():
    print("litedram from", os.path.dirname(litedram.__file__))
    ok = True
    for sc in SCENARIOS:
        try:
            run_scenario(sc)
        except CheckError as e:
            ok = False
            print("  {:34s} FAIL: {}".format(sc["name"], e))
    print("PASS" if ok else "FAIL")
    sys.exit(0 if ok else 1)

if __name__ == "__main__":
    main()
