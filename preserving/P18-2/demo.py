#!/usr/bin/env python3
# C18 (rate converter part): every command of the slow (clkdiv) DFI shows up on the fast (clk) PHY
# DFI exactly once, in phase order, after the documented latency; write data / mask reach the PHY
# as one burst on clk cycle `write_delay`; read data of clk cycle `read_delay` comes back to the
# slow interface `des_latency` later.  Only the two DFI interfaces (ports) are observed.
#
# Passes on the unchanged code and with patch2 applied.

import sys, random
sys.path.insert(0, "/repo")

from migen import *
from litex.gen.sim.core import run_simulation

from litedram.phy.dfi import Interface, DFIRateConverter, phase_cmd_description
assert sys.modules["litedram"].__file__.startswith("/repo/"), sys.modules["litedram"].__file__

CMD_NAMES = [n for n, _, _ in phase_cmd_description(1, 1, 1)] + ["wrdata_en", "rddata_en"]


class Dut(Module):
    def __init__(self, ratio, nphases, nranks, write_delay, read_delay):
        self.ratio   = ratio
        self.phy_dfi = Interface(addressbits=15, bankbits=3, nranks=nranks, databits=32, nphases=nphases)
        self.submodules.converter = DFIRateConverter(self.phy_dfi, clkdiv="sys", clk=f"sys{ratio}x",
            ratio=ratio, serdes_reset_cnt=-1, write_delay=write_delay, read_delay=read_delay)
        self.dfi = self.converter.dfi


def run_config(ratio, nphases, nranks, write_delay, read_delay, seed, nslow=40, sparse=False):
    prng = random.Random(seed)
    dut  = Dut(ratio, nphases, nranks, write_delay, read_delay)
    P, R = nphases, ratio
    slow, fast = dut.dfi, dut.phy_dfi
    assert len(slow.phases) == P*R and len(slow.p0.wrdata)*R == len(fast.p0.wrdata)

    slow_drv, slow_rd = [], []   # per clkdiv cycle: driven m2s values / observed read values
    fast_obs, fast_drv = [], []  # per clk cycle: observed m2s values / driven read values

    def slow_gen():
        for c in range(nslow):
            cyc = []
            for ph in slow.phases:
                v = {}
                for name in CMD_NAMES + ["wrdata", "wrdata_mask"]:
                    sig = getattr(ph, name)
                    if sparse and name in CMD_NAMES and prng.random() < 0.6:
                        v[name] = sig.reset.value  # idle / NOP level
                    else:
                        v[name] = prng.getrandbits(len(sig))
                    yield sig.eq(v[name])
                cyc.append(v)
            slow_drv.append(cyc)
            rd = []
            for ph in slow.phases:
                rd.append(((yield ph.rddata), (yield ph.rddata_valid)))
            slow_rd.append(rd)
            yield

    def fast_gen():
        for k in range(nslow*R):
            obs = []
            for ph in fast.phases:
                v = {}
                for name in CMD_NAMES + ["wrdata", "wrdata_mask"]:
                    v[name] = (yield getattr(ph, name))
                obs.append(v)
            fast_obs.append(obs)
            cyc = []
            for ph in fast.phases:
                v = (prng.getrandbits(len(ph.rddata)), prng.getrandbits(1))
                yield ph.rddata.eq(v[0])
                yield ph.rddata_valid.eq(v[1])
                cyc.append(v)
            fast_drv.append(cyc)
            yield

    run_simulation(dut, {"sys": [slow_gen()], f"sys{R}x": [fast_gen()]},
        clocks={"sys": (4*R, 4*R/2 - 1), f"sys{R}x": (4, 1)})

    # -- commands: the fast stream is the slow stream flattened (clkdiv cycle, then slot, then PHY phase)
    expected = []  # per clk cycle (before latency), per PHY phase
    for c in range(nslow):
        for j in range(R):
            expected.append([{n: slow_drv[c][pi + P*j][n] for n in CMD_NAMES} for pi in range(P)])
    margin  = 4*R
    n_check = len(expected) - margin
    def cmds(k):
        return [{n: fast_obs[k][pi][n] for n in CMD_NAMES} for pi in range(P)]
    cmd_offsets = [d for d in range(margin) if all(cmds(k + d) == expected[k] for k in range(n_check))]
    assert len(cmd_offsets) == 1, f"commands not delivered exactly once / in order (offsets {cmd_offsets})"
    d = cmd_offsets[0]

    # -- write data: burst of clkdiv cycle c is on the PHY on clk cycle c*R + write_delay (+ same latency)
    for c in range(nslow - 4):
        k = c*R + write_delay + d
        for pi in range(P):
            for name in ["wrdata", "wrdata_mask"]:
                w   = len(getattr(slow.p0, name))
                exp = sum(slow_drv[c][pi*R + j][name] << (j*w) for j in range(R))
                got = fast_obs[k][pi][name]
                assert got == exp, f"{name} burst {c} phy phase {pi}: {got:#x} != {exp:#x}"

    # -- read data: PHY data of clk cycle c*R + read_delay comes back as one slow-cycle burst
    def rd_expected(c, t):
        k = c*R + read_delay - t
        if k < 0:
            return None
        out = []
        w   = len(slow.p0.rddata)
        for pi in range(P):
            data, valid = fast_drv[k][pi]
            out += [((data >> (j*w)) & (2**w - 1), valid) for j in range(R)]
        return out
    rd_offsets = []
    for t in range(-R, margin):
        pairs = [(slow_rd[c], rd_expected(c, t)) for c in range(6, nslow - 2)]
        if all(exp is not None and got == exp for got, exp in pairs):
            rd_offsets.append(t)
    assert len(rd_offsets) == 1, f"read data not returned consistently (offsets {rd_offsets})"
    return d, rd_offsets[0], dut.converter.ser_latency, dut.converter.des_latency


def main():
    seed = 100
    for ratio in [2, 4]:
        seen = set()
        for nphases in [1, 2, 4]:
            for nranks in [1, 2]:
                delays = [(x, x) for x in range(ratio)] + [(0, ratio - 1), (ratio - 1, 0)]
                for write_delay, read_delay in delays:
                    seed += 1
                    res = run_config(ratio, nphases, nranks, write_delay, read_delay, seed,
                        sparse=bool(seed % 2))
                    seen.add(res)
        # Same latency whatever the phase count / ranks / delays...
        assert len(seen) == 1, seen
        d, t, ser_latency, des_latency = seen.pop()
        print(f"ratio={ratio}: command latency {d} clk cycles, read return offset {t} clk cycles "
              f"(ser_latency={ser_latency}, des_latency={des_latency} clkdiv cycles)")
        # ... and it is the documented one: ser_latency / des_latency clkdiv cycles. The constant extra
        # (1 clk cycle / 1 clkdiv cycle) is how the testbench generators sample relative to the edges.
        assert d == ser_latency*ratio + 1, d
        assert t == (des_latency + 1)*ratio, t
    print("PASS")


if __name__ == "__main__":
    main()
