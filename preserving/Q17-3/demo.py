#!/usr/bin/env python3
# demo3: C17 - "the C and Python renderings describe the same sequence", RDIMM and clam-shell variants.
#
# The C header and the Python header are parsed back into lists of DFI operations and fed to a
# model of the board: an RCD (registered DIMM) that forwards every command unchanged to the A-side
# DRAMs and with A3-A9/A11/A13/BA/BG inverted to the B-side DRAMs (a DRAM ignores a Mode Register
# Set whose BG1 is high; ba == 7 addresses the RCD itself), and clam-shell bottom chips that see
# mirrored address pins. At the end every DRAM (A/B side, top/bottom) must hold exactly the mode
# registers of the plain (unbuffered) sequence, and these decode to the CL/CWL/BL of the PHY; the
# two renderings must agree operation by operation. Nothing is matched by comment text or position.
# Works on the unchanged code and with patch3 applied. Exits 0 and prints PASS.
import sys, re
sys.path.insert(0, "/repo")

import litedram
assert litedram.__file__.startswith("/repo/"), litedram.__file__
from litedram.common import PhySettings, GeomSettings
from litedram import modules as M
from litedram.init import get_sdram_phy_init_sequence, get_sdram_phy_c_header, get_sdram_phy_py_header

MRS_C  = "DFII_COMMAND_RAS|DFII_COMMAND_CAS|DFII_COMMAND_WE|DFII_COMMAND_CS"
INV_A, INV_BA = 0b10101111111000, 0b1111

def swap(v, i, j):
    bi, bj = (v >> i) & 1, (v >> j) & 1
    v &= ~((1 << i) | (1 << j))
    return v | (bi << j) | (bj << i)

def mirror(a, ba):
    for i, j in ((3, 4), (5, 6), (7, 8), (11, 13)):
        a = swap(a, i, j)
    return a, swap(ba, 0, 1)

def parse_c(text):
    body = text[text.index("static inline void init_sequence(void)"):]
    ops, cur = [], None
    for line in body.splitlines():
        line = line.strip()
        m = re.fullmatch(r"/\* (.*) \*/", line)
        if m: cur = dict(comment=m.group(1), delay=0); ops.append(cur); continue
        m = re.fullmatch(r"sdram_dfii_pi0_address_write\((\w+)\);", line)
        if m: cur["a"] = int(m.group(1), 0); continue
        m = re.fullmatch(r"sdram_dfii_pi0_baddress_write\((\w+)\);", line)
        if m: cur["ba"] = int(m.group(1), 0); continue
        m = re.fullmatch(r"(command_p0|sdram_dfii_control_write)\((.*)\);", line)
        if m: cur["kind"] = m.group(1); cur["cmd"] = m.group(2); continue
        m = re.fullmatch(r"cdelay\((\d+)\);", line)
        if m: cur["delay"] = int(m.group(1)); continue
        assert line in ("", "{", "}", "static inline void init_sequence(void)", "#endif /* __GENERATED_SDRAM_PHY_H */"), line
    return ops

def parse_py(text):
    ns = {}
    exec(text, ns)
    return ns["init_sequence"], ns

def cval(cmd, ns):
    v = 0
    for tok in cmd.split("|"):
        tok = tok.strip().lower()
        v |= {"dfii_command_cs_top": 0x40, "dfii_command_cs_bottom": 0x80}.get(tok) or ns[tok]
    return v

class Board:
    """DRAM mode registers per (side, position); side in "AB", position in ("top", "bottom")."""
    def __init__(self, rdimm, clam):
        self.rdimm, self.clam = rdimm, clam
        self.drams = {(s, p): {} for s in ("AB" if rdimm else "A") for p in (("top", "bottom") if clam else ("top",))}
        self.rcd = []
    def mrs(self, a, ba, cs_top=True, cs_bottom=True):
        if self.rdimm and ba == 7:
            self.rcd.append(a); return
        for (side, pos), regs in self.drams.items():
            if (pos == "top" and not cs_top) or (pos == "bottom" and not cs_bottom):
                continue
            xa, xba = a, ba
            if side == "B":
                xa, xba = xa ^ INV_A, xba ^ INV_BA
            if pos == "bottom":
                xa, xba = mirror(xa, xba)
            if xba & 0b1000:       # BG1 high: not a mode register of the DRAM (used to address the other side)
                continue
            regs[xba] = xa

DDR4_CL = {0: 9, 1: 10, 2: 11, 3: 12, 4: 13, 5: 14, 6: 15, 7: 16, 8: 18, 9: 20, 10: 22, 11: 24, 12: 23,
           13: 17, 14: 19, 15: 21}
DDR4_CWL = {0: 9, 1: 10, 2: 11, 3: 12, 4: 14, 5: 16, 6: 18, 7: 20}

def phy(memtype, nphases, cl, cwl=None):
    return PhySettings(phytype="DEMOPHY", memtype=memtype, databits=64, dfi_databits=128, nphases=nphases,
        rdphase=1, wrphase=2, cl=cl, cwl=cwl, read_latency=cl + 2, write_latency=1, write_leveling=True,
        read_leveling=True, delays=32, bitslips=8)

errors = []
def expect(cond, *what):
    if not cond:
        errors.append(what)

geom = GeomSettings(bankbits=4, rowbits=16, colbits=10)
nscen = 0
for cls, clk in ((M.MTA18ASF2G72PZ, 125e6), (M.HMA82GR7DJR4N, 200e6), (M.MT40A1G8, 150e6)):
    for cl, cwl in ((9, 9), (11, 9), (13, 10), (15, 11), (16, 12), (18, 14)):
        for frm in ("1x", "2x", "4x"):
            for rdimm in (False, True):
                for clam in (False, True):
                    nscen += 1
                    tag = (cls.__name__, clk, cl, cwl, frm, "rdimm" if rdimm else "", "clam" if clam else "")
                    ts = cls(clk, "1:4", fine_refresh_mode=frm).timing_settings
                    ps = phy("DDR4", 4, cl, cwl)
                    if rdimm:
                        ps.set_rdimm(tck=1/(4*clk), rcd_pll_bypass=False, rcd_ca_cs_drive=0x5,
                                     rcd_odt_cke_drive=0xA, rcd_clk_drive=0x5)
                    ps.is_clam_shell = clam

                    # plain sequence: what every DRAM has to end up with
                    seq, _ = get_sdram_phy_init_sequence(ps, ts)
                    want = {ba: a for _, a, ba, cmd, _ in seq if cmd == MRS_C and not (rdimm and ba == 7)}
                    want_rcd = [a for _, a, ba, cmd, _ in seq if cmd == MRS_C and rdimm and ba == 7]
                    expect(sorted(want) == list(range(7)), tag, "mode registers", sorted(want))
                    m0, m2 = want[0], want[2]
                    expect(DDR4_CL[((m0 >> 12) & 1) << 4 | ((m0 >> 4) & 7) << 1 | ((m0 >> 2) & 1)] == cl, tag, "CL")
                    expect(DDR4_CWL[(m2 >> 3) & 7] == cwl and m0 & 3 == 0, tag, "CWL/BL")
                    expect((want[3] >> 6) & 7 == {"1x": 0, "2x": 1, "4x": 2}[frm], tag, "fine refresh mode")

                    c_ops = parse_c(get_sdram_phy_c_header(ps, ts, geom))
                    py_ops, ns = parse_py(get_sdram_phy_py_header(ps, ts))

                    # C rendering on the board
                    board = Board(rdimm, clam)
                    for o in c_ops:
                        names = set(o["cmd"].split("|"))
                        if o["kind"] == "command_p0" and names >= set(MRS_C.split("|")):
                            top = "DFII_COMMAND_CS_TOP" in names; bot = "DFII_COMMAND_CS_BOTTOM" in names
                            if not clam:
                                expect(not top and not bot, tag, "CS_TOP/BOTTOM without clam shell")
                                top = bot = True
                            else:
                                expect(top != bot, tag, "clam shell MRS must select exactly one side")
                            board.mrs(o["a"], o["ba"], top, bot)
                    for key, regs in board.drams.items():
                        expect(regs == want, tag, "C rendering: DRAM", key, "holds", regs, "instead of", want)
                    if not clam:   # (a registered clam-shell board does not exist: no model for its RCD wiring)
                        expect(board.rcd == want_rcd, tag, "C rendering: RCD control words")

                    # Python rendering on the board (it has no notion of clam shell: top == bottom address)
                    if not clam:
                        board = Board(rdimm, False)
                        for _, a, ba, v, _ in py_ops:
                            if v == cval(MRS_C, ns):
                                board.mrs(a, ba)
                        for key, regs in board.drams.items():
                            expect(regs == want, tag, "Python rendering: DRAM", key, "holds", regs)
                        expect(board.rcd == want_rcd, tag, "Python rendering: RCD control words")

                    # both renderings, operation by operation
                    c_flat = [(o["comment"], o["a"], o["ba"], cval(o["cmd"], ns), o["delay"]) for o in c_ops]
                    if not clam:
                        expect(c_flat == [tuple(e) for e in py_ops], tag, "C and Python renderings differ")
                    else:
                        c_top = [(a, ba, v & 0x3f, d) for _, a, ba, v, d in c_flat if not v & 0x80]
                        expect(c_top == [(a, ba, v, d) for _, a, ba, v, d in py_ops], tag,
                               "C (top chips) and Python renderings differ")
                    # the order of the plain sequence is kept, delays included
                    plain = [(a, ba, cval(cmd, ns), d) for _, a, ba, cmd, d in seq]
                    a_side = [(a, ba, v, d) for _, a, ba, v, d in py_ops if not ((rdimm and ba & 0b1000))]
                    expect(a_side == plain, tag, "A-side view of the Python rendering is not the plain sequence")

# the other memory types: both renderings are the plain sequence
for memtype, cls, clk, nph, cl, cwl in (("SDR", M.MT48LC16M16, 100e6, 1, 2, None), ("DDR", M.MT46V32M16, 100e6, 2, 3, None),
        ("LPDDR", M.MT46H32M16, 83e6, 2, 3, None), ("DDR2", M.MT47H64M16, 133e6, 2, 5, 4),
        ("DDR3", M.MT41K128M16, 100e6, 4, 7, 6), ("LPDDR4", M.MT53E256M16D1, 50e6, 8, 14, 8)):
    nscen += 1
    ts = cls(clk, "1:{}".format(nph)).timing_settings
    ps = phy(memtype, nph, cl, cwl)
    seq, _ = get_sdram_phy_init_sequence(ps, ts)
    c_ops = parse_c(get_sdram_phy_c_header(ps, ts, geom))
    py_ops, ns = parse_py(get_sdram_phy_py_header(ps, ts))
    expect([(o["comment"], o["a"], o["ba"], o["cmd"], o["delay"]) for o in c_ops] == [tuple(e) for e in seq], memtype, "C")
    expect([tuple(e) for e in py_ops] == [(c, a, ba, cval(cmd, ns), d) for c, a, ba, cmd, d in seq], memtype, "Python")

# shipped reference headers (unbuffered DIMMs): still reproduced
class _TS: pass
for name, ps, frm in (("sdr", phy("SDR", 1, 2), None), ("ddr3", phy("DDR3", 4, 7, 6), None), ("ddr4", phy("DDR4", 4, 9, 9), "1x")):
    ts = _TS(); ts.tWTR = 2; ts.fine_refresh_mode = frm
    ref = open("/repo/test/reference/{}_init.py".format(name)).read()
    expect(get_sdram_phy_py_header(ps, ts) == ref, name, "reference Python header not reproduced")
    cref = open("/repo/test/reference/{}_init.h".format(name)).read()
    body = lambda t: t[t.index("static inline void init_sequence(void)"):]
    expect(body(get_sdram_phy_c_header(ps, ts, geom)) == body(cref), name, "reference C init_sequence() not reproduced")

for e in errors[:20]:
    print("VIOLATION", e)
print("scenarios: {}, violations: {}".format(nscen, len(errors)))
if errors:
    print("FAIL"); sys.exit(1)
print("PASS")
