#!/usr/bin/env python3
# Demo for change 2 (litedram/phy/dfi.py): DFIRateConverter.
#
# Random slow-clock DFI traffic (commands with random field values on random phases, write data and
# masks on every phase, back-to-back) is driven into the converter and random read data is driven
# into the PHY side.  An independent reference (pure Python, below) predicts
#   - the PHY-side interface on every fast-clock cycle: each command exactly once, phase q of the
#     slow interface on PHY phase q % P in fast slot q // P of the next slow cycle (Serializer
#     latency 1), write data/mask of a slow cycle on the `write_delay` slot, zero elsewhere;
#   - the slow-side read data: PHY data of slot `read_delay` of slow cycle N shows up in slow cycle
#     N + 2 (Deserializer latency), rddata_valid replicated over the `ratio` phases of the burst.
# Ratios 2 and 4, several phase counts, every write/read delay.  Exits 0 and prints PASS.

import sys, random
sys.path.insert(0, "/repo")

from migen import *

import litedram
assert litedram.__file__.startswith("/repo/"), litedram.__file__
from litedram.phy.dfi import Interface as DFIInterface, DFIRateConverter
from litedram.phy.utils import Serializer, Deserializer
from test.phy_common import DFISequencer, dfi_reset_values, run_simulation as _run_simulation

CMD_SIGS = ["address", "bank", "cas_n", "cs_n", "ras_n", "we_n", "cke", "odt", "reset_n", "act_n",
            "wrdata_en", "rddata_en"]


class Dut(Module):
    def __init__(self, ratio, write_delay, read_delay, **dfi_kwargs):
        self.ratio   = ratio
        self.dfi_old = DFIInterface(**dfi_kwargs)
        self.submodules.converter = DFIRateConverter(self.dfi_old, clkdiv="sys", clk=f"sys{ratio}x",
            ratio=ratio, serdes_reset_cnt=-1, write_delay=write_delay, read_delay=read_delay)
        self.dfi = self.converter.dfi


def run_case(ratio, P, databits, nranks, write_delay, read_delay, seed, ncycles=40):
    rng = random.Random(seed)
    abits, bbits = 15, 3
    dut = Dut(ratio, write_delay, read_delay,
              addressbits=abits, bankbits=bbits, nranks=nranks, databits=databits, nphases=P)
    S      = P*ratio                # slow phases
    sbits  = databits//ratio        # slow databits
    widths = dict(address=abits, bank=bbits, cas_n=1, cs_n=nranks, ras_n=1, we_n=1, cke=nranks,
                  odt=nranks, reset_n=1, act_n=1, wrdata_en=1, rddata_en=1)

    # ---- stimulus ----------------------------------------------------------------------------
    slow = []   # per slow cycle: {phase: {sig: val}} (outputs of the controller)
    for T in range(ncycles):
        cyc = {}
        busy = rng.random() < 0.7
        for q in range(S):
            vals = {}
            if busy and rng.random() < 0.6:
                for sig in CMD_SIGS:
                    vals[sig] = rng.getrandbits(widths[sig])
            if busy and rng.random() < 0.8:
                vals["wrdata"]      = rng.getrandbits(sbits)
                vals["wrdata_mask"] = rng.getrandbits(sbits//8)
            cyc[q] = vals
        slow.append(cyc)
    nfast = (ncycles + 2)*ratio
    phy_in = []  # per fast cycle: {phase: {rddata, rddata_valid}}
    for f in range(nfast):
        cyc = {}
        for pi in range(P):
            if rng.random() < 0.6:
                cyc[pi] = dict(rddata=rng.getrandbits(databits), rddata_valid=rng.getrandbits(1))
        phy_in.append(cyc)

    # ---- reference: PHY side --------------------------------------------------------------------
    def slow_val(T, q, sig):
        d = dfi_reset_values()
        d.update(slow[T].get(q, {}))
        return d[sig]

    lat = ratio*Serializer.LATENCY
    # before the sequencer first drives the slow interface it holds its reset values
    nop = {p: dict(reset_n=0, cs_n=2**nranks - 1) for p in range(P)}
    expected = [nop]*lat
    for T in range(ncycles):
        for j in range(ratio):
            cyc = {}
            for pi in range(P):
                vals = {sig: slow_val(T, pi + P*j, sig) for sig in CMD_SIGS}
                if j == write_delay:
                    vals["wrdata"]      = sum(slow_val(T, pi*ratio + k, "wrdata") << (k*sbits)
                                              for k in range(ratio))
                    vals["wrdata_mask"] = sum(slow_val(T, pi*ratio + k, "wrdata_mask") << (k*sbits//8)
                                              for k in range(ratio))
                else:
                    vals["wrdata"], vals["wrdata_mask"] = 0, 0
                cyc[pi] = vals
            expected.append(cyc)

    # ---- reference: read data on the slow side ------------------------------------------------------
    rd_expected = []
    for T in range(ncycles):
        cyc = {}
        N = T - Deserializer.LATENCY
        for pi in range(P):
            src = phy_in[N*ratio + read_delay].get(pi, {}) if N >= 0 else {}
            data, valid = src.get("rddata", 0), src.get("rddata_valid", 0)
            for k in range(ratio):
                cyc[pi*ratio + k] = dict(rddata=(data >> (k*sbits)) & (2**sbits - 1), rddata_valid=valid)
        rd_expected.append(cyc)

    # slow sequence = outputs + expected inputs (DFISequencer splits them)
    seq = []
    for T in range(ncycles):
        cyc = {}
        for q in range(S):
            v = dict(slow[T].get(q, {}))
            v.update(rd_expected[T][q])
            cyc[q] = v
        seq.append(cyc)
    sequencer = DFISequencer(seq)

    errors = []
    counts = dict(cmds=0, wr_slots=0, rd_valid=0)

    def checker(dfi):
        yield
        for i, cyc in enumerate(expected):
            for pi in range(P):
                ref = dfi_reset_values()
                ref.update(cyc.get(pi, {}))
                for name, r in ref.items():
                    if name in ["rddata", "rddata_valid"]:
                        continue
                    v = (yield getattr(dfi.phases[pi], name))
                    if v != r:
                        errors.append(f"fast cycle {i} p{pi}.{name} = {v:#x} != {r:#x}")
                if i >= lat:
                    counts["cmds"] += int(ref["cs_n"] != 2**nranks - 1)
                    counts["wr_slots"] += int(ref["wrdata"] != 0)
            yield

    _run_simulation(dut, generators={
        "sys":           [sequencer.generator(dut.dfi), sequencer.reader(dut.dfi)],
        f"sys{ratio}x":  [checker(dut.dfi_old), DFISequencer.input_generator(dut.dfi_old, phy_in)],
    }, clocks={"sys": (4*ratio, 4*ratio/2 - 1), f"sys{ratio}x": (4, 1)})

    # compare read side
    for T, (got, exp) in enumerate(zip(sequencer.read_sequence, sequencer.expected_sequence)):
        for q in exp:
            counts["rd_valid"] += exp[q]["rddata_valid"]
            for sig in ["rddata", "rddata_valid"]:
                # rddata is only meaningful under rddata_valid
                if sig == "rddata" and not exp[q]["rddata_valid"]:
                    continue
                if got[q][sig] != exp[q][sig]:
                    errors.append(f"slow cycle {T} p{q}.{sig} = {got[q][sig]:#x} != {exp[q][sig]:#x}")
    assert len(sequencer.read_sequence) == ncycles
    return errors, counts


def main():
    ok = True
    cases = []
    for wd in range(2):
        cases.append(dict(ratio=2, P=4, databits=32, nranks=1, write_delay=wd, read_delay=1 - wd))
        cases.append(dict(ratio=2, P=1, databits=16, nranks=2, write_delay=wd, read_delay=wd))
    for d in range(4):
        cases.append(dict(ratio=4, P=2, databits=64, nranks=1, write_delay=d, read_delay=(d + 1) % 4))
        cases.append(dict(ratio=4, P=1, databits=32, nranks=2, write_delay=d, read_delay=d))
    for i, c in enumerate(cases):
        errors, counts = run_case(seed=4200 + i, **c)
        print(c, counts, "errors:", len(errors))
        for e in errors[:5]:
            print("   ", e)
        ok = ok and not errors and all(v > 0 for v in counts.values())
    print("PASS" if ok else "FAIL")
    sys.exit(0 if ok else 1)


if __name__ == "__main__":
    main()
