#!/usr/bin/env python3
# Demo for change 1 (LiteDRAMCrossbar.get_port: sizes of the clock-domain-crossing FIFOs).
#
# Checks C08 through the real LiteDRAMCrossbar: ports obtained with get_port(clock_domain=...)
# (native width and a 2x wider port, i.e. CDC + down-converter) next to a plain "sys" port that
# competes for the same banks. The controller is the stub used by the repository's crossbar
# tests (test/test_crossbar.py): it samples write data blindly `write_latency` after the command
# was issued and returns read data (a running counter) without looking at rdata.ready.
#
# For every port: the stub must have seen exactly the port's writes (bank, address, data, byte
# enables) in the port's order, exactly the port's reads in order, and the port must have
# received exactly the words the stub returned for its reads, once and in order - whatever the
# clocks, however long the user stalls the read data, however many reads are pipelined.

import sys
import random

sys.path.insert(0, "/repo")

from migen import *

import litedram
assert litedram.__file__.startswith("/repo/"), litedram.__file__

from test.test_crossbar import CrossbarDUT, ControllerStub

NATIVE_DW = 64
NBANKS    = 2

class User:
    """ops: ("w", bank, col, data, we) / ("r", bank, col); write data is handed over (clock domain crossing
    ports) or at least presented (plain port) before its command."""
    def __init__(self, dut, port, num, ops, seed, gap, rstall):
        self.dut, self.port, self.num, self.ops = dut, port, num, ops
        self.prng   = random.Random(seed)
        self.gap    = gap
        self.rstall = rstall
        self.ratio  = port.data_width//NATIVE_DW
        self.wsent  = 0
        self.rdata  = []
        self.nreads = sum(1 for op in ops if op[0] == "r")

    def addr(self, bank, col):
        # row = port number: lets us attribute what the controller sees to a port
        a = self.dut.addr_port(bank=bank, row=self.num, col=col)
        assert a % self.ratio == 0
        return a//self.ratio

    def cmd_gen(self):
        port = self.port
        nw = 0
        for op in self.ops:
            while self.prng.randrange(100) < self.gap:
                yield
            if op[0] == "w":
                nw += 1
                while self.wsent < nw:
                    yield
            yield port.cmd.valid.eq(1)
            yield port.cmd.we.eq(int(op[0] == "w"))
            yield port.cmd.addr.eq(self.addr(op[1], op[2]))
            yield
            while not (yield port.cmd.ready):
                yield
            yield port.cmd.valid.eq(0)
        while len(self.rdata) < self.nreads:
            yield
        for _ in range(300):
            yield

    @passive
    def wdata_gen(self):
        port = self.port
        for op in self.ops:
            if op[0] != "w":
                continue
            yield port.wdata.valid.eq(1)
            yield port.wdata.data.eq(op[3])
            yield port.wdata.we.eq(op[4])
            if port.clock_domain == "sys":
                # no FIFO on a plain port: the data is only taken once the command is executed
                self.wsent += 1
            yield
            while not (yield port.wdata.ready):
                yield
            if port.clock_domain != "sys":
                self.wsent += 1
            yield port.wdata.valid.eq(0)
        while True:
            yield

    @passive
    def rdata_gen(self):
        port = self.port
        ready_d, cycle = 0, 0
        while True:
            if ready_d and (yield port.rdata.valid):
                self.rdata.append((yield port.rdata.data))
            ready_d = int(not self.rstall(cycle, self.prng))
            yield port.rdata.ready.eq(ready_d)
            cycle += 1
            yield

    # What the controller must see for this port (native words), writes and reads separately.
    def expected(self):
        writes, reads = [], []
        for op in self.ops:
            for i in range(self.ratio):
                a = self.dut.addr_iface(row=self.num, col=op[2]) + i
                if op[0] == "w":
                    data = (op[3] >> (NATIVE_DW*i)) & (2**NATIVE_DW - 1)
                    we   = (op[4] >> (NATIVE_DW//8*i)) & (2**(NATIVE_DW//8) - 1)
                    writes.append((op[1], a, data, we))
                else:
                    reads.append((op[1], a))
        return writes, reads

@passive
def timeout(n):
    for _ in range(n):
        yield
    raise TimeoutError

def make_ops(seed, n, dw, pw, burst=None):
    prng = random.Random(seed)
    ops  = []
    for i in range(n):
        bank = prng.randrange(NBANKS)
        col  = 8*i  # 8 columns = 2 native words: aligned for the 2x wider port as well
        if burst is not None:
            is_w = not (burst[0] <= i < burst[1])
        else:
            is_w = prng.randrange(100) < pw
        if is_w:
            ops.append(("w", bank, col, prng.getrandbits(dw), prng.choice([2**(dw//8) - 1, prng.getrandbits(dw//8) | 1])))
        else:
            ops.append(("r", bank, col))
    return ops

def run(name, clocks, specs, sys_cycles=3000):
    """specs: list of (clock_domain, data_width, ops kwargs, gap, rstall)"""
    dut   = CrossbarDUT(geom_settings=dict(bankbits=NBANKS.bit_length() - 1))  # few banks: simulation speed
    stub  = ControllerStub(dut.interface,
        write_latency = dut.settings.phy.write_latency,
        read_latency  = dut.settings.phy.read_latency,
        cmd_delay     = lambda: 3)
    users = []
    generators = {"sys": [*stub.generators(), timeout(sys_cycles)]}
    for num, (cd, dw, ops_kwargs, gap, rstall) in enumerate(specs):
        port = dut.crossbar.get_port(clock_domain=cd, data_width=dw)
        assert port.clock_domain == cd and port.data_width == dw
        user = User(dut, port, num, make_ops(dw=dw, **ops_kwargs), seed=num, gap=gap, rstall=rstall)
        users.append(user)
        generators.setdefault(cd, [])
        generators[cd] += [user.cmd_gen(), user.wdata_gen(), user.rdata_gen()]
    problems = []
    try:
        run_simulation(dut, generators, clocks)
    except TimeoutError:
        problems.append("timeout (words or commands lost?)")
    shift = dut.settings.geom.colbits - dut.address_align
    for user in users:
        seen_w = [(d.bank, d.addr, d.data, d.we) for d in stub.data
                  if isinstance(d, stub.W) and (d.addr >> shift) == user.num]
        seen_r = [d for d in stub.data if isinstance(d, stub.R) and (d.addr >> shift) == user.num]
        exp_w, exp_r = user.expected()
        if seen_w != exp_w:
            problems.append("port %d: writes seen by the controller differ" % user.num)
        if [(d.bank, d.addr) for d in seen_r] != exp_r:
            problems.append("port %d: reads seen by the controller differ" % user.num)
        words = [d.data for d in seen_r]
        exp_rdata = [sum(w << (NATIVE_DW*i) for i, w in enumerate(words[k:k + user.ratio]))
                     for k in range(0, len(words), user.ratio)]
        if user.rdata != exp_rdata:
            problems.append("port %d: read data differs (%d words, %d expected)" % (
                user.num, len(user.rdata), len(exp_rdata)))
    print("%-50s %s" % (name, "ok" if not problems else "FAIL: " + "; ".join(problems[:3])))
    return not problems

def main():
    never    = lambda c, p: False
    random30 = lambda c, p: p.randrange(100) < 30
    ok = True
    # Mixed traffic, three ports: fast user clock, slow user clock, sys.
    specs = [
        ("fast", 64, dict(seed=1, n=20, pw=50), 10, random30),
        ("slow", 64, dict(seed=2, n=12, pw=50), 10, random30),
        ("sys",  64, dict(seed=3, n=20, pw=50), 30, never),
    ]
    ok &= run("mixed, fast=4 slow=23(+5) sys=10", {"sys": 10, "fast": 4, "slow": (23, 5)}, specs)
    ok &= run("mixed, fast=9 slow=11 sys=10 (drifting)", {"sys": 10, "fast": 9, "slow": 11}, specs)
    # Long read burst (40 reads in a row between writes) while the user does not take any read data for a
    # long time: everything in flight has to be kept somewhere, in order.
    burst = [("usr", 64, dict(seed=4, n=48, pw=0, burst=(4, 44)), 0, lambda c, p: c < 1300 or p.randrange(100) < 50)]
    ok &= run("read burst, stalled consumer, usr=4 sys=10", {"sys": 10, "usr": 4}, burst)
    burst = [("usr", 64, dict(seed=5, n=48, pw=0, burst=(4, 44)), 0, lambda c, p: (c % 120) < 100)]
    ok &= run("read burst, stalling consumer, usr=(17,3) sys=10", {"sys": 10, "usr": (17, 3)}, burst)
    # Clock domain crossing composed with width conversion (user port twice as wide as the controller's).
    wide = [
        ("usr", 128, dict(seed=6, n=16, pw=50), 10, random30),
        ("sys", 64,  dict(seed=7, n=16, pw=50), 10, never),
    ]
    ok &= run("2x wider port + sys port, usr=(7,4) sys=10", {"sys": 10, "usr": (7, 4)}, wide)
    wide = [
        ("usr", 128, dict(seed=8, n=16, pw=30), 0, lambda c, p: (c % 200) < 120),
        ("usr", 64,  dict(seed=9, n=16, pw=50), 10, random30),
    ]
    ok &= run("2x wider port + native port, usr=13 sys=10", {"sys": 10, "usr": 13}, wide)
    print("PASS" if ok else "FAIL")
    sys.exit(0 if ok else 1)

if __name__ == "__main__":
    main()
