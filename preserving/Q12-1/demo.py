#!/venv/bin/python
# Demo 1 (C12, DMA reader): exactly one word per accepted address, in address order, end-of-stream
# mark on the matching word, never more reads outstanding than the FIFO can hold and no returned
# word lost, for native and AXI ports, several FIFO depths, buffered/unbuffered, random memory
# latencies, random command back-pressure and long consumer stalls.
#
# Only public pins are used (sink/source of the DMA, cmd/rdata or ar/r of the port).
# The stimulus runs in the "sys" domain; a read-only monitor runs on a phase shifted clock ("mon")
# so that it sees, for every sys cycle, the final settled values of that cycle (registers of the
# cycle and the inputs driven in the cycle), i.e. exactly what the next sys clock edge acts upon.

import sys
sys.path.insert(0, "/repo")

import random

from migen import *

from litedram.common import LiteDRAMNativePort
from litedram.frontend.axi import LiteDRAMAXIPort
from litedram.frontend.dma import LiteDRAMDMAReader


def mem_word(addr, data_width):
    return (addr*0x9e3779b1 + 0x1234567) & (2**data_width - 1)


class Env:
    """Producer of addresses, memory model, consumer; shared between driver and monitor."""
    def __init__(self, dut, kind, addrs, lasts, fifo_depth, seed, stall_style):
        self.dut, self.kind       = dut, kind
        self.addrs, self.lasts    = addrs, lasts
        self.fifo_depth           = fifo_depth
        self.prng                 = random.Random(seed)
        self.stall_style          = stall_style
        self.idx                  = 0      # Next address to offer.
        self.offering             = False
        self.cycle                = 0
        self.inflight             = []     # [addr, earliest cycle of the response]
        self.presenting           = None   # Response on the bus in the current cycle.
        self.accepted             = []     # Addresses accepted on sink.
        self.issued               = []     # Addresses accepted by the port.
        self.received             = []     # (data, last) on source.
        self.errors               = []
        self.max_outstanding      = 0
        self.stall_left           = 0
        self.done                 = False

    # Stimulus (sys domain) ------------------------------------------------------------------------
    def consumer_ready(self):
        p = self.prng
        if self.stall_style == "fast":
            return 1
        if self.stall_style == "random":
            return int(p.random() < 0.5)
        # "long": long stalls (much longer than any FIFO depth / latency), short bursts.
        if self.stall_left:
            self.stall_left -= 1
            return 0
        if p.random() < 0.08:
            self.stall_left = p.randrange(40, 120)
            return 0
        return 1

    def driver(self):
        dma, port = self.dut.dma, self.dut.port
        cmd, rdata = (port.cmd, port.rdata) if self.kind == "native" else (port.ar, port.r)
        p = self.prng
        while not self.done:
            # Producer: once valid is raised the address is held until accepted.
            if not self.offering and self.idx < len(self.addrs) and p.random() < 0.7:
                self.offering = True
            if self.offering and self.idx < len(self.addrs):
                yield dma.sink.valid.eq(1)
                yield dma.sink.address.eq(self.addrs[self.idx])
                yield dma.sink.last.eq(self.lasts[self.idx])
            else:
                yield dma.sink.valid.eq(0)
                yield dma.sink.address.eq(p.getrandbits(16))  # Don't care when not valid.
                yield dma.sink.last.eq(p.getrandbits(1))
            # Port command channel.
            yield cmd.ready.eq(int(p.random() < 0.6))
            # Port response channel.
            if self.kind == "native":
                # The controller never waits for rdata.ready: one cycle pulse per word.
                self.presenting = None
                if self.inflight and self.inflight[0][1] <= self.cycle:
                    self.presenting = self.inflight.pop(0)[0]
            else:
                # AXI: valid/data held until r.ready (self.presenting cleared by the monitor).
                if self.presenting is None and self.inflight and self.inflight[0][1] <= self.cycle:
                    self.presenting = self.inflight.pop(0)[0]
            if self.presenting is not None:
                yield rdata.valid.eq(1)
                yield rdata.data.eq(mem_word(self.presenting, len(rdata.data)))
            else:
                yield rdata.valid.eq(0)
                yield rdata.data.eq(p.getrandbits(len(rdata.data)))  # Don't care when not valid.
            # Consumer.
            yield dma.source.ready.eq(self.consumer_ready())
            yield
            self.cycle += 1
            if self.cycle > 30000:
                self.errors.append("timeout")
                self.done = True

    # Monitor (mon domain: settled values of the current sys cycle) ------------------------------------
    def monitor(self):
        dma, port = self.dut.dma, self.dut.port
        cmd, rdata = (port.cmd, port.rdata) if self.kind == "native" else (port.ar, port.r)
        while not self.done:
            if (yield dma.sink.valid) and (yield dma.sink.ready):
                self.accepted.append((yield dma.sink.address))
                self.idx     += 1
                self.offering = False
            if (yield cmd.valid) and (yield cmd.ready):
                if self.kind == "native" and (yield cmd.we):
                    self.errors.append("write command from the reader")
                self.issued.append((yield cmd.addr))
                latency = self.prng.choice([1, 1, 2, 3, 5, 9, 20])
                earliest = max(self.cycle + latency, self.inflight[-1][1] if self.inflight else 0)
                self.inflight.append([self.issued[-1], earliest])
            if (yield rdata.valid):
                if (yield rdata.ready):
                    if self.kind == "axi":
                        self.presenting = None
                elif self.kind == "native":
                    self.errors.append("cycle %d: returned word lost (rdata.ready low)" % self.cycle)
            if (yield dma.source.valid) and (yield dma.source.ready):
                self.received.append(((yield dma.source.data), (yield dma.source.last)))
            outstanding = len(self.issued) - len(self.received)
            self.max_outstanding = max(self.max_outstanding, outstanding)
            if outstanding > self.fifo_depth:
                self.errors.append("cycle %d: %d reads outstanding > fifo_depth %d" % (
                    self.cycle, outstanding, self.fifo_depth))
            if len(self.received) == len(self.addrs):
                self.done = True
            yield


def run(kind, fifo_depth, fifo_buffered, stall_style, n, seed):
    prng  = random.Random(seed)
    addrs = [prng.getrandbits(16) for _ in range(n)]
    lasts = [int(prng.random() < 0.2) for _ in range(n)]
    lasts[-1] = 1

    class DUT(Module):
        def __init__(self):
            if kind == "native":
                self.port = LiteDRAMNativePort("both", address_width=32, data_width=32)
            else:
                self.port = LiteDRAMAXIPort(data_width=32, address_width=32, id_width=1)
            self.submodules.dma = LiteDRAMDMAReader(self.port,
                fifo_depth=fifo_depth, fifo_buffered=fifo_buffered)

    dut = DUT()
    env = Env(dut, kind, addrs, lasts, fifo_depth, seed + 1, stall_style)
    run_simulation(dut, {"sys": [env.driver()], "mon": [env.monitor()]},
        clocks={"sys": 10, "mon": (10, 5)})
    name = "%s depth=%d buffered=%d %s" % (kind, fifo_depth, fifo_buffered, stall_style)
    errors = list(env.errors[:3])
    if env.accepted != addrs:
        errors.append("accepted addresses differ from offered ones")
    if env.issued != addrs:
        errors.append("issued reads differ from accepted addresses (count/order)")
    expected = [(mem_word(a, 32), l) for a, l in zip(addrs, lasts)]
    if env.received != expected:
        errors.append("output stream differs (got %d words, expected %d)" % (
            len(env.received), len(expected)))
    print("%-40s max outstanding %2d  cycles %6d  %s" % (
        name, env.max_outstanding, env.cycle, "ok" if not errors else "FAIL " + "; ".join(errors)))
    return not errors


def main():
    ok   = True
    seed = 100
    for kind in ["native", "axi"]:
        for fifo_depth, fifo_buffered in [(1, False), (2, False), (2, True), (3, False), (4, True),
                                          (16, False), (16, True)]:
            for stall_style in ["fast", "random", "long"]:
                if kind == "axi" and stall_style == "random":
                    continue
                seed += 1
                ok &= run(kind, fifo_depth, fifo_buffered, stall_style, n=100, seed=seed)
    print("PASS" if ok else "FAIL")
    sys.exit(0 if ok else 1)


if __name__ == "__main__":
    main()
