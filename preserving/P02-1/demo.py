# ==================================================================================================
# Self-contained harness: full LiteDRAMController + LiteDRAMCrossbar, native ports driven by traffic
# generators, DFI command bus recorded every cycle/phase and checked (in pure Python) against
#   C03 datasheet minimum spacings (DRAM clock cycles, phase positions included),
#   C04 refresh schedule (k-th refresh no later than (k+N)*tREFI + fixed latency; precharge-all first),
#   C05 liveness (every offered command accepted and completed within a configuration constant).
# The checks are black-box: only DFI pins and port handshakes are looked at, no internal signal.
# ==================================================================================================
import os, sys, math, random, time
sys.path.insert(0, os.environ.get("PRES_ROOT", "/repo"))  # worktree under test

from migen import *

from litedram.common import PhySettings, GeomSettings, TimingSettings
from litedram.core.controller import ControllerSettings, LiteDRAMController
from litedram.core.crossbar import LiteDRAMCrossbar


class Cfg:
    """Datasheet-like values in DRAM clocks (ck); controller settings derived like litedram/modules.py
    does for ns values (margin of (nphases-1) DRAM clocks, rounded up to controller cycles)."""
    def __init__(self, name, nphases, rdphase, wrphase, cl, cwl, read_latency, ck, trefi, postponing=1,
                 zq_period=None, bankbits=3, cmd_buffer_depth=8, cmd_buffer_buffered=False,
                 read_time=32, write_time=16, auto_precharge=True, memtype="DDR3"):
        self.__dict__.update(locals())
        self.burst = 4  # BL8: 4 DRAM clocks of data

    def cyc(self, t_ck):
        return math.ceil((t_ck + self.nphases - 1)/self.nphases)

    def timing_settings(self):
        ck = self.ck
        return TimingSettings(
            tRP   = self.cyc(ck["tRP"]),
            tRCD  = self.cyc(ck["tRCD"]),
            tWR   = self.cyc(ck["tWR"]),
            tWTR  = self.cyc(ck["tWTR"]),
            tREFI = self.trefi,
            tRFC  = self.cyc(ck["tRFC"]),
            tFAW  = self.cyc(ck["tFAW"]),
            tCCD  = math.ceil(ck["tCCD"]/self.nphases),  # ck-only value in the library
            tRRD  = self.cyc(ck["tRRD"]),
            tRC   = self.cyc(ck["tRP"] + ck["tRAS"]),
            tRAS  = self.cyc(ck["tRAS"]),
            tZQCS = None if self.zq_period is None else self.cyc(ck["tZQCS"]),
        )


class DUT(Module):
    def __init__(self, cfg, nports):
        self.cfg = cfg
        phy = PhySettings(
            phytype="DEMO", memtype=cfg.memtype, databits=16, dfi_databits=32, nphases=cfg.nphases,
            rdphase=cfg.rdphase, wrphase=cfg.wrphase, cl=cfg.cl, cwl=cfg.cwl,
            read_latency=cfg.read_latency, write_latency=math.ceil(cfg.cwl/cfg.nphases))
        geom = GeomSettings(bankbits=cfg.bankbits, rowbits=13, colbits=10)
        cs = ControllerSettings(
            cmd_buffer_depth=cfg.cmd_buffer_depth, cmd_buffer_buffered=cfg.cmd_buffer_buffered,
            read_time=cfg.read_time, write_time=cfg.write_time,
            with_auto_precharge=cfg.auto_precharge, refresh_postponing=cfg.postponing,
            refresh_zqcs_freq=1.0 if cfg.zq_period is None else 100e6/cfg.zq_period)
        self.submodules.controller = LiteDRAMController(phy, geom, cfg.timing_settings(), 100e6, cs)
        self.submodules.crossbar = LiteDRAMCrossbar(self.controller.interface)
        self.ports = [self.crossbar.get_port() for _ in range(nports)]
        self.dfi = self.controller.dfi
        self.colbits_port = 10 - 3  # address_align = 3 (BL8)

    def addr(self, row, bank, col):
        return (row << (self.cfg.bankbits + self.colbits_port)) | (bank << self.colbits_port) | col


class Run:
    """One simulation: `traffic[p]` is a list of (we, row, bank, col, idle_cycles_before)."""
    def __init__(self, cfg, traffic, cycles):
        self.cfg, self.traffic, self.cycles = cfg, traffic, cycles
        self.dut = DUT(cfg, len(traffic))
        self.trace = []                                  # (cycle, phase, cmd, bank, a10)
        self.offer  = [[] for _ in traffic]              # per port: (we, offer_cycle, accept_cycle)
        self.strobe = [{0: [], 1: []} for _ in traffic]  # per port: cycles of rdata.valid / wdata.ready
        self.now = 0

    def port_gen(self, p):
        port = self.dut.ports[p]
        for (we, row, bank, col, idle) in self.traffic[p]:
            if idle:
                yield port.cmd.valid.eq(0)
                for _ in range(idle):
                    yield
            yield port.cmd.valid.eq(1)
            yield port.cmd.we.eq(we)
            yield port.cmd.addr.eq(self.dut.addr(row, bank, col))
            yield
            t0 = self.now
            while not (yield port.cmd.ready):
                yield
            self.offer[p].append((we, t0, self.now))
        yield port.cmd.valid.eq(0)
        yield

    @passive
    def monitor(self):
        dut = self.dut
        for port in dut.ports:
            yield port.wdata.valid.eq(1)
            yield port.wdata.we.eq(0xff)
            yield port.rdata.ready.eq(1)
        decode = {(1, 0, 1): "ACT", (1, 0, 0): "PRE", (0, 1, 1): "RD", (0, 1, 0): "WR",
                  (0, 0, 1): "REF", (1, 1, 0): "ZQC"}
        while True:
            yield
            self.now += 1
            for ph, phase in enumerate(dut.dfi.phases):
                pins = ((yield phase.cas_n), (yield phase.ras_n), (yield phase.we_n))
                if pins != (1, 1, 1) and (yield phase.cs_n) == 0:
                    a = (yield phase.address)
                    self.trace.append((self.now, ph, decode[pins], (yield phase.bank), (a >> 10) & 1))
            for p, port in enumerate(dut.ports):
                if (yield port.wdata.ready):
                    self.strobe[p][1].append(self.now)
                if (yield port.rdata.valid):
                    self.strobe[p][0].append(self.now)

    @passive
    def stopper(self):
        for _ in range(self.cycles):
            yield
        raise TimeoutError("traffic not fully accepted after %d cycles (C05)" % self.cycles)

    def run(self):
        gens = [self.port_gen(p) for p in range(len(self.traffic))]
        def main():
            # Ends when all ports are done, then drains.
            done = [False]*len(gens)
            def wrap(i, g):
                yield from g
                done[i] = True
            return [wrap(i, g) for i, g in enumerate(gens)], done
        wrapped, done = main()
        def drain():
            while not all(done):
                yield
            for _ in range(self.drain_cycles()):
                yield
        run_simulation(self.dut, wrapped + [drain(), self.monitor(), self.stopper()])
        return self

    def drain_cycles(self):
        # enough for the last accepted commands to complete + at least one more refresh burst
        return self.cfg.postponing*self.cfg.trefi + 120

    # ---------------------------------------------------------------------------------------------
    # Checkers
    # ---------------------------------------------------------------------------------------------
    def check_c03(self):
        cfg, ck, n = self.cfg, self.cfg.ck, self.cfg.nphases
        nb = 2**cfg.bankbits
        NEG = -10**9
        last_act = [NEG]*nb; last_pre = [NEG]*nb; wr_end = [NEG]*nb; opened = [False]*nb
        acts = []; last_cas = NEG; last_wr_end = NEG; last_ref = NEG; last_zq = NEG
        errors = []; stats = {}
        def need(what, t, since, minimum):
            if since > NEG:
                stats[what] = min(stats.get(what, 10**9), t - since)
            if t - since < minimum:
                errors.append("%s: %d < %d at DRAM clock %d" % (what, t - since, minimum, t))
        prev = None
        for (cycle, ph, cmd, bank, a10) in sorted(self.trace):
            t = cycle*n + ph
            need("tRFC(any cmd after REF)", t, last_ref, ck["tRFC"])
            if cfg.zq_period is not None:
                need("tZQCS(any cmd after ZQCS)", t, last_zq, ck["tZQCS"])
            if cmd == "ACT":
                if opened[bank]: errors.append("ACT to open bank %d at %d" % (bank, t))
                need("tRP", t, last_pre[bank], ck["tRP"])
                need("tRC", t, last_act[bank], ck["tRP"] + ck["tRAS"])
                if acts: need("tRRD", t, acts[-1], ck["tRRD"])
                if len(acts) >= 4: need("tFAW", t, acts[-4], ck["tFAW"])
                acts.append(t); last_act[bank] = t; opened[bank] = True
            elif cmd in ("RD", "WR"):
                if not opened[bank]: errors.append("%s to closed bank %d at %d" % (cmd, bank, t))
                need("tRCD", t, last_act[bank], ck["tRCD"])
                need("tCCD", t, last_cas, ck["tCCD"])
                if cmd == "RD":
                    need("tWTR(after write burst)", t, last_wr_end, ck["tWTR"])
                else:
                    wr_end[bank] = last_wr_end = t + cfg.cwl + cfg.burst
                last_cas = t
                if a10:  # auto-precharge: starts once tRAS and (for writes) write recovery are met
                    start = max(t, last_act[bank] + ck["tRAS"])
                    if cmd == "WR": start = max(start, wr_end[bank] + ck["tWR"])
                    last_pre[bank] = start; opened[bank] = False
            elif cmd == "PRE":
                for b in (range(nb) if a10 else [bank]):
                    if opened[b]:
                        need("tRAS", t, last_act[b], ck["tRAS"])
                        need("tWR(after write burst)", t, wr_end[b], ck["tWR"])
                        last_pre[b] = t; opened[b] = False
            elif cmd in ("REF", "ZQC"):
                if any(opened): errors.append("%s with open banks at %d" % (cmd, t))
                for b in range(nb):
                    need("tRP(before %s)" % cmd, t, last_pre[b], ck["tRP"])
                if not (prev is not None and prev[2] == "PRE" and prev[4]):
                    errors.append("%s at %d not preceded by precharge-all" % (cmd, t))
                if cmd == "REF": last_ref = t
                else:            last_zq = t
            prev = (cycle, ph, cmd, bank, a10)
        return errors, stats

    def check_c04(self, latency=160):
        cfg = self.cfg
        N, trefi = cfg.postponing, cfg.trefi
        refs = [c for (c, ph, cmd, b, a) in sorted(self.trace) if cmd == "REF"]
        errors = []
        for k, c in enumerate(refs, start=1):
            if c > (k + N)*trefi + latency:
                errors.append("refresh #%d at cycle %d > (k+N)*tREFI + %d" % (k, c, latency))
        # the refresh that must have been issued by the end of the run
        k_due = (self.now - latency)//trefi - N
        if len(refs) < k_due:
            errors.append("only %d refreshes in %d cycles (need >= %d)" % (len(refs), self.now, k_due))
        if cfg.zq_period is not None:
            zqs = [0] + [c for (c, ph, cmd, b, a) in sorted(self.trace) if cmd == "ZQC"] + [self.now]
            for a, b in zip(zqs, zqs[1:]):
                if b - a > cfg.zq_period + N*trefi + latency:
                    errors.append("ZQCS gap %d..%d too long" % (a, b))
        return errors, (len(refs), sum(1 for x in self.trace if x[2] == "ZQC"))

    def check_c05(self, accept_bound, complete_bound):
        errors = []; worst_a = worst_c = 0
        for p, offers in enumerate(self.offer):
            if len(offers) != len(self.traffic[p]):
                errors.append("port %d: %d/%d commands accepted" % (p, len(offers), len(self.traffic[p])))
            for we in (0, 1):
                acc = [a for (w, o, a) in offers if w == we]
                st  = self.strobe[p][we]
                if len(st) != len(acc):
                    errors.append("port %d we=%d: %d completions for %d commands" % (p, we, len(st), len(acc)))
                for a, s in zip(acc, st):
                    worst_c = max(worst_c, s - a)
                    if not (0 <= s - a <= complete_bound):
                        errors.append("port %d we=%d: accepted %d completed %d" % (p, we, a, s))
            for (w, o, a) in offers:
                worst_a = max(worst_a, a - o)
                if a - o > accept_bound:
                    errors.append("port %d: offered %d accepted %d" % (p, o, a))
        return errors, (worst_a, worst_c)


# Configurations ------------------------------------------------------------------------------------
CK_DDR3 = dict(tRP=11, tRCD=11, tWR=12, tWTR=6, tRFC=88, tFAW=24, tCCD=4, tRRD=5, tRAS=28, tZQCS=64)

def cfg_quarter(**kw):  # 1:4, like a DDR3-1600 on a 7-series PHY
    return Cfg("1:4", nphases=4, rdphase=2, wrphase=3, cl=11, cwl=8, read_latency=8, ck=CK_DDR3, **kw)

def cfg_half(**kw):     # 1:2
    ck = dict(CK_DDR3, tRFC=44, tFAW=18, tRAS=15, tRP=6, tRCD=6, tWR=6, tWTR=4, tRRD=4, tZQCS=32)
    return Cfg("1:2", nphases=2, rdphase=0, wrphase=1, cl=6, cwl=5, read_latency=6, ck=ck, **kw)

def cfg_full(**kw):     # 1:1, single phase (commands and column accesses share the only phase)
    ck = dict(CK_DDR3, tRFC=20, tFAW=10, tRAS=8, tRP=3, tRCD=3, tWR=3, tWTR=2, tRRD=2, tZQCS=16)
    return Cfg("1:1", nphases=1, rdphase=0, wrphase=0, cl=3, cwl=2, read_latency=5, ck=ck, **kw)


# Traffic -------------------------------------------------------------------------------------------
def t_conflict(n, we, bank, rows, idle=0):
    """same bank, alternating rows (row conflict every `len(rows)`-th access)"""
    return [(we, rows[i % len(rows)], bank, i % 128, idle) for i in range(n)]

def t_stream(n, we, bank, row, idle=0):
    """same bank, same row, as fast as the port accepts"""
    return [(we, row, bank, i % 128, idle) for i in range(n)]

def t_random(n, seed, banks=8, rows=4, p_we=0.5, max_idle=3):
    prng = random.Random(seed)
    return [(int(prng.random() < p_we), prng.randrange(rows), prng.randrange(banks), prng.randrange(128),
             prng.randrange(max_idle + 1)) for _ in range(n)]

def t_alternate(n, bank_w, bank_r, row):
    """strict write/read alternation: a direction change per command"""
    return [((i + 1) % 2, row, bank_w if (i + 1) % 2 else bank_r, i % 128, 0) for i in range(n)]

def t_sweep(n, we, banks=8):
    """one access per bank, new row each round: activates as fast as tRRD/tFAW allow"""
    return [(we, i // banks, i % banks, 0, 0) for i in range(n)]


def evaluate(name, cfg, traffic, cycles=20000, accept_bound=None, complete_bound=None):
    t0 = time.time()
    run = Run(cfg, traffic, cycles).run()
    # Configuration-only constants (generous): a full refresh burst + both anti-starvation windows.
    burst = cfg.postponing*(cfg.cyc(cfg.ck["tRP"]) + cfg.cyc(cfg.ck["tRFC"]) + 4) + 40
    if complete_bound is None:
        complete_bound = 2*burst + 4*(cfg.read_time + cfg.write_time) + 200
    if accept_bound is None:
        accept_bound = (cfg.cmd_buffer_depth + 2)*len(traffic)*complete_bound
    e3, stats = run.check_c03()
    e4, nref  = run.check_c04()
    e5, worst = run.check_c05(accept_bound, complete_bound)
    ncmd = sum(len(t) for t in traffic)
    ok = not (e3 or e4 or e5)
    print("%-34s %-4s N=%d  %5d cycles %4d port cmds %3d refreshes %d ZQCS  worst accept/complete %d/%d  %s (%.1fs)" % (
        name, cfg.name, cfg.postponing, run.now, ncmd, nref[0], nref[1], worst[0], worst[1], "ok" if ok else "FAIL",
        time.time() - t0))
    for e in (e3 + e4 + e5)[:12]:
        print("    ", e)
    return ok, stats

# ==================================================================================================
# demo1: the timing controllers (tXXDController / tFAWController) as black boxes, then the spacings
# they are responsible for (tRRD, tFAW, tCCD, tWTR, tRC, tRAS, write recovery) on the DFI bus of a
# full controller, with activate-bound, column-bound and direction-changing traffic.
# ==================================================================================================
from litedram.common import tXXDController, tFAWController

class Gated(Module):
    """valid = want & ready, combinatorially: how the multiplexer uses these controllers."""
    def __init__(self, con):
        self.submodules.con = con
        self.want = Signal()
        self.comb += con.valid.eq(self.want & con.ready)

def drive(dut, prng, n, probs):
    """returns the per-cycle (ready, valid) as seen on the controller"""
    log = []
    def gen():
        for i in range(n):
            yield dut.want.eq(int(prng.random() < prng.choice(probs)))
            yield
            log.append(((yield dut.con.ready), (yield dut.con.valid)))
    run_simulation(dut, gen())
    return log

def unit_txxd(txxd, seed, n=400):
    log = drive(Gated(tXXDController(txxd)), random.Random(seed), n, [0.2, 0.9])
    # contract: after a valid in cycle t, ready is low in t+1..t+txxd-1 and high from t+txxd on
    # (before the first valid: the power-on lockout, not part of the contract).
    last = None
    for t, (r, v) in enumerate(log):
        if txxd is None:
            if not r: return "tXXD(None): ready low"
        elif last is not None and r != int(t - last >= txxd):
            return "tXXD(%s): ready=%d, %d cycles after valid" % (txxd, r, t - last)
        if v: last = t
    if last is None:
        return "tXXD(%s): never ready" % txxd
    return None

def unit_tfaw(tfaw, seed, n=500):
    log = drive(Gated(tFAWController(tfaw)), random.Random(seed), n, [0.3, 1.0, 1.0])
    vt = [t for t, (r, v) in enumerate(log) if v]
    low = stuck = 0
    for r, v in log:
        low = 0 if r else low + 1
        stuck = max(stuck, low)
    if tfaw is None:
        return None if stuck == 0 else "tFAW(None): ready low"
    for a, b in zip(vt, vt[4:]):
        if b - a < tfaw:
            return "tFAW(%d): 5 activates within %d cycles" % (tfaw, b - a)
    if stuck > tfaw + 2:
        return "tFAW(%d): ready low for %d cycles" % (tfaw, stuck)
    if len(vt) < 4*(n//(tfaw + 3)) - 4:
        return "tFAW(%d): only %d activates allowed in %d cycles" % (tfaw, len(vt), n)
    return None

def main():
    import litedram
    print("litedram from", litedram.__file__)
    errors = []
    for txxd in [None, 1, 2, 3, 4, 5, 8, 13, 16, 17]:
        errors.append(unit_txxd(txxd, seed=txxd or 0))
    for tfaw in [None, 4, 5, 6, 8, 11, 16, 27]:
        errors.append(unit_tfaw(tfaw, seed=tfaw or 0))
    errors = [e for e in errors if e]
    print("unit level: tXXD and tFAW contracts", "ok" if not errors else errors)

    small = dict(bankbits=2, cmd_buffer_depth=4)
    results = []
    # 1. activate-bound: four ports, one bank each, a new row for every access. tFAW (11 controller
    #    cycles) is longer than tRC (8) here, so the fifth activate waits for the four-activate window.
    ck = dict(CK_DDR3, tFAW=40, tRAS=20, tRP=8, tRCD=8, tRRD=5)
    cfg = Cfg("1:4", nphases=4, rdphase=2, wrphase=3, cl=11, cwl=8, read_latency=8, ck=ck, trefi=160, **small)
    results.append(evaluate("activate-bound (tRRD/tFAW/tRC)", cfg,
        [t_conflict(30, 0, b, list(range(8))) for b in range(4)]))
    # 2. column-bound streams in both directions on open rows (tCCD, tWTR, turnarounds), half rate.
    cfg = cfg_half(trefi=200, **small)
    results.append(evaluate("column streams W+R (tCCD/tWTR)", cfg,
        [t_stream(80, 1, 0, 1), t_stream(80, 0, 1, 2), t_stream(30, 1, 2, 3, idle=1)]))
    # 3. row conflicts with writes (write recovery, tRAS, tRC, tRP) mixed with random traffic, full rate.
    cfg = cfg_full(trefi=150, auto_precharge=False, **small)
    results.append(evaluate("write conflicts (tWR/tRAS/tRP)", cfg,
        [t_conflict(24, 1, 0, [1, 2]), t_conflict(24, 1, 1, [3, 4, 4]), t_random(26, 3, banks=4)]))
    # 4. same with auto-precharge and a quarter-rate controller.
    cfg = cfg_quarter(trefi=150, **small)
    results.append(evaluate("conflicts, auto-precharge", cfg,
        [t_conflict(18, 1, 0, [1, 2]), t_conflict(18, 0, 0, [3, 4]), t_random(24, 4, banks=4)]))
    mins = {}
    for ok, stats in results:
        for k, v in stats.items():
            mins.setdefault(k, []).append(v)
    print("smallest spacings seen per run (DRAM clocks):", {k: v for k, v in sorted(mins.items())})
    ok = all(r[0] for r in results) and not errors
    print("PASS" if ok else "FAIL")
    sys.exit(0 if ok else 1)

if __name__ == "__main__":
    main()
